// Kani harnesses for crates/erbium-core/src/dhcp/config.rs (C19: the dhcp-policies section is parsed totally
// and what it accepts is safe to expand).  Yaml values are built by hand; mappings can only be EMPTY (see the
// note at the end of the file).
#[cfg(kani)]
mod k {
    use super::super::*;
    include!(concat!(env!("ISOMER_ERBIUM_VERIF_DIR"), "/_common.rs"));
    use yaml_rust::yaml::Yaml;

    fn is_invalid_config<T>(r: &Result<T, Error>) -> bool {
        matches!(r, Err(Error::InvalidConfig(_)))
    }
    const KIND_REAL: u8 = 0;
    const KIND_INT: u8 = 1;
    const KIND_STR: u8 = 2;
    const KIND_BOOL: u8 = 3;
    const KIND_ARR_NULL: u8 = 4; // [~]
    const KIND_ARR_STRS: u8 = 5; // ["a", "b"]
    const KIND_ALIAS: u8 = 6;
    const KIND_NULL: u8 = 7;
    const KIND_BAD: u8 = 8;
    const KIND_ARR_EMPTY: u8 = 9; // []
    const KIND_HASH_EMPTY: u8 = 10; // {}
    const KIND_ARR_HASH_EMPTY: u8 = 11; // [{}]
    fn yaml_of_kind(k: u8) -> Yaml {
        match k {
            KIND_REAL => Yaml::Real(String::from("1.5")),
            KIND_INT => Yaml::Integer(kani::any()),
            KIND_STR => Yaml::String(String::from("x")),
            KIND_BOOL => Yaml::Boolean(kani::any()),
            KIND_ARR_NULL => Yaml::Array(vec![Yaml::Null]),
            KIND_ARR_STRS => Yaml::Array(vec![Yaml::String(String::from("a")), Yaml::String(String::from("b"))]),
            KIND_ALIAS => Yaml::Alias(kani::any()),
            KIND_NULL => Yaml::Null,
            KIND_BAD => Yaml::BadValue,
            KIND_ARR_EMPTY => Yaml::Array(Vec::new()),
            KIND_HASH_EMPTY => Yaml::Hash(Default::default()),
            _ => Yaml::Array(vec![Yaml::Hash(Default::default())]),
        }
    }

    fn wrong_type_on(k: u8) {
        let y = yaml_of_kind(k);
        // parse_subnet on a string goes through str::split, which CBMC cannot get through (see config.rs)
        if k != KIND_STR {
            let r = Config::parse_subnet(&y);
            match k {
                KIND_NULL => assert!(matches!(r, Ok(None)), "parse_subnet: null is None"),
                _ => assert!(is_invalid_config(&r), "parse_subnet refuses non-strings with InvalidConfig"),
            }
            std::mem::forget(r);
        }
        let r = Config::parse_number(&y);
        match &y {
            Yaml::Null => assert!(matches!(r, Ok(None)), "parse_number: null is None"),
            Yaml::Integer(i) => assert!(matches!(r, Ok(Some(v)) if v == *i), "parse_number returns the integer"),
            _ => assert!(is_invalid_config(&r), "parse_number refuses non-integers with InvalidConfig"),
        }
        std::mem::forget(r);
        let r = Config::parse_routes(&y);
        match k {
            KIND_NULL => assert!(matches!(r, Ok(None)), "parse_routes: null is None"),
            KIND_ARR_EMPTY => assert!(matches!(&r, Ok(Some(v)) if v.is_empty()), "parse_routes: [] is no routes"),
            _ => assert!(is_invalid_config(&r), "parse_routes refuses non-lists, non-mapping entries and entries without prefix"),
        }
        std::mem::forget(r);
        let r = Config::parse_policies(&y);
        match k {
            KIND_ARR_EMPTY => assert!(matches!(&r, Ok(v) if v.is_empty()), "parse_policies: [] is no policies"),
            KIND_ARR_HASH_EMPTY => assert!(matches!(&r, Ok(v) if v.len() == 1 && !v[0].match_all && v[0].match_subnet.is_none() && v[0].apply_address.is_none() && v[0].policies.is_empty()), "parse_policies: a list of one empty mapping is one policy with every default"),
            _ => assert!(is_invalid_config(&r), "parse_policies refuses non-lists and non-mapping entries"),
        }
        std::mem::forget(r);
        std::mem::forget(y);
    }

    /// VERIF: {"p":"C19","tier":"quick","fns":["dhcp::config::Config::parse_subnet","dhcp::config::Config::parse_number","dhcp::config::Config::parse_routes","dhcp::config::Config::parse_policies"],"bounds":"each parser on, one after the other: Integer(any i64), the string \"x\" (parse_subnet is not run on it: str::split), Null, Boolean(any)","oracle":"right shape => Ok; null => Ok(None) where null is allowed; everything else => Err(InvalidConfig); never a panic","stubs":["alloc::fmt::format -> empty string (message text only)"],"covers":1,"unwind":6}
    #[kani::proof]
    #[kani::unwind(6)]
    #[kani::stub(alloc::fmt::format, empty_format)]
    fn c19_dhcp_parsers_wrong_scalar() {
        wrong_type_on(KIND_INT);
        wrong_type_on(KIND_STR);
        wrong_type_on(KIND_NULL);
        wrong_type_on(KIND_BOOL);
        kani::cover!(true, "every call returned");
    }

    /// VERIF: {"p":"C19","tier":"quick","fns":["dhcp::config::Config::parse_subnet","dhcp::config::Config::parse_number","dhcp::config::Config::parse_routes","dhcp::config::Config::parse_policies"],"bounds":"each parser on `[]` and on the empty mapping (e.g. `dhcp-policies: []`, `apply-routes: []`, `match-subnet: []`). (A list holding the empty mapping, i.e. one policy with every default, is NOT covered: building Policy::default() - two HashMaps, a Mutex - times out)","oracle":"`[]` => no routes / no policies; everything else => Err(InvalidConfig); never a panic","stubs":["alloc::fmt::format -> empty string (message text only)","std::hash::RandomState::new -> fixed keys (creating the empty Hash)"],"covers":1,"unwind":6}
    #[kani::proof]
    #[kani::unwind(6)]
    #[kani::stub(alloc::fmt::format, empty_format)]
    #[kani::stub(std::hash::RandomState::new, fixed_random_state)]
    fn c19_dhcp_parsers_empty_collections() {
        wrong_type_on(KIND_ARR_EMPTY);
        wrong_type_on(KIND_HASH_EMPTY);
        kani::cover!(true, "every call returned");
    }

    /// VERIF: {"p":"C19","tier":"experimental","fns":["dhcp::config::Config::parse_subnet","dhcp::config::Config::parse_number","dhcp::config::Config::parse_routes","dhcp::config::Config::parse_policies"],"bounds":"each parser on the NON-empty sequence `[~]` (e.g. `dhcp-policies: [~]`, `apply-routes: [~]`)","oracle":"Err(InvalidConfig); never a panic","stubs":["alloc::fmt::format -> empty string (message text only)"],"covers":1,"unwind":6}
    #[kani::proof]
    #[kani::unwind(6)]
    #[kani::stub(alloc::fmt::format, empty_format)]
    fn c19_dhcp_parsers_sequence_of_null() {
        wrong_type_on(KIND_ARR_NULL);
        kani::cover!(true, "every call returned");
    }

    // -> accepted?
    fn generic_int(name: &str, i: i64) -> bool {
        let y = Yaml::Integer(i);
        let r = Config::parse_generic(name, &y);
        assert!(matches!(r, Ok((_, Some(_))) | Err(Error::InvalidConfig(_))), "parse_generic: a value or InvalidConfig");
        let ok = r.is_ok();
        std::mem::forget(r);
        ok
    }

    /// VERIF: {"p":"C19","tier":"quick","fns":["dhcp::config::Config::parse_generic","dhcppkt::name_to_option","dhcppkt::DhcpOption::get_type","config::parse_duration","config::parse_boolean"],"bounds":"`apply-<option>: <any i64>` for one option of each numeric type: time-offset (i32), default-ttl (u8), mtu (u16), lease-time (seconds, 32 bit), rebind-time (seconds, 16 bit), forward (bool)","oracle":"accepted exactly when the integer fits the option's wire type (negative / huge values => Err(InvalidConfig)), boolean option refuses integers; never a panic or silent truncation","stubs":["alloc::fmt::format -> empty string (message text only)"],"covers":2,"unwind":90}
    #[kani::proof]
    #[kani::unwind(90)]
    #[kani::stub(alloc::fmt::format, empty_format)]
    fn c19_dhcp_parse_generic_integers() {
        let i: i64 = kani::any();
        let w: u8 = kani::any();
        kani::cover!(w == 3 && i < 0, "negative lease time");
        kani::cover!(w == 1 && i == 64, "ttl 64");
        match w {
            0 => assert!(generic_int("time-offset", i) == (i32::MIN as i64..=i32::MAX as i64).contains(&i), "i32 option"),
            1 => assert!(generic_int("default-ttl", i) == (0..=255).contains(&i), "u8 option"),
            2 => assert!(generic_int("mtu", i) == (0..=65535).contains(&i), "u16 option"),
            3 => assert!(generic_int("lease-time", i) == (0..=u32::MAX as i64).contains(&i), "32-bit seconds option"),
            4 => assert!(generic_int("rebind-time", i) == (0..=65535).contains(&i), "16-bit seconds option"),
            _ => assert!(!generic_int("forward", i), "boolean option refuses integers"),
        }
    }

    // NOT REACHABLE (measured): any mapping with at least one entry.  yaml_rust's Hash is a LinkedHashMap over
    // std's HashMap; one `insert` of one CONCRETE key (RandomState stubbed) does not finish within 900 s of CBMC
    // time, so parsers that iterate over a populated mapping (parse_policy incl. apply-subnet/apply-range expansion, parse_routes entries) cannot be driven
    // from here.  The YAML-level behaviour of those paths was confirmed natively instead (see the report).
}
