// Kani harnesses for crates/erbium-core/src/dhcp/config.rs (C19: the dhcp-policies section is parsed totally
// and what it accepts is safe to expand).  Yaml values are built by hand; mappings are empty or hold one
// CONCRETE string key.  Filling a HashSet with symbolic addresses is out of CBMC's reach, so `apply-subnet` /
// `apply-range` are driven only with values whose expansion is empty or fails before the first insert.
#[cfg(kani)]
mod k {
    use super::super::*;
    include!(concat!(env!("ISOMER_ERBIUM_VERIF_DIR"), "/_common.rs"));
    use yaml_rust::yaml::Yaml;

    fn is_invalid_config<T>(r: &Result<T, Error>) -> bool {
        matches!(r, Err(Error::InvalidConfig(_)))
    }
    fn ascii<const N: usize>() -> String {
        let b: [u8; N] = kani::any();
        let mut i = 0;
        while i < N {
            kani::assume(b[i] < 128);
            i += 1;
        }
        String::from(std::str::from_utf8(&b).unwrap())
    }
    fn with_tail<const N: usize>(head: &str) -> String {
        let mut s = String::from(head);
        s.push_str(&ascii::<N>());
        s
    }

    const KIND_REAL: u8 = 0;
    const KIND_INT: u8 = 1;
    const KIND_STR: u8 = 2;
    const KIND_BOOL: u8 = 3;
    const KIND_ARR_NULL: u8 = 4; // [~]
    const KIND_ARR_STRS: u8 = 5; // ["a", "b"]
    const KIND_ALIAS: u8 = 6;
    const KIND_NULL: u8 = 7;
    const KIND_BAD: u8 = 8;
    const KIND_ARR_EMPTY: u8 = 9; // []
    const KIND_HASH_EMPTY: u8 = 10; // {}
    const KIND_ARR_HASH_EMPTY: u8 = 11; // [{}]
    fn yaml_of_kind(k: u8) -> Yaml {
        match k {
            KIND_REAL => Yaml::Real(String::from("1.5")),
            KIND_INT => Yaml::Integer(kani::any()),
            KIND_STR => Yaml::String(String::from("x")),
            KIND_BOOL => Yaml::Boolean(kani::any()),
            KIND_ARR_NULL => Yaml::Array(vec![Yaml::Null]),
            KIND_ARR_STRS => Yaml::Array(vec![Yaml::String(String::from("a")), Yaml::String(String::from("b"))]),
            KIND_ALIAS => Yaml::Alias(kani::any()),
            KIND_NULL => Yaml::Null,
            KIND_BAD => Yaml::BadValue,
            KIND_ARR_EMPTY => Yaml::Array(Vec::new()),
            KIND_HASH_EMPTY => Yaml::Hash(Default::default()),
            _ => Yaml::Array(vec![Yaml::Hash(Default::default())]),
        }
    }

    // -> accepted prefix length
    fn subnet_on<const N: usize>() -> Option<u8> {
        let y = Yaml::String(with_tail::<N>("10.0.0.0/"));
        let r = Config::parse_subnet(&y);
        assert!(matches!(r, Ok(Some(_)) | Err(Error::InvalidConfig(_))), "parse_subnet: a subnet or InvalidConfig");
        let mut acc = None;
        if let Ok(Some(s)) = &r {
            assert!(s.addr == std::net::Ipv4Addr::new(10, 0, 0, 0), "address part");
            assert!(s.prefixlen <= 32, "an accepted `match-subnet` / `apply-subnet` has a prefix length of at most 32 (apply-subnet computes `32 - prefixlen`)");
            acc = Some(s.prefixlen);
        }
        std::mem::forget(r);
        std::mem::forget(y);
        acc
    }

    /// VERIF: {"p":"C19","tier":"quick","fns":["dhcp::config::Config::parse_subnet","erbium_net::Ipv4Subnet::new","erbium_net::Ipv4Subnet::netmask"],"bounds":"`match-subnet` / `apply-subnet` strings \"10.0.0.0/\" + every ASCII string of length 0,1,2,3","oracle":"Ok(subnet) or Err(InvalidConfig), never a panic / shift overflow; an accepted subnet has prefixlen <= 32","stubs":["alloc::fmt::format -> empty string (message text only)"],"covers":2,"unwind":16}
    #[kani::proof]
    #[kani::unwind(16)]
    #[kani::stub(alloc::fmt::format, empty_format)]
    fn c19_dhcp_parse_subnet_accepted_lengths() {
        let n: u8 = kani::any();
        let acc = match n {
            0 => subnet_on::<0>(),
            1 => subnet_on::<1>(),
            2 => subnet_on::<2>(),
            _ => subnet_on::<3>(),
        };
        kani::cover!(n == 2 && acc == Some(24), "10.0.0.0/24 accepted");
        kani::cover!(n == 1 && acc.is_none(), "10.0.0.0/5 (host bits) or junk refused");
    }

    fn wrong_type_on(k: u8) {
        let y = yaml_of_kind(k);
        let r = Config::parse_subnet(&y);
        match k {
            KIND_NULL => assert!(matches!(r, Ok(None)), "parse_subnet: null is None"),
            _ => assert!(is_invalid_config(&r), "parse_subnet refuses non-strings and \"x\" with InvalidConfig"),
        }
        std::mem::forget(r);
        let r = Config::parse_number(&y);
        match &y {
            Yaml::Null => assert!(matches!(r, Ok(None)), "parse_number: null is None"),
            Yaml::Integer(i) => assert!(matches!(r, Ok(Some(v)) if v == *i), "parse_number returns the integer"),
            _ => assert!(is_invalid_config(&r), "parse_number refuses non-integers with InvalidConfig"),
        }
        std::mem::forget(r);
        let r = Config::parse_routes(&y);
        match k {
            KIND_NULL => assert!(matches!(r, Ok(None)), "parse_routes: null is None"),
            KIND_ARR_EMPTY => assert!(matches!(&r, Ok(Some(v)) if v.is_empty()), "parse_routes: [] is no routes"),
            _ => assert!(is_invalid_config(&r), "parse_routes refuses non-lists, non-mapping entries and entries without prefix"),
        }
        std::mem::forget(r);
        let r = Config::parse_policies(&y);
        match k {
            KIND_ARR_EMPTY => assert!(matches!(&r, Ok(v) if v.is_empty()), "parse_policies: [] is no policies"),
            KIND_ARR_HASH_EMPTY => assert!(matches!(&r, Ok(v) if v.len() == 1 && !v[0].match_all && v[0].match_subnet.is_none() && v[0].apply_address.is_none() && v[0].policies.is_empty()), "parse_policies: a list of one empty mapping is one policy with every default"),
            _ => assert!(is_invalid_config(&r), "parse_policies refuses non-lists and non-mapping entries"),
        }
        std::mem::forget(r);
        std::mem::forget(y);
    }

    /// VERIF: {"p":"C19","tier":"quick","fns":["dhcp::config::Config::parse_subnet","dhcp::config::Config::parse_number","dhcp::config::Config::parse_routes","dhcp::config::Config::parse_policies","dhcp::config::Config::parse_policy"],"bounds":"each parser on one value of every Yaml variant: Real, Integer(any), String \"x\", Boolean(any), `[~]`, `[\"a\",\"b\"]`, Alias(any), Null, BadValue, `[]`, `{}`, `[{}]`","oracle":"right shape => Ok; null => Ok(None) where null is allowed; everything else => Err(InvalidConfig); never a panic","stubs":["alloc::fmt::format -> empty string (message text only)","std::hash::RandomState::new -> fixed keys (creating empty maps)"],"covers":3,"unwind":6}
    #[kani::proof]
    #[kani::unwind(6)]
    #[kani::stub(alloc::fmt::format, empty_format)]
    #[kani::stub(std::hash::RandomState::new, fixed_random_state)]
    fn c19_dhcp_parsers_wrong_type() {
        let k: u8 = kani::any();
        kani::cover!(k == 11, "a list of one empty mapping");
        kani::cover!(k == 9, "[]");
        kani::cover!(k == 1, "integer");
        match k {
            0 => wrong_type_on(KIND_REAL),
            1 => wrong_type_on(KIND_INT),
            2 => wrong_type_on(KIND_STR),
            3 => wrong_type_on(KIND_BOOL),
            4 => wrong_type_on(KIND_ARR_NULL),
            5 => wrong_type_on(KIND_ARR_STRS),
            6 => wrong_type_on(KIND_ALIAS),
            7 => wrong_type_on(KIND_NULL),
            8 => wrong_type_on(KIND_BAD),
            9 => wrong_type_on(KIND_ARR_EMPTY),
            10 => wrong_type_on(KIND_HASH_EMPTY),
            _ => wrong_type_on(KIND_ARR_HASH_EMPTY),
        }
    }

    // -> accepted?
    fn generic_int(name: &str, i: i64) -> bool {
        let y = Yaml::Integer(i);
        let r = Config::parse_generic(name, &y);
        assert!(matches!(r, Ok((_, Some(_))) | Err(Error::InvalidConfig(_))), "parse_generic: a value or InvalidConfig");
        let ok = r.is_ok();
        std::mem::forget(r);
        ok
    }

    /// VERIF: {"p":"C19","tier":"quick","fns":["dhcp::config::Config::parse_generic","dhcppkt::name_to_option","dhcppkt::DhcpOption::get_type","config::parse_duration","config::parse_boolean"],"bounds":"`apply-<option>: <any i64>` for one option of each numeric type: time-offset (i32), default-ttl (u8), mtu (u16), lease-time (seconds, 32 bit), rebind-time (seconds, 16 bit), forward (bool)","oracle":"accepted exactly when the integer fits the option's wire type (negative / huge values => Err(InvalidConfig)), boolean option refuses integers; never a panic or silent truncation","stubs":["alloc::fmt::format -> empty string (message text only)"],"covers":2,"unwind":90}
    #[kani::proof]
    #[kani::unwind(90)]
    #[kani::stub(alloc::fmt::format, empty_format)]
    fn c19_dhcp_parse_generic_integers() {
        let i: i64 = kani::any();
        let w: u8 = kani::any();
        kani::cover!(w == 3 && i < 0, "negative lease time");
        kani::cover!(w == 1 && i == 64, "ttl 64");
        match w {
            0 => assert!(generic_int("time-offset", i) == (i32::MIN as i64..=i32::MAX as i64).contains(&i), "i32 option"),
            1 => assert!(generic_int("default-ttl", i) == (0..=255).contains(&i), "u8 option"),
            2 => assert!(generic_int("mtu", i) == (0..=65535).contains(&i), "u16 option"),
            3 => assert!(generic_int("lease-time", i) == (0..=u32::MAX as i64).contains(&i), "32-bit seconds option"),
            4 => assert!(generic_int("rebind-time", i) == (0..=65535).contains(&i), "16-bit seconds option"),
            _ => assert!(!generic_int("forward", i), "boolean option refuses integers"),
        }
    }

    // ---- policies with one concrete key ----------------------------------------------------------------
    fn hash1(k: &str, v: Yaml) -> Yaml {
        let mut h = yaml_rust::yaml::Hash::new();
        h.insert(Yaml::String(String::from(k)), v);
        Yaml::Hash(h)
    }

    fn str_of(head: &str, tail: &[u8]) -> String {
        let mut v = Vec::with_capacity(head.len() + tail.len());
        v.extend_from_slice(head.as_bytes());
        v.extend_from_slice(tail);
        String::from(std::str::from_utf8(&v).unwrap())
    }

    /// VERIF: {"p":"C19","tier":"thorough","fns":["dhcp::config::Config::parse_policy (apply-subnet expansion, dhcp/config.rs:478-489)","dhcp::config::Config::parse_subnet","erbium_net::Ipv4Subnet::new"],"bounds":"policy {apply-subnet: S} with S = \"192.0.2.0/3\" + one symbolic ASCII octet assumed to be one of '1','2' or a non-digit (so /31, /32 or refused: expansions that are empty - no HashSet insert), or S = \"0.0.0.0/\" + one symbolic ASCII octet assumed not in '1'..='9' (so /0 or refused)","oracle":"Ok(policy) or Err(InvalidConfig): the host-range arithmetic `1..((1 << (32 - prefixlen)) - 1) - 1` never overflows / panics","stubs":["alloc::fmt::format -> empty string (message text only)","std::hash::RandomState::new -> fixed keys"],"covers":1,"unwind":16}
    #[kani::proof]
    #[kani::unwind(16)]
    #[kani::stub(alloc::fmt::format, empty_format)]
    #[kani::stub(std::hash::RandomState::new, fixed_random_state)]
    fn c19_dhcp_apply_subnet_boundary_lengths() {
        let w: bool = kani::any();
        let c: u8 = kani::any();
        kani::assume(c < 128);
        let ok = if w {
            kani::assume(c == b'1' || c == b'2' || !c.is_ascii_digit());
            apply_subnet_str(str_of("192.0.2.0/3", &[c]))
        } else {
            kani::assume(!(b'1'..=b'9').contains(&c));
            apply_subnet_str(str_of("0.0.0.0/", &[c]))
        };
        kani::cover!(w && c == b'1' && ok, "192.0.2.0/31 accepted (no hosts)");
    }
    fn apply_subnet_str(s: String) -> bool {
        let y = hash1("apply-subnet", Yaml::String(s));
        let r = Config::parse_policy(&y);
        assert!(matches!(r, Ok(_) | Err(Error::InvalidConfig(_))), "parse_policy: a policy or InvalidConfig");
        let ok = r.is_ok();
        std::mem::forget(r);
        std::mem::forget(y);
        ok
    }

    /// VERIF: {"p":"C19","tier":"thorough","fns":["dhcp::config::Config::parse_policy (apply-subnet)","dhcp::config::Config::parse_subnet","erbium_net::Ipv4Subnet::new"],"bounds":"policy {apply-subnet: \"10.0.0.0/\" + two symbolic ASCII octets assumed NOT to spell a number in 07..=30} (so the over-long lengths /33../99, /31, /32, host-bit errors and junk; the lengths whose expansion would fill a HashSet are excluded)","oracle":"Ok(policy) or Err(InvalidConfig), never a panic","stubs":["alloc::fmt::format -> empty string (message text only)","std::hash::RandomState::new -> fixed keys"],"covers":1,"unwind":16}
    #[kani::proof]
    #[kani::unwind(16)]
    #[kani::stub(alloc::fmt::format, empty_format)]
    #[kani::stub(std::hash::RandomState::new, fixed_random_state)]
    fn c19_dhcp_apply_subnet_overlong_lengths() {
        let a: u8 = kani::any();
        let b: u8 = kani::any();
        kani::assume(a < 128 && b < 128);
        if a.is_ascii_digit() && b.is_ascii_digit() {
            let n = (a - b'0') * 10 + (b - b'0');
            kani::assume(n < 7 || n > 30);
        }
        // "+N" is a number too for u8::from_str
        kani::assume(a != b'+');
        let ok = apply_subnet_str(str_of("10.0.0.0/", &[a, b]));
        kani::cover!(a == b'3' && b == b'1' && ok, "10.0.0.0/31 accepted");
    }

    /// VERIF: {"p":"C19","tier":"thorough","fns":["dhcp::config::Config::parse_routes (dhcp/config.rs:109-195)"],"bounds":"`apply-routes`-style list with one entry {prefix: S}: S = \"192.0.2.0\" + every ASCII string of length 0,1,2,3 appended (so no slash at all, \"/\", \"/x\", \"/24\", \"/99\", ...)","oracle":"Ok or Err(InvalidConfig) (an entry without next-hop is always refused), never a panic (`it.next().unwrap().parse().unwrap()`)","stubs":["alloc::fmt::format -> empty string (message text only)","std::hash::RandomState::new -> fixed keys"],"covers":1,"unwind":16}
    #[kani::proof]
    #[kani::unwind(16)]
    #[kani::stub(alloc::fmt::format, empty_format)]
    #[kani::stub(std::hash::RandomState::new, fixed_random_state)]
    fn c19_dhcp_parse_routes_prefix_string() {
        let n: u8 = kani::any();
        kani::cover!(n == 0xA5, "reached");
        match n {
            0 => route_on::<0>(),
            1 => route_on::<1>(),
            2 => route_on::<2>(),
            _ => route_on::<3>(),
        }
    }
    fn route_on<const N: usize>() {
        let y = Yaml::Array(vec![hash1("prefix", Yaml::String(with_tail::<N>("192.0.2.0")))]);
        let r = Config::parse_routes(&y);
        assert!(is_invalid_config(&r), "a route without next-hop is refused with InvalidConfig");
        std::mem::forget(r);
        std::mem::forget(y);
    }
}
