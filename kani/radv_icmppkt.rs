// Kani harnesses for crates/erbium-core/src/radv/icmppkt.rs
//   C05: no ICMPv6 byte string can crash the decoder (`parse` and the ND option decoders it calls).
//   C17: serialiser-only obligations (the end-to-end ones that need the private builder are in radv_mod.rs).
// Skeleton approach: CBMC cannot copy slices of symbolic length, and symbolic execution explores every decoder arm
// whose guard is not decided by constant propagation.  Therefore the ICMP type, every option TYPE octet and every
// option LENGTH octet are concrete per instance (enumerated over boundary values); all other octets are symbolic.
// ---- helpers shared with the C17 harnesses in radv_mod.rs (inherent impls are reachable from there although this
// module is private) ------------------------------------------------------------------------------------------------
// CBMC cannot decide the (niche-encoded) discriminant of an NDOptionValue that is read back from a malloc'd byte
// array: it then explores every arm of the serialiser's `match opt` with garbage operands and never finishes.  Read
// back from a TYPED static array the discriminant is a constant.  `verif_typed` is the stub for
// `<NDOptions as Default>::default` in the C17 harnesses: an empty list with capacity 16 whose buffer is that static
// array; `add_option` (Vec::push within capacity) and the serialiser's iteration are the real code.
#[cfg(kani)]
static mut VERIF_OPT_BUF: [super::NDOptionValue; 16] = [const { super::NDOptionValue::Mtu(0) }; 16];

#[cfg(kani)]
impl super::NDOptions {
    pub fn verif_typed() -> Self {
        super::NDOptions(unsafe { Vec::from_raw_parts(std::ptr::addr_of_mut!(VERIF_OPT_BUF) as *mut super::NDOptionValue, 0, 16) })
    }
}

// The real wire encoder (icmppkt.rs:375-468) is private; `serialise` only dispatches to it.  (Going through
// `serialise(&Icmp6::RtrAdvert(adv))` wraps the advertisement in a second niche-encoded enum, which CBMC cannot see
// through either.)
#[cfg(kani)]
impl super::RtrAdvertisement {
    pub fn verif_serialise(&self) -> Vec<u8> {
        super::serialise_router_advertisement(self)
    }
}

#[cfg(kani)]
mod k {
    use super::super::*;

    const RS: u8 = 133;
    const RA: u8 = 134;
    // option types: 1 source-lladdr, 3 prefix, 5 MTU, 25 RDNSS, 31 DNSSL (no decoder arm), 38 PREF64,
    // 2 unknown to the decoder (every other unknown type: c05_icmp_any_option_type).  37 (captive portal) has its
    // own harnesses below.
    const TYPES: [u8; 7] = [1, 3, 5, 25, 31, 38, 2];

    // Build an N-octet message: ICMP type `ty`, code 0, option headers pinned at their running offsets after a
    // header of `hdr` octets: option i has type octet tys[i] and length octet lens[i].  Every length octet the
    // decoder can read is pinned (checked by the concrete assertion at the end).
    fn skel<const N: usize, const K: usize>(ty: u8, hdr: usize, tys: [u8; K], lens: [u8; K]) -> [u8; N] {
        let mut d: [u8; N] = kani::any();
        if N > 0 {
            d[0] = ty;
        }
        if N > 1 {
            d[1] = 0;
        }
        let mut off = hdr;
        let mut i = 0;
        let mut stopped = false;
        while i < K {
            if off < N {
                d[off] = tys[i];
            }
            if off + 1 < N {
                d[off + 1] = lens[i];
            }
            if lens[i] == 0 || off + lens[i] as usize * 8 > N {
                stopped = true; // decoder must stop here with an error
                break;
            }
            off += lens[i] as usize * 8;
            i += 1;
        }
        // harness sanity (concrete): no unpinned option header can be read
        assert!(stopped || off >= N, "skeleton leaves an unpinned option header");
        d
    }

    // one option with length octet `l` in an N-octet message, for every type in TYPES; returns (#accepted, #rejected)
    fn one_opt<const N: usize>(ty: u8, hdr: usize, l: u8, acc: &mut (u32, u32)) {
        let mut t = 0;
        while t < TYPES.len() {
            let d = skel::<N, 1>(ty, hdr, [TYPES[t]], [l]);
            let r = parse(&d);
            let fits = l != 0 && hdr + 8 * l as usize <= N;
            if !fits {
                assert!(r.is_err(), "zero-length or overrunning option is rejected");
            }
            if let Ok(m) = &r {
                match m {
                    Icmp6::RtrSolicit(o) => assert!(ty == RS && o.0.len() <= 1, "at most the one option decoded"),
                    Icmp6::RtrAdvert(a) => assert!(ty == RA && a.options.0.len() <= 1, "at most the one option decoded"),
                    Icmp6::Unknown => assert!(false, "RS/RA never decode to Unknown with code 0"),
                }
            }
            if r.is_ok() {
                acc.0 += 1;
            } else {
                acc.1 += 1;
            }
            std::mem::forget(r);
            t += 1;
        }
    }

    /// VERIF: {"p":"C05","tier":"quick","fns":["radv::icmppkt::parse","radv::icmppkt::parse_nd_rtr_solicit","radv::icmppkt::parse_nd_rtr_options","pktparser::Buffer::{get_u8,get_be16,get_be32,get_bytes}"],"bounds":"router solicitation (type 133, code 0, checksum/reserved symbolic) + ONE option with length octet 0: option type each of {1,3,5,25,31,38,2}, message length 16 (room for 8 octets) and 10 (option header only); all payload octets symbolic","oracle":"Ok or Err, no panic/overflow/out-of-bounds; zero-length and overrunning options rejected; at most one option decoded","covers":1,"unwind":20}
    #[kani::proof]
    #[kani::unwind(20)]
    fn c05_icmp_rs_opt_len0() {
        let mut acc = (0u32, 0u32);
        if kani::any() {
            one_opt::<16>(RS, 8, 0, &mut acc);
        } else {
            one_opt::<10>(RS, 8, 0, &mut acc);
        }
        kani::cover!(acc.1 > 0, "rejected");
    }

    /// VERIF: {"p":"C05","tier":"quick","fns":["radv::icmppkt::parse","radv::icmppkt::parse_nd_rtr_solicit","radv::icmppkt::parse_nd_rtr_options","pktparser::Buffer::{get_u8,get_be16,get_be32,get_bytes}"],"bounds":"router solicitation (type 133, code 0, checksum/reserved symbolic) + ONE option with length octet 1: option type each of {1,3,5,25,31,38,2}, message length 16 (exact fit) and 15 (one octet short); all payload octets symbolic","oracle":"Ok or Err, no panic/overflow/out-of-bounds; zero-length and overrunning options rejected; at most one option decoded","covers":2,"unwind":20}
    #[kani::proof]
    #[kani::unwind(20)]
    fn c05_icmp_rs_opt_len1() {
        let mut acc = (0u32, 0u32);
        if kani::any() {
            one_opt::<16>(RS, 8, 1, &mut acc);
        } else {
            one_opt::<15>(RS, 8, 1, &mut acc);
        }
        kani::cover!(acc.1 > 0, "rejected");
        kani::cover!(acc.0 > 0, "accepted");
    }

    /// VERIF: {"p":"C05","tier":"quick","fns":["radv::icmppkt::parse","radv::icmppkt::parse_nd_rtr_solicit","radv::icmppkt::parse_nd_rtr_options","pktparser::Buffer::{get_u8,get_be16,get_be32,get_bytes}"],"bounds":"router solicitation (type 133, code 0, checksum/reserved symbolic) + ONE option with length octet 2: option type each of {1,3,5,25,31,38,2}, message length 24 (exact fit) and 23 (one octet short); all payload octets symbolic","oracle":"Ok or Err, no panic/overflow/out-of-bounds; zero-length and overrunning options rejected; at most one option decoded","covers":2,"unwind":20}
    #[kani::proof]
    #[kani::unwind(20)]
    fn c05_icmp_rs_opt_len2() {
        let mut acc = (0u32, 0u32);
        if kani::any() {
            one_opt::<24>(RS, 8, 2, &mut acc);
        } else {
            one_opt::<23>(RS, 8, 2, &mut acc);
        }
        kani::cover!(acc.1 > 0, "rejected");
        kani::cover!(acc.0 > 0, "accepted");
    }

    /// VERIF: {"p":"C05","tier":"quick","fns":["radv::icmppkt::parse","radv::icmppkt::parse_nd_rtr_solicit","radv::icmppkt::parse_nd_rtr_options","pktparser::Buffer::{get_u8,get_be16,get_be32,get_bytes}"],"bounds":"router solicitation (type 133, code 0, checksum/reserved symbolic) + ONE option with length octet 3: option type each of {1,3,5,25,31,38,2}, message length 32 (exact fit) and 31 (one octet short); all payload octets symbolic","oracle":"Ok or Err, no panic/overflow/out-of-bounds; zero-length and overrunning options rejected; at most one option decoded","covers":2,"unwind":20}
    #[kani::proof]
    #[kani::unwind(20)]
    fn c05_icmp_rs_opt_len3() {
        let mut acc = (0u32, 0u32);
        if kani::any() {
            one_opt::<32>(RS, 8, 3, &mut acc);
        } else {
            one_opt::<31>(RS, 8, 3, &mut acc);
        }
        kani::cover!(acc.1 > 0, "rejected");
        kani::cover!(acc.0 > 0, "accepted");
    }

    /// VERIF: {"p":"C05","tier":"quick","fns":["radv::icmppkt::parse","radv::icmppkt::parse_nd_rtr_solicit","radv::icmppkt::parse_nd_rtr_options","pktparser::Buffer::{get_u8,get_be16,get_be32,get_bytes}"],"bounds":"router solicitation (type 133, code 0, checksum/reserved symbolic) + ONE option with length octet 4: option type each of {1,3,5,25,31,38,2}, message length 40 (exact fit) and 39 (one octet short); all payload octets symbolic","oracle":"Ok or Err, no panic/overflow/out-of-bounds; zero-length and overrunning options rejected; at most one option decoded","covers":2,"unwind":20}
    #[kani::proof]
    #[kani::unwind(20)]
    fn c05_icmp_rs_opt_len4() {
        let mut acc = (0u32, 0u32);
        if kani::any() {
            one_opt::<40>(RS, 8, 4, &mut acc);
        } else {
            one_opt::<39>(RS, 8, 4, &mut acc);
        }
        kani::cover!(acc.1 > 0, "rejected");
        kani::cover!(acc.0 > 0, "accepted");
    }

    /// VERIF: {"p":"C05","tier":"quick","fns":["radv::icmppkt::parse","radv::icmppkt::parse_nd_rtr_solicit","radv::icmppkt::parse_nd_rtr_options","pktparser::Buffer::{get_u8,get_be16,get_be32,get_bytes}"],"bounds":"router solicitation (type 133, code 0, checksum/reserved symbolic) + ONE option with length octet 5: option type each of {1,3,5,25,31,38,2}, message length 48 (exact fit) and 47 (one octet short); all payload octets symbolic","oracle":"Ok or Err, no panic/overflow/out-of-bounds; zero-length and overrunning options rejected; at most one option decoded","covers":2,"unwind":20}
    #[kani::proof]
    #[kani::unwind(20)]
    fn c05_icmp_rs_opt_len5() {
        let mut acc = (0u32, 0u32);
        if kani::any() {
            one_opt::<48>(RS, 8, 5, &mut acc);
        } else {
            one_opt::<47>(RS, 8, 5, &mut acc);
        }
        kani::cover!(acc.1 > 0, "rejected");
        kani::cover!(acc.0 > 0, "accepted");
    }

    /// VERIF: {"p":"C05","tier":"quick","fns":["radv::icmppkt::parse","radv::icmppkt::parse_nd_rtr_advert","radv::icmppkt::parse_nd_rtr_options","pktparser::Buffer::{get_u8,get_be16,get_be32,get_bytes}"],"bounds":"router advertisement (type 134, code 0, the 14 other header octets symbolic) + ONE option with length octet 0: option type each of {1,3,5,25,31,38,2}, message length 24 (room for 8 octets) and 18 (option header only); all payload octets symbolic","oracle":"Ok or Err, no panic/overflow/out-of-bounds; zero-length and overrunning options rejected; at most one option decoded","covers":1,"unwind":20}
    #[kani::proof]
    #[kani::unwind(20)]
    fn c05_icmp_ra_opt_len0() {
        let mut acc = (0u32, 0u32);
        if kani::any() {
            one_opt::<24>(RA, 16, 0, &mut acc);
        } else {
            one_opt::<18>(RA, 16, 0, &mut acc);
        }
        kani::cover!(acc.1 > 0, "rejected");
    }

    /// VERIF: {"p":"C05","tier":"quick","fns":["radv::icmppkt::parse","radv::icmppkt::parse_nd_rtr_advert","radv::icmppkt::parse_nd_rtr_options","pktparser::Buffer::{get_u8,get_be16,get_be32,get_bytes}"],"bounds":"router advertisement (type 134, code 0, the 14 other header octets symbolic) + ONE option with length octet 1: option type each of {1,3,5,25,31,38,2}, message length 24 (exact fit) and 23 (one octet short); all payload octets symbolic","oracle":"Ok or Err, no panic/overflow/out-of-bounds; zero-length and overrunning options rejected; at most one option decoded","covers":2,"unwind":20}
    #[kani::proof]
    #[kani::unwind(20)]
    fn c05_icmp_ra_opt_len1() {
        let mut acc = (0u32, 0u32);
        if kani::any() {
            one_opt::<24>(RA, 16, 1, &mut acc);
        } else {
            one_opt::<23>(RA, 16, 1, &mut acc);
        }
        kani::cover!(acc.1 > 0, "rejected");
        kani::cover!(acc.0 > 0, "accepted");
    }

    /// VERIF: {"p":"C05","tier":"quick","fns":["radv::icmppkt::parse","radv::icmppkt::parse_nd_rtr_advert","radv::icmppkt::parse_nd_rtr_options","pktparser::Buffer::{get_u8,get_be16,get_be32,get_bytes}"],"bounds":"router advertisement (type 134, code 0, the 14 other header octets symbolic) + ONE option with length octet 2: option type each of {1,3,5,25,31,38,2}, message length 32 (exact fit) and 31 (one octet short); all payload octets symbolic","oracle":"Ok or Err, no panic/overflow/out-of-bounds; zero-length and overrunning options rejected; at most one option decoded","covers":2,"unwind":20}
    #[kani::proof]
    #[kani::unwind(20)]
    fn c05_icmp_ra_opt_len2() {
        let mut acc = (0u32, 0u32);
        if kani::any() {
            one_opt::<32>(RA, 16, 2, &mut acc);
        } else {
            one_opt::<31>(RA, 16, 2, &mut acc);
        }
        kani::cover!(acc.1 > 0, "rejected");
        kani::cover!(acc.0 > 0, "accepted");
    }

    /// VERIF: {"p":"C05","tier":"quick","fns":["radv::icmppkt::parse","radv::icmppkt::parse_nd_rtr_advert","radv::icmppkt::parse_nd_rtr_options","pktparser::Buffer::{get_u8,get_be16,get_be32,get_bytes}"],"bounds":"router advertisement (type 134, code 0, the 14 other header octets symbolic) + ONE option with length octet 4: option type each of {1,3,5,25,31,38,2}, message length 48 (exact fit) and 47 (one octet short); all payload octets symbolic","oracle":"Ok or Err, no panic/overflow/out-of-bounds; zero-length and overrunning options rejected; at most one option decoded","covers":2,"unwind":20}
    #[kani::proof]
    #[kani::unwind(20)]
    fn c05_icmp_ra_opt_len4() {
        let mut acc = (0u32, 0u32);
        if kani::any() {
            one_opt::<48>(RA, 16, 4, &mut acc);
        } else {
            one_opt::<47>(RA, 16, 4, &mut acc);
        }
        kani::cover!(acc.1 > 0, "rejected");
        kani::cover!(acc.0 > 0, "accepted");
    }

    // two consecutive options (t1,l1),(t2,l2)
    fn two_opts<const N: usize>(ty: u8, hdr: usize, t1: u8, l1: u8, t2: u8, l2: u8, acc: &mut (u32, u32)) {
        let d = skel::<N, 2>(ty, hdr, [t1, t2], [l1, l2]);
        let r = parse(&d);
        let fits = l1 != 0 && l2 != 0 && hdr + 8 * (l1 as usize + l2 as usize) <= N;
        if !fits {
            assert!(r.is_err(), "zero-length or overrunning option is rejected");
        }
        if r.is_ok() {
            acc.0 += 1;
        } else {
            acc.1 += 1;
        }
        std::mem::forget(r);
    }

    /// VERIF: {"p":"C05","tier":"quick","fns":["radv::icmppkt::parse","radv::icmppkt::parse_nd_rtr_solicit","radv::icmppkt::parse_nd_rtr_options"],"bounds":"router solicitation + TWO consecutive well-formed options, (type,length octet) pairs (1,1)+(1,1), (1,1)+(38,2), (38,2)+(5,1), (3,4)+(1,1), (25,3)+(25,3), exactly fitting; payloads symbolic","oracle":"Ok or Err, no panic; option loop terminates","covers":1,"unwind":20}
    #[kani::proof]
    #[kani::unwind(20)]
    fn c05_icmp_rs_two_options_fitting() {
        let mut acc = (0u32, 0u32);
        match kani::any::<u8>() {
            0 => two_opts::<24>(RS, 8, 1, 1, 1, 1, &mut acc),
            1 => two_opts::<32>(RS, 8, 1, 1, 38, 2, &mut acc),
            2 => two_opts::<32>(RS, 8, 38, 2, 5, 1, &mut acc),
            3 => two_opts::<48>(RS, 8, 3, 4, 1, 1, &mut acc),
            _ => two_opts::<56>(RS, 8, 25, 3, 25, 3, &mut acc),
        }
        kani::cover!(acc.0 > 0, "accepted");
    }

    /// VERIF: {"p":"C05","tier":"quick","fns":["radv::icmppkt::parse","radv::icmppkt::parse_nd_rtr_solicit","radv::icmppkt::parse_nd_rtr_options"],"bounds":"router solicitation + a well-formed option followed by a malformed one: second option one octet short ((1,1)+(5,1) in 23, (1,1)+(3,4) in 47), second option length 0 ((1,1)+(1,0), (2,2)+(5,0)), trailing garbage of 7 and of 1 octet after a valid option ((1,1)+(2,1) in 23 and 17), second option declaring 255 units in an 18-octet message; payloads symbolic","oracle":"always Err (zero-length/overrunning second option rejected), never a panic","covers":1,"unwind":20}
    #[kani::proof]
    #[kani::unwind(20)]
    fn c05_icmp_rs_two_options_malformed() {
        let mut acc = (0u32, 0u32);
        match kani::any::<u8>() {
            0 => two_opts::<23>(RS, 8, 1, 1, 5, 1, &mut acc),
            1 => two_opts::<47>(RS, 8, 1, 1, 3, 4, &mut acc),
            2 => two_opts::<24>(RS, 8, 1, 1, 1, 0, &mut acc),
            3 => two_opts::<32>(RS, 8, 2, 2, 5, 0, &mut acc),
            4 => two_opts::<23>(RS, 8, 1, 1, 2, 1, &mut acc),
            5 => two_opts::<17>(RS, 8, 1, 1, 2, 1, &mut acc),
            _ => two_opts::<18>(RS, 8, 5, 1, 25, 255, &mut acc),
        }
        assert!(acc.0 == 0, "malformed second option never accepted");
        kani::cover!(acc.1 > 0, "rejected");
    }

    /// VERIF: {"p":"C05","tier":"quick","fns":["radv::icmppkt::parse","radv::icmppkt::parse_nd_rtr_advert","radv::icmppkt::parse_nd_rtr_options"],"bounds":"router advertisement + TWO consecutive options: (5,1)+(1,1), (5,1)+(3,4), (25,3)+(5,1) fitting; (3,4)+(5,1) one octet short, (1,1)+(25,1) with 7 octets only, (1,1)+(3,0); payloads and RA header symbolic","oracle":"Ok or Err, no panic; zero-length/overrunning second option rejected","covers":2,"unwind":20}
    #[kani::proof]
    #[kani::unwind(20)]
    fn c05_icmp_ra_two_options() {
        let mut acc = (0u32, 0u32);
        match kani::any::<u8>() {
            0 => two_opts::<32>(RA, 16, 5, 1, 1, 1, &mut acc),
            1 => two_opts::<56>(RA, 16, 5, 1, 3, 4, &mut acc),
            2 => two_opts::<55>(RA, 16, 3, 4, 5, 1, &mut acc),
            3 => two_opts::<48>(RA, 16, 25, 3, 5, 1, &mut acc),
            4 => two_opts::<31>(RA, 16, 1, 1, 25, 1, &mut acc),
            _ => two_opts::<32>(RA, 16, 1, 1, 3, 0, &mut acc),
        }
        kani::cover!(acc.0 > 0, "accepted");
        kani::cover!(acc.1 > 0, "rejected");
    }

    // Option type octet fully symbolic (all 256 values); to keep the captive-portal arm's payload-dependent copy
    // length concrete the payload is all zero here (known types get symbolic payloads in the harnesses above).
    fn any_type_zero_payload<const N: usize>(ty: u8, hdr: usize, l: u8) -> bool {
        let mut d = [0u8; N];
        d[0] = ty;
        d[2] = kani::any();
        d[3] = kani::any();
        d[hdr] = kani::any();
        d[hdr + 1] = l;
        let r = parse(&d);
        let ok = r.is_ok();
        std::mem::forget(r);
        ok
    }

    /// VERIF: {"p":"C05","tier":"quick","fns":["radv::icmppkt::parse","radv::icmppkt::parse_nd_rtr_options"],"bounds":"RS/RA + one exactly fitting option whose TYPE octet is fully symbolic (all 256 values, i.e. every unknown type), length octet in {1,2,4}, payload all zero","oracle":"Ok or Err, never a panic","covers":2,"unwind":36}
    #[kani::proof]
    #[kani::unwind(36)]
    fn c05_icmp_any_option_type() {
        let ok = match kani::any::<u8>() {
            0 => any_type_zero_payload::<16>(RS, 8, 1),
            1 => any_type_zero_payload::<24>(RS, 8, 2),
            2 => any_type_zero_payload::<40>(RS, 8, 4),
            3 => any_type_zero_payload::<24>(RA, 16, 1),
            _ => any_type_zero_payload::<32>(RA, 16, 2),
        };
        kani::cover!(ok, "accepted");
        kani::cover!(!ok, "rejected (wrong size for a fixed-size option)");
    }

    // Messages too short to hold any option length octet: N <= hdr + 1.  ICMP type pinned, everything else symbolic.
    fn hdr_only<const N: usize>(ty: u8, hdr: usize) -> bool {
        let mut d: [u8; N] = kani::any();
        if N > 0 {
            d[0] = ty;
        }
        if N > 1 {
            d[1] = 0;
        }
        let r = parse(&d);
        if N < hdr || N == hdr + 1 {
            assert!(r.is_err(), "truncated header / truncated option header rejected");
        } else {
            assert!(r.is_ok(), "bare header accepted");
        }
        let ok = r.is_ok();
        std::mem::forget(r);
        ok
    }

    /// VERIF: {"p":"C05","tier":"quick","fns":["radv::icmppkt::parse","radv::icmppkt::parse_nd_rtr_solicit","radv::icmppkt::parse_nd_rtr_advert","radv::icmppkt::parse_nd_rtr_options"],"bounds":"every truncation point of the RS header (0..=7 octets: any content incl. any type), bare RS (8), RS + 1 octet (9); every truncation point of the RA header (8,9,10,11,12,15), bare RA (16), RA + 1 octet (17); all octets except type/code symbolic","oracle":"truncated -> Err, bare header -> Ok, never a panic","covers":2,"unwind":20}
    #[kani::proof]
    #[kani::unwind(20)]
    fn c05_icmp_header_truncations() {
        let ok = match kani::any::<u8>() {
            0 => hdr_only::<0>(kani::any(), 8),
            1 => hdr_only::<1>(kani::any(), 8),
            2 => hdr_only::<2>(kani::any(), 8),
            3 => hdr_only::<3>(kani::any(), 8),
            4 => hdr_only::<4>(kani::any(), 8),
            5 => hdr_only::<7>(kani::any(), 8),
            6 => hdr_only::<8>(RS, 8),
            7 => hdr_only::<9>(RS, 8),
            8 => hdr_only::<8>(RA, 16),
            9 => hdr_only::<9>(RA, 16),
            10 => hdr_only::<10>(RA, 16),
            11 => hdr_only::<11>(RA, 16),
            12 => hdr_only::<12>(RA, 16),
            13 => hdr_only::<15>(RA, 16),
            14 => hdr_only::<16>(RA, 16),
            _ => hdr_only::<17>(RA, 16),
        };
        kani::cover!(ok, "accepted");
        kani::cover!(!ok, "rejected");
    }

    // Other ICMPv6 messages: type pinned, code pinned or symbolic, rest symbolic - nothing after octet 3 is read.
    fn other<const N: usize>(ty: u8, code: u8) {
        let mut d: [u8; N] = kani::any();
        d[0] = ty;
        d[1] = code;
        let r = parse(&d);
        assert!(matches!(r, Ok(Icmp6::Unknown)), "other ICMPv6 messages are ignored, not errors");
        std::mem::forget(r);
    }

    /// VERIF: {"p":"C05","tier":"quick","fns":["radv::icmppkt::parse"],"bounds":"messages of 8, 24 and 64 octets with ICMP type in {0,1,2,128,129,132,135,136,137,138,255} and symbolic code, and RS/RA (133/134) with code 1 and 255; all other octets symbolic","oracle":"returns Ok(Unknown); never panics","covers":1,"unwind":20}
    #[kani::proof]
    #[kani::unwind(20)]
    fn c05_icmp_other_types() {
        const T: [u8; 11] = [0, 1, 2, 128, 129, 132, 135, 136, 137, 138, 255];
        let mut i = 0;
        while i < T.len() {
            other::<8>(T[i], kani::any());
            other::<24>(T[i], kani::any());
            other::<64>(T[i], kani::any());
            i += 1;
        }
        other::<8>(RS, 1);
        other::<24>(RS, 255);
        other::<24>(RA, 1);
        other::<64>(RA, 255);
        kani::cover!(true, "reached");
    }

    // Captive-portal option (type 37): the decoder strips trailing NULs and copies the rest, so the copy length
    // depends on the payload.  P = number of octets kept (concrete per instance): octets >= P are 0, octet P-1 is a
    // pinned non-zero value `last`, octets < P are symbolic (any value: NUL, ASCII, invalid UTF-8).
    fn portal<const N: usize>(ty: u8, hdr: usize, l: u8, p: usize, last: u8) -> bool {
        let mut d = skel::<N, 1>(ty, hdr, [37], [l]);
        let start = hdr + 2;
        let end = hdr + 8 * l as usize;
        let mut i = start;
        while i < end && i < N {
            if i - start >= p {
                d[i] = 0;
            } else if i - start == p - 1 {
                d[i] = last;
            }
            i += 1;
        }
        let r = parse(&d);
        match &r {
            Ok(Icmp6::RtrSolicit(o)) => match &o.0[0] {
                NDOptionValue::CaptivePortal(s) => assert!(s.len() == p, "URL = payload without trailing NUL padding"),
                _ => assert!(false, "type 37 decodes to CaptivePortal"),
            },
            Ok(Icmp6::RtrAdvert(a)) => match &a.options.0[0] {
                NDOptionValue::CaptivePortal(s) => assert!(s.len() == p, "URL = payload without trailing NUL padding"),
                _ => assert!(false, "type 37 decodes to CaptivePortal"),
            },
            Ok(Icmp6::Unknown) => assert!(false, "not unknown"),
            Err(_) => {}
        }
        let ok = r.is_ok();
        std::mem::forget(r);
        ok
    }

    /// VERIF: {"p":"C05","tier":"quick","fns":["radv::icmppkt::parse","radv::icmppkt::parse_nd_rtr_options (CAPTIVE_PORTAL arm)","alloc::string::String::from_utf8"],"bounds":"RS + one captive-portal option (type 37), length octet 1 (6 payload octets): kept length P=6 with the last octet pinned to '/' and P=5 with the last kept octet pinned to 0xc3 (a truncated 2-octet UTF-8 sequence) followed by NUL; the P-1 octets before it symbolic (any byte values, valid or invalid UTF-8)","oracle":"Ok with a URL of exactly P octets, or Err(InvalidEncoding); never a panic or out-of-bounds slice","covers":2,"unwind":20}
    #[kani::proof]
    #[kani::unwind(20)]
    fn c05_icmp_captive_portal_text() {
        let ok = if kani::any() { portal::<16>(RS, 8, 1, 6, b'/') } else { portal::<16>(RS, 8, 1, 5, 0xc3) };
        kani::cover!(ok, "url decoded");
        kani::cover!(!ok, "rejected (invalid UTF-8)");
    }

    /// VERIF: {"p":"C05","tier":"quick","fns":["radv::icmppkt::parse","radv::icmppkt::parse_nd_rtr_options (CAPTIVE_PORTAL arm)","alloc::string::String::from_utf8"],"bounds":"RS or RA + one captive-portal option, length octet 1: kept length P=2 with last octet 0xff (never valid UTF-8) after one symbolic octet (RS), P=1 with the single octet 0x80 (stray continuation) (RA)","oracle":"Err(InvalidEncoding); never a panic","covers":1,"unwind":20}
    #[kani::proof]
    #[kani::unwind(20)]
    fn c05_icmp_captive_portal_invalid_utf8() {
        let ok = if kani::any() { portal::<16>(RS, 8, 1, 2, 0xff) } else { portal::<24>(RA, 16, 1, 1, 0x80) };
        assert!(!ok, "invalid UTF-8 is reported as an error");
        kani::cover!(!ok, "rejected (invalid UTF-8)");
    }

    /// VERIF: {"p":"C05","tier":"quick","fns":["radv::icmppkt::parse","radv::icmppkt::parse_nd_rtr_options (CAPTIVE_PORTAL arm)"],"bounds":"captive-portal option (type 37) whose payload is all NUL (empty URL; rposition finds nothing) with length octet 1 (RS, RA) and 2 (RS), the option one octet short (RS, 15 and 23 octets), length octet 3 overrunning a 24-octet message, length octet 255 in a 24-octet message","oracle":"all-NUL payload decodes to the empty URL, truncated/overrunning options are errors; never a panic (unwrap_or(0) slice)","covers":2,"unwind":20}
    #[kani::proof]
    #[kani::unwind(20)]
    fn c05_icmp_captive_portal_empty_and_truncated() {
        let ok = match kani::any::<u8>() {
            0 => portal::<16>(RS, 8, 1, 0, 0),
            1 => portal::<24>(RA, 16, 1, 0, 0),
            2 => portal::<24>(RS, 8, 2, 0, 0),
            3 => portal::<15>(RS, 8, 1, 0, 0),
            4 => portal::<23>(RS, 8, 2, 0, 0),
            5 => portal::<24>(RS, 8, 3, 0, 0),
            _ => portal::<24>(RS, 8, 255, 0, 0),
        };
        kani::cover!(ok, "empty url decoded");
        kani::cover!(!ok, "rejected (truncated)");
    }

    /// VERIF: {"p":"C05","tier":"experimental","fns":["radv::icmppkt::parse","radv::icmppkt::parse_nd_rtr_options (CAPTIVE_PORTAL arm)","alloc::string::String::from_utf8"],"bounds":"RS + one captive-portal option with length octet 2 (14 payload octets), kept length P=14, last octet pinned to '/', the 13 octets before it symbolic","oracle":"Ok with a URL of exactly 14 octets, or Err(InvalidEncoding); never a panic","covers":2,"unwind":36}
    #[kani::proof]
    #[kani::unwind(36)]
    fn c05_icmp_captive_portal_len2() {
        let ok = portal::<24>(RS, 8, 2, 14, b'/');
        kani::cover!(ok, "url decoded");
        kani::cover!(!ok, "rejected (invalid UTF-8)");
    }

    // Largest option length octet (255 -> 2040 octets) - exact fit, so the option is really decoded.
    fn big<const N: usize>(hdr_ty: u8, hdr: usize, oty: u8) -> bool {
        let d = skel::<N, 1>(hdr_ty, hdr, [oty], [255]);
        let r = parse(&d);
        if hdr + 2040 > N {
            assert!(r.is_err(), "overrunning option rejected");
        }
        if let Ok(Icmp6::RtrSolicit(o)) = &r {
            match &o.0[0] {
                NDOptionValue::SourceLLAddr(v) => assert!(v.len() == 2038, "whole payload kept"),
                NDOptionValue::RecursiveDnsServers((_, s)) => assert!(s.len() == 127, "(2040-8)/16 servers"),
                _ => {}
            }
        }
        let ok = r.is_ok();
        std::mem::forget(r);
        ok
    }

    /// VERIF: {"p":"C05","tier":"quick","fns":["radv::icmppkt::parse","radv::icmppkt::parse_nd_rtr_options"],"bounds":"RS and RA + one option with the maximum length octet 255 (declares 2040 octets) in a 48-octet message, option type each of {1,3,5,25,31,38,2}; payload symbolic","oracle":"Err (overrunning option rejected before any copy); no overflow in l * 8 - 2","covers":1,"unwind":20}
    #[kani::proof]
    #[kani::unwind(20)]
    fn c05_icmp_option_len255_overrun() {
        let mut acc = (0u32, 0u32);
        if kani::any() {
            one_opt::<48>(RS, 8, 255, &mut acc);
        } else {
            one_opt::<48>(RA, 16, 255, &mut acc);
        }
        assert!(acc.0 == 0, "never accepted");
        kani::cover!(acc.1 > 0, "rejected");
    }

    /// VERIF: {"p":"C05","tier":"experimental","fns":["radv::icmppkt::parse","radv::icmppkt::parse_nd_rtr_options"],"bounds":"RS + one option with the maximum length octet 255 (2040 octets) in an exactly fitting 2048-octet message: type 1 (source-lladdr: 2038-octet copy) or 3 (prefix: wrong size); payload symbolic","oracle":"Ok or Err, no panic; wrong-size prefix option is an error not a crash","covers":2,"unwind":20}
    #[kani::proof]
    #[kani::unwind(20)]
    fn c05_icmp_option_len255() {
        let ok = if kani::any() { big::<2048>(RS, 8, 1) } else { big::<2048>(RS, 8, 3) };
        kani::cover!(ok, "accepted");
        kani::cover!(!ok, "rejected");
    }

    /// VERIF: {"p":"C05","tier":"experimental","fns":["radv::icmppkt::parse","radv::icmppkt::parse_nd_rtr_options (RDNSS arm)"],"bounds":"RS + one RDNSS option (type 25) with the maximum length octet 255 = 127 server addresses, exact fit (2048 octets), payload symbolic","oracle":"Ok with 127 servers; no panic","covers":1,"unwind":132}
    #[kani::proof]
    #[kani::unwind(132)]
    fn c05_icmp_rdnss_len255() {
        let d = skel::<2048, 1>(RS, 8, [25], [255]);
        let r = parse(&d);
        match &r {
            Ok(Icmp6::RtrSolicit(o)) => match &o.0[0] {
                NDOptionValue::RecursiveDnsServers((_, s)) => {
                    assert!(s.len() == 127, "(2040-8)/16 servers");
                    kani::cover!(true, "decoded");
                }
                _ => assert!(false, "RDNSS"),
            },
            _ => assert!(false, "well-formed RDNSS accepted"),
        }
        std::mem::forget(r);
    }
}
