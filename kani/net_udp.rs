// harnesses for this module (included by the isomer_erbium_verif hook)
#[cfg(kani)]
mod k {
    use super::super::*;
    /// VERIF: {"p":"C07","tier":"quick","fns":["udp::std_to_libc_in_addr"],"bounds":"all 2^32 IPv4 addresses","oracle":"s_addr in network byte order (duplicate of socket::std_to_libc_in_addr exported by erbium-net)","covers":1}
    #[kani::proof]
    fn c07_udp_in_addr_network_order() {
        let a: u32 = kani::any();
        let ip = net::Ipv4Addr::from(a);
        let got = std_to_libc_in_addr(ip);
        kani::cover!(ip.octets()[0] != ip.octets()[3], "asymmetric address");
        assert!(got.s_addr.to_ne_bytes() == ip.octets(), "udp: s_addr bytes == octets");
    }
}
