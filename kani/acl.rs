// Kani harnesses for crates/erbium-core/src/acl.rs (C08: first match wins).
#[cfg(kani)]
mod k {
    use super::super::*;
    use std::net::{IpAddr, Ipv4Addr, Ipv6Addr};

    fn mask4(len: u8) -> u32 {
        if len == 0 { 0 } else { u32::MAX << (32 - len as u32) }
    }
    fn mask6(len: u8) -> u128 {
        if len == 0 { 0 } else { u128::MAX << (128 - len as u32) }
    }

    // reference prefix containment, written from the manual: "matches every address inside the written
    // prefix, including IPv4 clients seen as IPv4-mapped IPv6 addresses"
    #[derive(Clone, Copy)]
    enum P {
        V4(u32, u8),
        V6(u128, u8),
    }
    #[derive(Clone, Copy)]
    enum C {
        V4(u32),
        V6(u128),
        Unix,
    }
    fn ref_contains(p: P, c: C) -> bool {
        match (p, c) {
            (P::V4(w, l), C::V4(ip)) => ip & mask4(l) == w & mask4(l),
            (P::V6(w, l), C::V6(ip)) => ip & mask6(l) == w & mask6(l),
            (P::V4(w, l), C::V6(ip)) => (ip >> 32) == 0xffff && (ip as u32) & mask4(l) == w & mask4(l),
            (P::V6(w, l), C::V4(ip)) => {
                let m = (0xffffu128 << 32) | ip as u128;
                l >= 96 && (w >> 32) == 0xffff && m & mask6(l) == w & mask6(l)
            }
            (_, C::Unix) => false,
        }
    }
    fn any_p4() -> P {
        let l: u8 = kani::any();
        kani::assume(l <= 32);
        P::V4(kani::any(), l)
    }
    fn any_p6() -> P {
        let l: u8 = kani::any();
        kani::assume(l <= 128);
        P::V6(kani::any(), l)
    }
    fn mk_prefix(p: P) -> Prefix {
        match p {
            P::V4(w, l) => Prefix::new(IpAddr::V4(Ipv4Addr::from(w)), l),
            P::V6(w, l) => Prefix::new(IpAddr::V6(Ipv6Addr::from(w)), l),
        }
    }
    fn mk_client(c: C) -> Attributes {
        let port: u16 = kani::any();
        match c {
            C::V4(ip) => Attributes { addr: Ipv4Addr::from(ip).with_port(port) },
            C::V6(ip) => Attributes { addr: Ipv6Addr::from(ip).with_port(port) },
            C::Unix => {
                let u = erbium_net::addr::UnixAddr::new("/x").unwrap();
                use erbium_net::addr::ToNetAddr as _;
                Attributes { addr: u.to_net_addr() }
            }
        }
    }

    #[derive(Clone, Copy)]
    struct Perm(bool, bool, bool, bool); // dns, http, metrics, leases
    fn any_perm() -> Perm {
        Perm(kani::any(), kani::any(), kani::any(), kani::any())
    }
    fn mk_perm(p: Perm) -> Permission {
        Permission { allow_dns_recursion: p.0, allow_http: p.1, allow_http_metrics: p.2, allow_http_leases: p.3 }
    }
    fn any_op() -> (PermissionType, u8) {
        let o: u8 = kani::any();
        kani::assume(o < 4);
        (
            match o {
                0 => PermissionType::DnsRecursion,
                1 => PermissionType::Http,
                2 => PermissionType::HttpMetrics,
                _ => PermissionType::HttpLeases,
            },
            o,
        )
    }
    fn bit(p: Perm, o: u8) -> bool {
        match o {
            0 => p.0,
            1 => p.1,
            2 => p.2,
            _ => p.3,
        }
    }

    // reference rule: (subnet list absent or any prefix contains) AND (unix absent or is_unix == flag)
    struct R<const N: usize> {
        subnet: Option<[P; N]>,
        unix: Option<bool>,
        perm: Perm,
    }
    fn ref_rule_matches<const N: usize>(r: &R<N>, c: C) -> bool {
        let s = match &r.subnet {
            None => true,
            Some(ps) => {
                let mut any = false;
                let mut i = 0;
                while i < N {
                    any = any || ref_contains(ps[i], c);
                    i += 1;
                }
                any
            }
        };
        let u = match r.unix {
            None => true,
            Some(b) => matches!(c, C::Unix) == b,
        };
        s && u
    }
    fn mk_rule<const N: usize>(r: &R<N>) -> Acl {
        Acl {
            subnet: r.subnet.map(|ps| {
                let mut v = Vec::with_capacity(N);
                let mut i = 0;
                while i < N {
                    v.push(mk_prefix(ps[i]));
                    i += 1;
                }
                v
            }),
            unix: r.unix,
            permission: mk_perm(r.perm),
        }
    }
    // decision expected from the first matching rule
    fn expect(first: Option<Perm>, o: u8, got: &Result<(), AclError>) {
        match first {
            None => assert!(matches!(got, Err(AclError::NotAuthenticated)), "no rule matches => NotAuthenticated"),
            Some(p) => {
                if bit(p, o) {
                    assert!(got.is_ok(), "first matching rule grants the permission => allowed");
                } else {
                    assert!(matches!(got, Err(AclError::NotAuthorised(_))), "first matching rule lacks the permission => NotAuthorised (later rules are not consulted)");
                }
            }
        }
    }

    /// VERIF: {"p":"C08","tier":"quick","fns":["acl::require_permission","acl::check_authenticated","acl::Acl::check","acl::check_subnet","config::Prefix::contains"],"bounds":"3 rules, each with one IPv4 subnet of symbolic address/length (host bits free), no unix condition, 4 symbolic permission bits; symbolic IPv4 client (any address, any port); all 4 operations","oracle":"granted <=> the FIRST rule whose subnet contains the client has the permission bit; no matching rule => NotAuthenticated; reference containment = mask semantics on the written prefix","covers":4,"unwind":5}
    #[kani::proof]
    #[kani::unwind(5)]
    fn c08_acl_first_match_3rules_v4() {
        let rs: [R<1>; 3] = [
            R { subnet: Some([any_p4()]), unix: None, perm: any_perm() },
            R { subnet: Some([any_p4()]), unix: None, perm: any_perm() },
            R { subnet: Some([any_p4()]), unix: None, perm: any_perm() },
        ];
        let c = C::V4(kani::any());
        let acls = vec![mk_rule(&rs[0]), mk_rule(&rs[1]), mk_rule(&rs[2])];
        let attr = mk_client(c);
        let (op, o) = any_op();
        let got = require_permission(&acls, &attr, op);
        let m = [ref_rule_matches(&rs[0], c), ref_rule_matches(&rs[1], c), ref_rule_matches(&rs[2], c)];
        let first = if m[0] { Some(rs[0].perm) } else if m[1] { Some(rs[1].perm) } else if m[2] { Some(rs[2].perm) } else { None };
        kani::cover!(m[0] && m[1] && !bit(rs[0].perm, o) && bit(rs[1].perm, o), "first match denies although a later rule would allow");
        kani::cover!(!m[0] && !m[1] && m[2] && bit(rs[2].perm, o), "third rule decides");
        kani::cover!(!m[0] && !m[1] && !m[2], "no rule matches");
        kani::cover!(!m[0] && m[1] && bit(rs[1].perm, o) && !bit(rs[2].perm, o), "second rule allows");
        expect(first, o, &got);
        std::mem::forget(got);
        std::mem::forget(acls);
    }

    /// VERIF: {"p":"C08","tier":"quick","fns":["acl::require_permission","acl::Acl::check","acl::check_subnet","config::Prefix::contains (v4/v6/mapped)"],"bounds":"2 rules: {no subnet list, unix flag symbolic (absent/true/false)} then {subnet list [IPv4 prefix, IPv6 prefix], unix flag symbolic}; client symbolic IPv4 or IPv6 (incl. v4-mapped); symbolic permission bits and operation","oracle":"first-match semantics with AND of the two condition kinds and ANY over the subnet list","covers":4,"unwind":5}
    #[kani::proof]
    #[kani::unwind(5)]
    fn c08_acl_first_match_mixed_conditions() {
        fn any_unix() -> Option<bool> {
            if kani::any() { Some(kani::any()) } else { None }
        }
        let r0: R<2> = R { subnet: None, unix: any_unix(), perm: any_perm() };
        let r1: R<2> = R { subnet: Some([any_p4(), any_p6()]), unix: any_unix(), perm: any_perm() };
        let c = if kani::any() { C::V4(kani::any()) } else { C::V6(kani::any()) };
        let acls = vec![mk_rule(&r0), mk_rule(&r1)];
        let attr = mk_client(c);
        let (op, o) = any_op();
        let got = require_permission(&acls, &attr, op);
        let (m0, m1) = (ref_rule_matches(&r0, c), ref_rule_matches(&r1, c));
        let first = if m0 { Some(r0.perm) } else if m1 { Some(r1.perm) } else { None };
        kani::cover!(!m0 && m1 && matches!(c, C::V6(_)) && bit(r1.perm, o), "v6 client granted by second rule");
        kani::cover!(!m0 && m1 && matches!(c, C::V6(x) if (x >> 32) == 0xffff), "v4-mapped client matches the v4 prefix");
        kani::cover!(m0 && r0.unix == Some(false), "unix: false matches a network client");
        kani::cover!(!m0 && !m1, "unauthenticated");
        expect(first, o, &got);
        std::mem::forget(got);
        std::mem::forget(acls);
    }

    /// VERIF: {"p":"C08","tier":"quick","fns":["acl::require_permission","acl::Acl::check","acl::check_subnet"],"bounds":"unix-socket client against 3 rules: {one symbolic IPv4 subnet}, {no conditions at all... unix flag symbolic}, {unix: true}; symbolic permission bits and operation","oracle":"a unix client is inside no subnet; unix flag compared exactly; first match decides","covers":3,"unwind":5}
    #[kani::proof]
    #[kani::unwind(5)]
    fn c08_acl_first_match_unix_client() {
        let u: Option<bool> = if kani::any() { Some(kani::any()) } else { None };
        let r0: R<1> = R { subnet: Some([any_p4()]), unix: None, perm: any_perm() };
        let r1: R<1> = R { subnet: None, unix: u, perm: any_perm() };
        let r2: R<1> = R { subnet: None, unix: Some(true), perm: any_perm() };
        let c = C::Unix;
        let acls = vec![mk_rule(&r0), mk_rule(&r1), mk_rule(&r2)];
        let attr = mk_client(c);
        let (op, o) = any_op();
        let got = require_permission(&acls, &attr, op);
        let (m0, m1, m2) = (ref_rule_matches(&r0, c), ref_rule_matches(&r1, c), ref_rule_matches(&r2, c));
        assert!(!m0 && m2, "reference sanity");
        let first = if m1 { Some(r1.perm) } else { Some(r2.perm) };
        kani::cover!(m1 && u.is_none(), "condition-less rule matches everyone");
        kani::cover!(!m1 && bit(r2.perm, o), "unix rule grants");
        kani::cover!(!m1 && !bit(r2.perm, o), "unix rule denies");
        expect(first, o, &got);
        std::mem::forget(got);
        std::mem::forget(acls);
    }

    /// VERIF: {"p":"C08","tier":"quick","fns":["acl::require_permission","acl::check_authenticated"],"bounds":"empty rule list, symbolic IPv4/IPv6 client, all 4 operations","oracle":"NotAuthenticated","covers":1,"unwind":3}
    #[kani::proof]
    #[kani::unwind(3)]
    fn c08_acl_empty_list_refuses() {
        let c = if kani::any() { C::V4(kani::any()) } else { C::V6(kani::any()) };
        let acls: Vec<Acl> = Vec::new();
        let attr = mk_client(c);
        let (op, _o) = any_op();
        let got = require_permission(&acls, &attr, op);
        kani::cover!(true, "reached");
        assert!(matches!(got, Err(AclError::NotAuthenticated)), "empty ACL list refuses everyone");
    }

    /// VERIF: {"p":"C08","tier":"quick","fns":["acl::default_acls","acl::require_permission"],"bounds":"default ACLs derived from one symbolic `addresses` IPv4 prefix (host bits free); symbolic IPv4 client; all 4 operations","oracle":"granted <=> client inside the configured prefix or inside 127.0.0.0/8","covers":3,"unwind":5}
    #[kani::proof]
    #[kani::unwind(5)]
    fn c08_default_acls_v4() {
        let p = any_p4();
        let acls = default_acls(&[mk_prefix(p)]);
        let ip: u32 = kani::any();
        let c = C::V4(ip);
        let attr = mk_client(c);
        let (op, _o) = any_op();
        let got = require_permission(&acls, &attr, op);
        let want = ref_contains(p, c) || (ip >> 24) == 127;
        kani::cover!(ref_contains(p, c) && (ip >> 24) != 127, "inside the configured prefix");
        kani::cover!(!ref_contains(p, c) && (ip >> 24) == 127, "loopback");
        kani::cover!(!want, "outsider");
        if want {
            assert!(got.is_ok(), "addresses/localhost clients are granted every operation");
        } else {
            assert!(matches!(got, Err(AclError::NotAuthenticated)), "outsiders are refused");
        }
        std::mem::forget(got);
        std::mem::forget(acls);
    }

    /// VERIF: {"p":"C08","tier":"quick","fns":["acl::default_acls","acl::require_permission"],"bounds":"default ACLs from one symbolic IPv4 prefix; unix-socket client; all 4 operations","oracle":"unix clients get the three HTTP permissions but not DNS recursion","covers":2,"unwind":5}
    #[kani::proof]
    #[kani::unwind(5)]
    fn c08_default_acls_unix() {
        let p = any_p4();
        let acls = default_acls(&[mk_prefix(p)]);
        let attr = mk_client(C::Unix);
        let (op, o) = any_op();
        let got = require_permission(&acls, &attr, op);
        kani::cover!(o == 0, "dns");
        kani::cover!(o == 3, "leases");
        if o == 0 {
            assert!(matches!(got, Err(AclError::NotAuthorised(_))), "unix socket clients may not recurse");
        } else {
            assert!(got.is_ok(), "unix socket clients may use the HTTP API");
        }
        std::mem::forget(got);
        std::mem::forget(acls);
    }

    // ---- subnet list PRESENT BUT EMPTY (`match-subnets: []` -> parse_array -> Some(vec![])) -------------
    // Manual / first-match semantics: "any of the listed subnets contains the client"; an empty list lists
    // nobody, so such a rule matches no client and must not shadow the rules after it.  The reference
    // (ref_rule_matches on R<0> with Some([])) evaluates the ANY over zero prefixes = false.

    fn any_unix_cond() -> Option<bool> {
        if kani::any() { Some(kani::any()) } else { None }
    }

    /// VERIF: {"p":"C08","tier":"quick","fns":["acl::require_permission","acl::check_authenticated","acl::Acl::check","acl::check_subnet"],"bounds":"3 rules: {subnet list present but EMPTY, unix flag symbolic (absent/true/false)}, {one symbolic IPv4 prefix (host bits free), unix flag symbolic}, {subnet list present but EMPTY, no unix flag}; 4 symbolic permission bits per rule; client symbolic IPv4 or IPv6 (incl. v4-mapped), any port; all 4 operations","oracle":"a rule whose subnet list is empty matches nobody (ANY over zero prefixes) whatever its unix flag says, so the decision is that of the second rule alone: its permission bit if it matches, else NotAuthenticated; the empty-list rule in front never shadows it","covers":4,"unwind":5}
    #[kani::proof]
    #[kani::unwind(5)]
    fn c08_acl_empty_subnet_list_matches_nobody() {
        let r0: R<0> = R { subnet: Some([]), unix: any_unix_cond(), perm: any_perm() };
        let r1: R<1> = R { subnet: Some([any_p4()]), unix: any_unix_cond(), perm: any_perm() };
        let r2: R<0> = R { subnet: Some([]), unix: None, perm: any_perm() };
        let c = if kani::any() { C::V4(kani::any()) } else { C::V6(kani::any()) };
        let acls = vec![mk_rule(&r0), mk_rule(&r1), mk_rule(&r2)];
        assert!(matches!(&acls[0].subnet, Some(v) if v.is_empty()), "harness sanity: list present and empty");
        let attr = mk_client(c);
        let (op, o) = any_op();
        let got = require_permission(&acls, &attr, op);
        let (m0, m1, m2) = (ref_rule_matches(&r0, c), ref_rule_matches(&r1, c), ref_rule_matches(&r2, c));
        assert!(!m0 && !m2, "reference: ANY over an empty list is false");
        let first = if m1 { Some(r1.perm) } else { None };
        kani::cover!(m1 && bit(r1.perm, o) && !bit(r0.perm, o) && r0.unix.is_none(), "second rule grants; a shadowing empty-list rule would have denied");
        kani::cover!(m1 && !bit(r1.perm, o) && bit(r0.perm, o), "second rule denies; a shadowing empty-list rule would have granted");
        kani::cover!(!m1 && bit(r0.perm, o) && bit(r2.perm, o) && r0.unix == Some(false), "nobody matches although both empty-list rules carry the permission");
        kani::cover!(m1 && matches!(c, C::V6(_)), "v4-mapped client decided by the second rule");
        expect(first, o, &got);
        std::mem::forget(got);
        std::mem::forget(acls);
    }

    /// VERIF: {"p":"C08","tier":"quick","fns":["acl::require_permission","acl::Acl::check","acl::check_subnet"],"bounds":"unix-socket client against 3 rules: {subnet list present but EMPTY, unix flag symbolic (absent/true/false)}, {no subnet list, unix flag symbolic}, {no conditions}; symbolic permission bits; all 4 operations","oracle":"the empty-list rule never matches, not even with `unix: true` for a unix client (conditions are ANDed); the first of the remaining rules whose unix condition holds decides","covers":3,"unwind":5}
    #[kani::proof]
    #[kani::unwind(5)]
    fn c08_acl_empty_subnet_list_unix_client() {
        let r0: R<0> = R { subnet: Some([]), unix: any_unix_cond(), perm: any_perm() };
        let r1: R<0> = R { subnet: None, unix: any_unix_cond(), perm: any_perm() };
        let r2: R<0> = R { subnet: None, unix: None, perm: any_perm() };
        let c = C::Unix;
        let acls = vec![mk_rule(&r0), mk_rule(&r1), mk_rule(&r2)];
        let attr = mk_client(c);
        let (op, o) = any_op();
        let got = require_permission(&acls, &attr, op);
        let (m0, m1, m2) = (ref_rule_matches(&r0, c), ref_rule_matches(&r1, c), ref_rule_matches(&r2, c));
        assert!(!m0 && m2, "reference sanity");
        let first = if m1 { Some(r1.perm) } else { Some(r2.perm) };
        kani::cover!(r0.unix == Some(true) && bit(r0.perm, o) && m1 && !bit(r1.perm, o), "empty list + unix:true in front must not grant");
        kani::cover!(r0.unix.is_none() && !bit(r0.perm, o) && m1 && bit(r1.perm, o), "empty list in front must not deny");
        kani::cover!(!m1 && bit(r2.perm, o), "third rule decides");
        expect(first, o, &got);
        std::mem::forget(got);
        std::mem::forget(acls);
    }

    /// VERIF: {"p":"C08","tier":"quick","fns":["acl::default_acls","acl::require_permission","acl::Acl::check","config::Prefix::contains"],"bounds":"default ACLs derived from an EMPTY `addresses` list (nothing configured); client symbolic IPv4 or IPv6 (incl. v4-mapped), any port; all 4 operations","oracle":"granted <=> loopback client (127.0.0.0/8, its v4-mapped image, or ::1); every other network client is refused as NotAuthenticated - the empty first rule grants nobody","covers":4,"unwind":5}
    #[kani::proof]
    #[kani::unwind(5)]
    fn c08_default_acls_no_addresses() {
        let acls = default_acls(&[]);
        assert!(matches!(&acls[0].subnet, Some(v) if v.is_empty()), "first default rule has a present-but-empty list");
        let c = if kani::any() { C::V4(kani::any()) } else { C::V6(kani::any()) };
        let attr = mk_client(c);
        let (op, _o) = any_op();
        let got = require_permission(&acls, &attr, op);
        let lo4 = P::V4(0x7f00_0000, 8);
        let lo6 = P::V6(1, 128);
        let want = ref_contains(lo4, c) || ref_contains(lo6, c);
        kani::cover!(want && matches!(c, C::V4(_)), "v4 loopback");
        kani::cover!(want && matches!(c, C::V6(x) if x == 1), "::1");
        kani::cover!(want && matches!(c, C::V6(x) if x != 1), "v4-mapped loopback");
        kani::cover!(!want, "outsider");
        if want {
            assert!(got.is_ok(), "loopback clients are granted every operation");
        } else {
            assert!(matches!(got, Err(AclError::NotAuthenticated)), "with no `addresses` configured outsiders are refused");
        }
        std::mem::forget(got);
        std::mem::forget(acls);
    }

    /// VERIF: {"p":"C08","tier":"quick","fns":["acl::default_acls","acl::require_permission"],"bounds":"default ACLs derived from an EMPTY `addresses` list; unix-socket client; all 4 operations","oracle":"the empty first rule does not capture the unix client: it gets the three HTTP permissions of the unix rule and is NotAuthorised for DNS recursion","covers":2,"unwind":5}
    #[kani::proof]
    #[kani::unwind(5)]
    fn c08_default_acls_no_addresses_unix() {
        let acls = default_acls(&[]);
        let attr = mk_client(C::Unix);
        let (op, o) = any_op();
        let got = require_permission(&acls, &attr, op);
        kani::cover!(o == 0, "dns");
        kani::cover!(o == 2, "metrics");
        if o == 0 {
            assert!(matches!(got, Err(AclError::NotAuthorised(_))), "unix socket clients may not recurse");
        } else {
            assert!(got.is_ok(), "unix socket clients may use the HTTP API");
        }
        std::mem::forget(got);
        std::mem::forget(acls);
    }
}
