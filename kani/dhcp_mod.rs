// Kani harnesses for crates/erbium-core/src/dhcp/mod.rs (C12: the IPv4 destination of a reply is the limited broadcast
// address exactly when the client set the broadcast bit, otherwise the assigned address).  The choice is made inline in the
// async recvdhcp; the initialiser of `let dst` is lifted verbatim by lib/lift.py.
#[cfg(kani)]
mod k {
    #[allow(unused_imports)]
    use super::super::*;
    use erbium_net::addr::*;
    include!(concat!(env!("ISOMER_ERBIUM_VERIF_DIR"), "/_common.rs"));

    include!(concat!(env!("VERIF_GEN_DIR"), "/reply_destination.rs"));

    fn pkt(flags: u16, yiaddr: u32) -> dhcppkt::Dhcp {
        dhcppkt::Dhcp {
            op: dhcppkt::OP_BOOTREPLY,
            htype: dhcppkt::HWTYPE_ETHERNET,
            hlen: 6,
            hops: 0,
            xid: 0,
            secs: 0,
            flags,
            ciaddr: std::net::Ipv4Addr::UNSPECIFIED,
            yiaddr: std::net::Ipv4Addr::from(yiaddr),
            siaddr: std::net::Ipv4Addr::UNSPECIFIED,
            giaddr: std::net::Ipv4Addr::UNSPECIFIED,
            chaddr: Vec::new(),
            sname: Vec::new(),
            file: Vec::new(),
            options: dhcppkt::DhcpOptions { other: std::collections::HashMap::with_hasher(fixed_random_state()) },
        }
    }

    /// VERIF: {"p":"C12","tier":"quick","fns":["dhcp::DhcpService::recvdhcp (initialiser of `let dst` lifted from source)","dhcppkt::Dhcp::get_broadcast_flag","erbium_net::addr::{with_port,as_sockaddr_in}"],"bounds":"all 65536 flag values of the request, all 2^32 assigned addresses, all source ports","oracle":"destination = 255.255.255.255 exactly when the most significant bit of the request's flags is set, otherwise the reply's yiaddr; port = the port the request came from","stubs":["initialiser of `let dst` lifted verbatim from recvdhcp; sockets and netlink lookups not executed","option maps created with fixed hasher keys (never filled)"],"covers":2,"unwind":4}
    #[kani::proof]
    #[kani::unwind(4)]
    fn c12_reply_destination_follows_broadcast_bit() {
        let flags: u16 = kani::any();
        let yiaddr: u32 = kani::any();
        let port: u16 = kani::any();
        let src: u32 = kani::any();
        let request = DHCPRequest { pkt: pkt(flags, 0), serverip: std::net::Ipv4Addr::UNSPECIFIED, ifindex: 1, if_mtu: None, if_router: None };
        let reply = pkt(0, yiaddr);
        let ip4 = erbium_net::nix::sys::socket::SockaddrIn::from(std::net::SocketAddrV4::new(std::net::Ipv4Addr::from(src), port));
        let dst = lifted_reply_destination(&request, &reply, ip4);
        kani::cover!(flags & 0x8000 != 0 && flags & 0x80 == 0, "broadcast bit set, bit 7 clear");
        kani::cover!(flags & 0x8000 == 0 && yiaddr == 0xC0000205, "unicast to 192.0.2.5");
        let got = u32::from(std::net::Ipv4Addr::from(dst.ip()));
        if flags & 0x8000 != 0 {
            assert!(got == 0xFFFF_FFFF, "broadcast bit set => limited broadcast destination");
        } else {
            assert!(got == yiaddr, "broadcast bit clear => destination is the assigned address");
        }
        assert!(dst.port() == port, "reply goes to the port the request came from");
        std::mem::forget(request);
        std::mem::forget(reply);
    }
}
