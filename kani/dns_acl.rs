// crates/erbium-core/src/dns/acl.rs (C08: the DNS entry point checks dns-recursion before anything else).
// DnsAclHandler::handle_query is async; its body is lifted verbatim into a synchronous fn by /verif/lib/lift.py on
// every run and decided by the mirsym engine from the MIR of this module (Kani: beyond CBMC memory).
#[cfg(any(kani, isomer_erbium_mir))]
pub mod lifted {
    #![allow(dead_code)]
    use super::super::*;
    pub struct AclConfView {
        pub acls: Vec<acl::Acl>,
    }
    pub struct AclLock<'a>(pub &'a AclConfView);
    impl<'a> AclLock<'a> {
        fn read(&self) -> &'a AclConfView {
            self.0
        }
    }
    pub struct AclNext;
    impl AclNext {
        // the next handler in the chain (router -> cache -> upstream)
        fn handle_query(&self, _msg: &DnsMessage) -> Result<dnspkt::DNSPkt, Error> {
            Err(Error::NotAuthoritative)
        }
    }
    pub struct AclShim<'a> {
        pub config: AclLock<'a>,
        pub next: AclNext,
    }
    include!(concat!(env!("VERIF_GEN_DIR"), "/dnsacl_handle_query.rs"));
}
