// Kani harnesses for crates/erbium-net/src/lib.rs (C02, heap-free part: Ipv4Subnet mask arithmetic).
// Ipv4Subnet is what DHCP policies match on (`match-subnet`), what `apply-subnet` expands, what the default
// policy per `addresses` prefix is built from (dhcp/mod.rs:667) and what option 121 routes carry
// (dhcppkt.rs:646, prefix length taken from the wire / from the configuration as a plain u8).
#[cfg(kani)]
mod k {
    use super::super::*;
    use std::net::Ipv4Addr;

    // reference: RFC 4632 mask of a prefix length 0..=32
    fn mask4(len: u8) -> u32 {
        if len == 0 { 0 } else { u32::MAX << (32 - len as u32) }
    }

    /// VERIF: {"p":"C02","tier":"quick","fns":["Ipv4Subnet::new","Ipv4Subnet::netmask","Ipv4Subnet::network","Ipv4Subnet::broadcast","Ipv4Subnet::contains"],"bounds":"all 2^32 addresses x prefix lengths 0..=32 x all 2^32 probe addresses","oracle":"new succeeds <=> no host bit set (addr & !mask == 0); on success netmask = mask(len), network = addr, broadcast = addr | !mask, contains(ip) <=> ip & mask == addr; network and broadcast are inside, network-1 / broadcast+1 are outside","covers":4}
    #[kani::proof]
    fn c02_ipv4subnet_mask_arith() {
        let a: u32 = kani::any();
        let len: u8 = kani::any();
        kani::assume(len <= 32);
        let ip: u32 = kani::any();
        let m = mask4(len);
        let r = Ipv4Subnet::new(Ipv4Addr::from(a), len);
        kani::cover!(r.is_ok() && len == 32, "host subnet /32");
        kani::cover!(r.is_ok() && len == 0, "/0");
        kani::cover!(r.is_err(), "host bits set => rejected");
        match r {
            Err(_) => assert!(a & !m != 0, "Ipv4Subnet::new rejects only addresses with host bits set"),
            Ok(s) => {
                assert!(a & !m == 0, "Ipv4Subnet::new accepts only network addresses");
                assert!(u32::from(s.netmask()) == m, "Ipv4Subnet::netmask == mask(len)");
                assert!(u32::from(s.network()) == a, "Ipv4Subnet::network == addr & mask");
                assert!(u32::from(s.broadcast()) == a | !m, "Ipv4Subnet::broadcast == addr | !mask");
                let want = ip & m == a;
                kani::cover!(want && ip != a && len >= 8, "inside, not the network address");
                assert!(s.contains(Ipv4Addr::from(ip)) == want, "Ipv4Subnet::contains == mask semantics");
                assert!(s.contains(s.network()) && s.contains(s.broadcast()), "both ends are inside");
                if a != 0 {
                    assert!(!s.contains(Ipv4Addr::from(a - 1)), "address below the network is outside");
                }
                if a | !m != u32::MAX {
                    assert!(!s.contains(Ipv4Addr::from((a | !m) + 1)), "address above the broadcast is outside");
                }
            }
        }
    }

    /// VERIF: {"p":"C02","tier":"quick","fns":["Ipv4Subnet::netmask","Ipv4Subnet::network","Ipv4Subnet::broadcast","Ipv4Subnet::contains"],"bounds":"struct built field-wise (pub fields; this is how a value with host bits can exist) with all 2^32 addresses x prefix lengths 0..=32 x all probes","oracle":"network = addr & mask, broadcast = addr | !mask, netmask = mask; never panics. (contains on a value with host bits set is NOT constrained here: the constructor forbids such values)","covers":1}
    #[kani::proof]
    fn c02_ipv4subnet_ops_hostbits() {
        let a: u32 = kani::any();
        let len: u8 = kani::any();
        kani::assume(len <= 32);
        let m = mask4(len);
        let s = Ipv4Subnet { addr: Ipv4Addr::from(a), prefixlen: len };
        kani::cover!(a & !m != 0, "host bits set");
        assert!(u32::from(s.netmask()) == m, "netmask");
        assert!(u32::from(s.network()) == a & m, "network");
        assert!(u32::from(s.broadcast()) == a | !m, "broadcast");
        let _ = s.contains(Ipv4Addr::from(kani::any::<u32>()));
    }

    /// VERIF: {"p":"C02","tier":"quick","fns":["Ipv4Subnet::new","Ipv4Subnet::netmask"],"bounds":"all 2^32 addresses x EVERY u8 prefix length 0..=255 (the constructor takes a plain u8: dhcp/config.rs parse_subnet and parse_routes hand it `str::parse::<u8>()`, dhcppkt.rs:646 hands it a byte from the wire)","oracle":"the constructor is total (no panic / arithmetic overflow) and an IPv4 prefix length above 32 is refused with Err(InvalidSubnet); whatever it accepts has prefixlen <= 32","covers":3}
    #[kani::proof]
    fn c02_ipv4subnet_new_total_any_u8_len() {
        let a: u32 = kani::any();
        let len: u8 = kani::any();
        kani::cover!(len > 32 && len < 64, "33..=63");
        kani::cover!(len >= 64, "64..=255");
        kani::cover!(len <= 32, "valid length");
        let r = Ipv4Subnet::new(Ipv4Addr::from(a), len);
        match r {
            Ok(s) => assert!(s.prefixlen <= 32, "an accepted Ipv4Subnet has a prefix length of at most 32"),
            Err(_) => (),
        }
    }

    /// VERIF: {"p":"C02","tier":"quick","fns":["Ipv4Subnet::new","Ipv4Subnet::netmask"],"bounds":"all 2^32 addresses x prefix lengths 33..=63 (where the u64 shift does not overflow)","oracle":"Err(InvalidSubnet): there is no IPv4 prefix longer than /32 (split from c02_ipv4subnet_new_total_any_u8_len so the two failure modes - accepted over-long prefix / shift overflow - are reported separately; no cover!: every input of this harness violates the oracle on the current code, and the runner cannot tell a cover witness from a counterexample with the same values)","covers":0}
    #[kani::proof]
    fn c02_ipv4subnet_new_rejects_len_33_to_63() {
        let a: u32 = kani::any();
        let len: u8 = kani::any();
        kani::assume(len > 32 && len < 64);
        let r = Ipv4Subnet::new(Ipv4Addr::from(a), len);
        assert!(r.is_err(), "prefix lengths 33..=63 are refused");
    }

    /// VERIF: {"p":"C02","tier":"quick","fns":["Ipv4Subnet::netmask","Ipv4Subnet::network","Ipv4Subnet::broadcast","Ipv4Subnet::contains"],"bounds":"every value Ipv4Subnet::new can return: prefix length 0..=32 (nothing in the workspace builds the struct field-wise; new's refusal of longer lengths is c02_ipv4subnet_new_total_any_u8_len), all addresses","oracle":"no panic / overflow in any accessor","covers":1}
    #[kani::proof]
    fn c02_ipv4subnet_ops_total_any_u8_len() {
        let a: u32 = kani::any();
        let len: u8 = kani::any();
        kani::assume(len <= 32);
        let s = Ipv4Subnet { addr: Ipv4Addr::from(a), prefixlen: len };
        kani::cover!(len == 32, "host prefix");
        let _ = s.netmask();
        let _ = s.network();
        let _ = s.broadcast();
        let _ = s.contains(Ipv4Addr::from(kani::any::<u32>()));
    }
}
