// Kani harnesses for crates/erbium-core/src/dns/router.rs (C15: longest suffix wins, order independent).
// The selection loop lives inline in an async fn; its body is lifted verbatim into a synchronous fn by
// /verif/lib/lift.py on every run (see that file for the purely syntactic rewrite).
// shims + lifted body: compiled for Kani and for the MIR dump used by the mirsym engine
#[cfg(any(kani, isomer_erbium_mir, test))]
pub mod lifted {
    #![allow(dead_code, static_mut_refs)]
    use super::super::*;
    use crate::dns::config::{Handler, Route};
    use crate::dns::dnspkt::*;
    // ---- shims for the environment of the lifted body -------------------------------------------------
    // view of the configuration: the lifted body only reads `dns_routes`
    pub struct ConfView {
        pub dns_routes: Vec<Route>,
    }
    pub struct ConfShim<'a>(pub &'a ConfView);
    impl<'a> ConfShim<'a> {
        fn clone(&self) -> ConfShim<'a> {
            ConfShim(self.0)
        }
        fn read(&self) -> &'a ConfView {
            self.0
        }
    }
    // view of the incoming message: the lifted body only reads the question name, RD and (for logging) the id
    pub struct QueryView {
        pub qid: u16,
        pub rd: bool,
        pub question: Question,
    }
    pub struct MsgShim {
        pub in_query: QueryView,
    }
    pub static mut FORWARDED_TO: Option<std::net::SocketAddr> = None;
    pub struct NextShim;
    impl NextShim {
        // the next handler in the chain (cache -> upstream): records where the query would be sent
        fn handle_query(&self, _msg: &MsgShim, addr: std::net::SocketAddr) -> Result<DNSPkt, Error> {
            unsafe { FORWARDED_TO = Some(addr) };
            Err(Error::Denied(String::new()))
        }
    }
    pub struct RouterShim<'a> {
        pub conf: ConfShim<'a>,
        pub next: NextShim,
    }
    include!(concat!(env!("VERIF_GEN_DIR"), "/router_handle_query.rs"));

}

#[cfg(kani)]
mod k {
    use super::super::*;
    use crate::dns::config::{Handler, Route};
    use crate::dns::dnspkt::*;
    include!(concat!(env!("ISOMER_ERBIUM_VERIF_DIR"), "/_common.rs"));

    use super::lifted::*;
    // ---- builders -------------------------------------------------------------------------------------
    // suffix of n labels (1 octet each), octets taken from `b`
    fn dom_n(n: u8, b: [u8; 3]) -> Domain {
        match n {
            0 => Domain::from(Vec::new()),
            1 => Domain::from(vec![Label::from(vec![b[2]])]),
            2 => Domain::from(vec![Label::from(vec![b[1]]), Label::from(vec![b[2]])]),
            _ => Domain::from(vec![Label::from(vec![b[0]]), Label::from(vec![b[1]]), Label::from(vec![b[2]])]),
        }
    }
    fn lower(x: u8) -> u8 {
        if x >= b'A' && x <= b'Z' { x + 32 } else { x }
    }
    // reference suffix relation on the octet representation used by dom_n: last n labels equal, ASCII case-insensitively
    fn ref_match(n: u8, s: [u8; 3], q: [u8; 3]) -> bool {
        let mut i = 3 - n as usize;
        while i < 3 {
            if lower(s[i]) != lower(q[i]) {
                return false;
            }
            i += 1;
        }
        true
    }
    fn query(qdomain: Domain, rd: bool) -> MsgShim {
        MsgShim { in_query: QueryView { qid: 1, rd, question: Question { qdomain, qclass: CLASS_IN, qtype: RR_A } } }
    }
    fn server(i: u8) -> std::net::SocketAddr {
        std::net::SocketAddr::new(std::net::IpAddr::V4(std::net::Ipv4Addr::new(192, 0, 2, i)), 53)
    }

    #[derive(Clone, Copy, PartialEq)]
    enum Act {
        Forward(u8),
        Nx,
    }

    fn three_routes(order_fixed: bool) {
        // three routes, one suffix each; suffix lengths 0..=3 and all label octets symbolic
        let n: [u8; 3] = kani::any();
        kani::assume(n[0] <= 3 && n[1] <= 3 && n[2] <= 3);
        if order_fixed {
            // the order that exposes a stale "best so far": shortest, longest, middle
            kani::assume(n[0] < n[2] && n[2] < n[1]);
        }
        let s: [[u8; 3]; 3] = kani::any();
        let acts: [Act; 3] = [
            if kani::any() { Act::Nx } else { Act::Forward(1) },
            if kani::any() { Act::Nx } else { Act::Forward(2) },
            if kani::any() { Act::Nx } else { Act::Forward(3) },
        ];
        let q: [u8; 3] = kani::any();
        let rd: bool = kani::any();
        let mk = |i: usize| Route {
            suffixes: vec![dom_n(n[i], s[i])],
            dest: match acts[i] {
                Act::Nx => Handler::ForgeNxDomain,
                Act::Forward(k) => Handler::Forward(vec![server(k)]),
            },
        };
        let conf = ConfView { dns_routes: vec![mk(0), mk(1), mk(2)] };
        let h = RouterShim { conf: ConfShim(&conf), next: NextShim };
        let msg = query(dom_n(3, q), rd);
        unsafe { FORWARDED_TO = None };
        let got = lifted_router_handle_query(&h, &msg);

        // reference: the matching suffix with the most labels decides
        let m = [ref_match(n[0], s[0], q), ref_match(n[1], s[1], q), ref_match(n[2], s[2], q)];
        let mut best: Option<usize> = None;
        let mut tie = false;
        let mut i = 0;
        while i < 3 {
            if m[i] {
                match best {
                    None => best = Some(i),
                    Some(b) => {
                        if n[i] > n[b] {
                            best = Some(i);
                            tie = false;
                        } else if n[i] == n[b] && acts[i] != acts[b] {
                            tie = true; // same suffix written in two routes with different actions: documented-silent
                        }
                    }
                }
            }
            i += 1;
        }
        kani::cover!(m[0] && m[1] && m[2] && n[0] < n[2] && n[2] < n[1], "three nested matches written shortest, longest, middle");
        kani::cover!(best.is_none(), "no route");
        kani::cover!(matches!(best, Some(b) if acts[b] == Act::Nx) && !rd, "forge-nxdomain with RD clear");
        kani::cover!(matches!(best, Some(b) if matches!(acts[b], Act::Forward(_))) && rd, "forwarded");
        let fwd = unsafe { FORWARDED_TO };
        match best {
            None => {
                assert!(matches!(got, Err(Error::NoRouteConfigured)), "no matching suffix => no route (server failure)");
                assert!(fwd.is_none(), "nothing is sent upstream without a route");
            }
            Some(b) if !tie => match acts[b] {
                Act::Nx => {
                    assert!(matches!(got, Err(Error::Blocked)), "longest matching suffix is forge-nxdomain => NXDOMAIN, whatever RD says");
                    assert!(fwd.is_none(), "a forge-nxdomain name is never sent upstream");
                }
                Act::Forward(k) => {
                    if rd {
                        assert!(fwd == Some(server(k)), "forwarded only to the server of the longest matching route");
                    } else {
                        assert!(matches!(got, Err(Error::NotAuthoritative)), "forward route without RD => not forwarded");
                        assert!(fwd.is_none(), "no recursion requested => nothing sent upstream");
                    }
                }
            },
            Some(_) => {}
        }
        std::mem::forget(got);
        std::mem::forget(msg);
        std::mem::forget(conf);
    }

    /// VERIF: {"p":"C15","tier":"experimental","fns":["dns::router::DnsRouteHandler::handle_query (lifted_router_handle_query: body lifted from source)","dns::dnspkt::Domain::ends_with","dns::dnspkt::compare_longest_suffix"],"bounds":"3 routes x 1 suffix, suffix lengths 0..=3 labels in EVERY order (so all permutations of a table are covered), 1-octet labels with symbolic octets (any case mix), 3-label query name, RD symbolic, each route forward(to its own server) or forge-nxdomain","oracle":"outcome = action of the matching suffix with most labels: forge-nxdomain => Blocked and nothing sent upstream; forward => sent to that route's server iff RD, else NotAuthoritative; no match => NoRouteConfigured","stubs":["tokio RwLock read = identity (single task)","next handler (cache/upstream) = recording stub","log::trace! disabled (max level Off)","config and message replaced by views holding exactly the fields the body reads (dns_routes; question, rd, qid)"],"covers":4,"unwind":6}
    #[kani::proof]
    #[kani::unwind(6)]
    #[kani::stub(std::hash::RandomState::new, fixed_random_state)]
    fn c15_router_longest_suffix_3routes() {
        three_routes(false);
    }

    /// VERIF: {"p":"C15","tier":"experimental","fns":["dns::router::DnsRouteHandler::handle_query (lifted)","dns::dnspkt::compare_longest_suffix"],"bounds":"as c15_router_longest_suffix_3routes restricted to tables written shortest, longest, middle (cheaper instance of the same obligation, kept as a regression probe for stale best-so-far tracking)","oracle":"as c15_router_longest_suffix_3routes","stubs":["tokio RwLock read = identity","next handler = recording stub"],"covers":4,"unwind":6}
    #[kani::proof]
    #[kani::unwind(6)]
    #[kani::stub(std::hash::RandomState::new, fixed_random_state)]
    fn c15_router_longest_suffix_nested_order() {
        three_routes(true);
    }

    /// VERIF: {"p":"C15","tier":"experimental","fns":["dns::router::DnsRouteHandler::handle_query (lifted)"],"bounds":"one route with TWO suffixes (lengths 1 and 2, symbolic octets) plus one catch-all route (empty suffix); 3-label symbolic query; RD symbolic","oracle":"the multi-suffix route wins whenever either of its suffixes matches; the empty suffix matches everything else","stubs":["tokio RwLock read = identity","next handler = recording stub"],"covers":2,"unwind":6}
    #[kani::proof]
    #[kani::unwind(6)]
    #[kani::stub(std::hash::RandomState::new, fixed_random_state)]
    fn c15_router_multi_suffix_route() {
        let s1: [u8; 3] = kani::any();
        let s2: [u8; 3] = kani::any();
        let q: [u8; 3] = kani::any();
        let rd: bool = kani::any();
        let conf = ConfView {
            dns_routes: vec![
                Route { suffixes: vec![dom_n(0, s1)], dest: Handler::Forward(vec![server(9)]) },
                Route { suffixes: vec![dom_n(1, s1), dom_n(2, s2)], dest: Handler::ForgeNxDomain },
            ],
        };
        let h = RouterShim { conf: ConfShim(&conf), next: NextShim };
        let msg = query(dom_n(3, q), rd);
        unsafe { FORWARDED_TO = None };
        let got = lifted_router_handle_query(&h, &msg);
        let blocked = ref_match(1, s1, q) || ref_match(2, s2, q);
        kani::cover!(blocked && !ref_match(1, s1, q), "second suffix of the route matches");
        kani::cover!(!blocked && rd, "falls through to the catch-all");
        if blocked {
            assert!(matches!(got, Err(Error::Blocked)), "any suffix of the forge-nxdomain route beats the catch-all");
            assert!(unsafe { FORWARDED_TO }.is_none(), "blocked names never go upstream");
        } else if rd {
            assert!(unsafe { FORWARDED_TO } == Some(server(9)), "the empty suffix matches everything");
        } else {
            assert!(matches!(got, Err(Error::NotAuthoritative)), "no RD => not forwarded");
        }
        std::mem::forget(got);
        std::mem::forget(msg);
        std::mem::forget(conf);
    }
}

// Native replay of mirsym counterexamples through the lifted body (driven by /verif/lib/mir_replay.py).
// Script: "route nx|fwd <server-id> <labels of suffix 1 as comma separated octets, labels separated by '.'> [more suffixes]",
//         "query <labels> <rd 0|1>".   An empty suffix is written "-".
#[cfg(test)]
mod replay {
    use super::lifted::*;
    use super::super::*;
    use crate::dns::config::{Handler, Route};
    use crate::dns::dnspkt::*;

    fn dom(s: &str) -> Domain {
        if s == "-" {
            return Domain::from(Vec::new());
        }
        Domain::from(s.split('.').map(|l| Label::from(l.split(',').map(|b| b.parse::<u8>().unwrap()).collect::<Vec<u8>>())).collect::<Vec<_>>())
    }

    #[test]
    fn isomer_erbium_replay_router() {
        let path = match std::env::var("VERIF_REPLAY_FILE") {
            Ok(p) => p,
            Err(_) => return,
        };
        let script = std::fs::read_to_string(path).expect("replay script");
        let mut routes = vec![];
        let mut q = None;
        for line in script.lines() {
            let w: Vec<&str> = line.split_whitespace().collect();
            if w.is_empty() {
                continue;
            }
            match w[0] {
                "route" => {
                    let id: u8 = w[2].parse().unwrap();
                    let dest = if w[1] == "nx" {
                        Handler::ForgeNxDomain
                    } else {
                        Handler::Forward(vec![std::net::SocketAddr::new(std::net::IpAddr::V4(std::net::Ipv4Addr::new(192, 0, 2, id)), 53)])
                    };
                    routes.push(Route { suffixes: w[3..].iter().map(|s| dom(s)).collect(), dest });
                }
                "query" => q = Some((dom(w[1]), w[2] == "1")),
                _ => {}
            }
        }
        let (qd, rd) = q.unwrap();
        let conf = ConfView { dns_routes: routes };
        let h = RouterShim { conf: ConfShim(&conf), next: NextShim };
        let msg = MsgShim { in_query: QueryView { qid: 1, rd, question: Question { qdomain: qd, qclass: CLASS_IN, qtype: RR_A } } };
        unsafe { FORWARDED_TO = None };
        let r = std::panic::catch_unwind(std::panic::AssertUnwindSafe(|| lifted_router_handle_query(&h, &msg)));
        let fwd = unsafe { FORWARDED_TO };
        match (r, fwd) {
            (Err(_), _) => println!("REPLAY result panic"),
            (_, Some(a)) => println!("REPLAY result forwarded {}", match a.ip() { std::net::IpAddr::V4(v) => v.octets()[3], _ => 0 }),
            (Ok(Err(Error::Blocked)), _) => println!("REPLAY result Blocked"),
            (Ok(Err(Error::NotAuthoritative)), _) => println!("REPLAY result NotAuthoritative"),
            (Ok(Err(Error::NoRouteConfigured)), _) => println!("REPLAY result NoRouteConfigured"),
            (Ok(_), _) => println!("REPLAY result other"),
        }
    }
}
