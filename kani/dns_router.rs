// Kani harnesses for crates/erbium-core/src/dns/router.rs (C15: longest suffix wins, order independent).
#[cfg(kani)]
mod k {
    use super::super::*;
    use crate::dns::config::{Handler, Route};
    use crate::dns::dnspkt::*;
    include!(concat!(env!("ISOMER_ERBIUM_VERIF_DIR"), "/_common.rs"));
    include!(concat!(env!("ISOMER_ERBIUM_VERIF_DIR"), "/_async.rs"));

    fn lbl(b: &[u8]) -> Label {
        Label::from(b.to_vec())
    }
    fn dom(ls: &[&[u8]]) -> Domain {
        Domain::from(ls.iter().map(|l| lbl(l)).collect::<Vec<_>>())
    }

    fn query(qdomain: Domain, rd: bool) -> crate::dns::DnsMessage {
        use erbium_net::addr::WithPort as _;
        crate::dns::DnsMessage {
            in_query: DNSPkt {
                qid: 1,
                rd,
                tc: false,
                aa: false,
                qr: false,
                opcode: OPCODE_QUERY,
                cd: false,
                ad: false,
                ra: false,
                rcode: NOERROR,
                bufsize: 512,
                edns_ver: None,
                edns_do: false,
                question: Question { qdomain, qclass: CLASS_IN, qtype: RR_A },
                answer: vec![],
                nameserver: vec![],
                additional: vec![],
                edns: None,
            },
            in_size: 30,
            local_ip: std::net::IpAddr::V4(std::net::Ipv4Addr::LOCALHOST),
            remote_addr: std::net::Ipv4Addr::LOCALHOST.with_port(1234),
            protocol: crate::dns::Protocol::Udp,
        }
    }

    fn handler(routes: Vec<Route>) -> DnsRouteHandler {
        let mut conf = crate::config::Config::default();
        conf.dns_routes = routes;
        DnsRouteHandler {
            conf: std::sync::Arc::new(tokio::sync::RwLock::new(conf)),
            next: crate::dns::cache::CacheHandler::verif_inert(),
        }
    }

    // Stub for the next handler in the chain (cache -> upstream sockets): the route decision is what is
    // under test; which upstream receives the query is outside this check.
    async fn next_stub(_s: &crate::dns::cache::CacheHandler, _msg: &crate::dns::DnsMessage, addr: std::net::SocketAddr) -> Result<DNSPkt, Error> {
        Err(Error::Denied(if addr.port() == 53 { String::new() } else { String::new() }))
    }

    /// VERIF: {"p":"C15","tier":"quick","fns":["dns::router::DnsRouteHandler::handle_query","dns::dnspkt::Domain::ends_with","dns::dnspkt::compare_longest_suffix"],"bounds":"probe","oracle":"probe","stubs":["std::hash::RandomState::new -> fixed keys"],"covers":1,"unwind":6}
    #[kani::proof]
    #[kani::unwind(6)]
    #[kani::stub(std::hash::RandomState::new, fixed_random_state)]
    #[kani::stub(crate::dns::cache::CacheHandler::handle_query, next_stub)]
    fn c15_router_probe() {
        let routes = vec![
            Route { suffixes: vec![dom(&[])], dest: Handler::Forward(vec![]) },
            Route { suffixes: vec![dom(&[b"b", b"ex"])], dest: Handler::ForgeNxDomain },
        ];
        let h = handler(routes);
        let msg = query(dom(&[b"a", b"b", b"ex"]), false);
        let r = poll_once(h.handle_query(&msg));
        kani::cover!(true, "reached");
        assert!(matches!(r, Some(Err(Error::Blocked))), "forge-nxdomain route wins");
    }
}
