// Kani harnesses for crates/erbium-core/src/lldp/lldppkt.rs (C05: LLDP frames never crash the decoder).
// Skeleton approach: every length field is enumerated over boundary values (concrete per instance),
// every other octet is symbolic.
#[cfg(kani)]
mod k {
    use super::super::*;
    include!(concat!(env!("ISOMER_ERBIUM_VERIF_DIR"), "/_common.rs"));

    // ManagementAddress payload of N octets; first octet (address-string length) = A, everything else symbolic
    // except the OID length octet, which is set to O if it lies inside the buffer.
    fn mgmt<const N: usize>(a: u8, o: u8) {
        let mut d: [u8; N] = kani::any();
        if N > 0 {
            d[0] = a;
        }
        // oid length octet position when the address length is accepted: 1(len) + 1(af) + (a-1) + 1 + 4
        let pos = 2usize + (a as usize).saturating_sub(1) + 5;
        if pos < N {
            d[pos] = o;
        }
        let mut b = pktparser::Buffer::new(&d);
        let r = ManagementAddress::from_wire(&mut b);
        if let Ok(m) = &r {
            assert!(m.address.len() == a as usize - 1 && (1..=32).contains(&m.address.len()), "address length as declared and within 1..=32");
            assert!(m.oid.len() == o as usize, "oid length as declared");
        }
        kani::cover!(true, "reached");
        std::mem::forget(r);
    }

    /// VERIF: {"p":"C05","tier":"quick","fns":["lldp::lldppkt::ManagementAddress::from_wire","pktparser::Buffer::{get_u8,get_bytes,get_be32}"],"bounds":"management-address TLV payloads of 0,1,2,12,14 octets; address-length octet in {0,1,2,5,33,34,255}; OID length octet in {0,1,2,255}; all other octets symbolic","oracle":"Ok or Err: no panic, no integer underflow on the length arithmetic, no out-of-bounds","stubs":["alloc::fmt::format -> empty string (error text only)"],"covers":1,"unwind":8}
    #[kani::proof]
    #[kani::unwind(8)]
    #[kani::stub(alloc::fmt::format, empty_format)]
    fn c05_lldp_mgmt_addr_lengths() {
        let a = match kani::any::<u8>() % 7 {
            0 => 0u8,
            1 => 1,
            2 => 2,
            3 => 5,
            4 => 33,
            5 => 34,
            _ => 255,
        };
        let o = match kani::any::<u8>() % 4 {
            0 => 0u8,
            1 => 1,
            2 => 2,
            _ => 255,
        };
        match kani::any::<u8>() % 5 {
            0 => mgmt::<0>(a, o),
            1 => mgmt::<1>(a, o),
            2 => mgmt::<2>(a, o),
            3 => mgmt::<12>(a, o),
            _ => mgmt::<14>(a, o),
        }
    }

    // One TLV: type octet T (7-bit type << 1 | length bit 8), length octet L, N payload octets available.
    fn tlv<const N: usize>(t: u8, l: u8) {
        let mut d: [u8; N] = kani::any();
        if N > 0 {
            d[0] = t;
        }
        if N > 1 {
            d[1] = l;
        }
        let mut b = pktparser::Buffer::new(&d);
        let r = LldpTlv::from_wire(&mut b);
        if r.is_ok() {
            assert!(2 + l as usize <= N, "an accepted TLV lies inside the frame");
        }
        kani::cover!(true, "reached");
        std::mem::forget(r);
    }

    // all lengths concrete per instance (symbolic-length Vec copies are out of reach for CBMC); contents symbolic
    fn tlv_ty(sel: u8) -> u8 {
        let ty = match sel % 7 {
            0 => 0u8,
            1 => 1,
            2 => 2,
            3 => 3,
            4 => 7,
            5 => 127,
            _ => 9,
        };
        (ty << 1) | (kani::any::<u8>() & 1)
    }

    /// VERIF: {"p":"C05","tier":"thorough","fns":["lldp::lldppkt::LldpTlv::from_wire","lldp::lldppkt::{ChassisId,PortId,Ttl,SystemCapabilities,OrganizationSpecific,UnknownTlv}::from_wire","lldp::lldppkt::{ChassisIdType,PortIdType}::from_wire"],"bounds":"single TLV in an 8-octet frame, type in {0,1,2,3,7,127,9(unknown)} with both values of the 9th length bit, declared length in {0,1,2,3,4,5,6,7(past the end)}; all payload octets symbolic","oracle":"Ok or Err: no panic; an accepted TLV lies inside the frame","stubs":["alloc::fmt::format -> empty string (error text only)"],"covers":1,"unwind":10}
    #[kani::proof]
    #[kani::unwind(10)]
    #[kani::stub(alloc::fmt::format, empty_format)]
    fn c05_lldp_tlv_binary_types() {
        let t = tlv_ty(kani::any());
        match kani::any::<u8>() % 8 {
            0 => tlv::<8>(t, 0),
            1 => tlv::<8>(t, 1),
            2 => tlv::<8>(t, 2),
            3 => tlv::<8>(t, 3),
            4 => tlv::<8>(t, 4),
            5 => tlv::<8>(t, 5),
            6 => tlv::<8>(t, 6),
            _ => tlv::<8>(t, 7),
        }
    }

    /// VERIF: {"p":"C05","tier":"thorough","fns":["lldp::lldppkt::LldpTlv::from_wire"],"bounds":"truncated frames of 0,1,2,3 octets holding a TLV header that declares 0, 1 or 2 payload octets, types as in c05_lldp_tlv_binary_types","oracle":"Ok or Err: no panic","stubs":["alloc::fmt::format -> empty string (error text only)"],"covers":1,"unwind":10}
    #[kani::proof]
    #[kani::unwind(10)]
    #[kani::stub(alloc::fmt::format, empty_format)]
    fn c05_lldp_tlv_truncated() {
        let t = tlv_ty(kani::any());
        match kani::any::<u8>() % 8 {
            0 => tlv::<0>(t, 0),
            1 => tlv::<1>(t, 0),
            2 => tlv::<2>(t, 0),
            3 => tlv::<2>(t, 1),
            4 => tlv::<3>(t, 1),
            5 => tlv::<3>(t, 2),
            6 => tlv::<2>(t, 2),
            _ => tlv::<3>(t, 0),
        }
    }

    /// VERIF: {"p":"C05","tier":"thorough","fns":["lldp::lldppkt::LldpTlv::from_wire","lldp::lldppkt::{PortDescription,SystemName,SystemDescription}::from_wire","alloc::string::String::from_utf8"],"bounds":"text TLVs (types 4,5,6) with declared length 0..=3 inside a 5-octet frame, text octets symbolic (any byte values, valid or invalid UTF-8)","oracle":"Ok or Err: no panic","stubs":["alloc::fmt::format -> empty string"],"covers":1,"unwind":8}
    #[kani::proof]
    #[kani::unwind(8)]
    #[kani::stub(alloc::fmt::format, empty_format)]
    fn c05_lldp_tlv_text_types() {
        let ty = (4 + kani::any::<u8>() % 3) << 1;
        match kani::any::<u8>() % 4 {
            0 => tlv::<5>(ty, 0),
            1 => tlv::<5>(ty, 1),
            2 => tlv::<5>(ty, 2),
            _ => tlv::<5>(ty, 3),
        }
    }

    fn packet<const N: usize>(x: [u8; 3]) {
        let full: [u8; 9] = [3 << 1, 2, x[0], x[1], 9 << 1, 1, x[2], 0, 0];
        let mut d = [0u8; N];
        let mut i = 0;
        while i < N {
            d[i] = full[i];
            i += 1;
        }
        let mut b = pktparser::Buffer::new(&d);
        let r = LldpPacket::from_wire(&mut b);
        kani::cover!(N < 9 || r.is_ok(), "complete frame accepted");
        match &r {
            Ok(p) => assert!(N == 9 && p.tlvs.len() == 3, "only the complete frame is accepted"),
            Err(_) => assert!(N < 9, "every truncation is rejected"),
        }
        std::mem::forget(r);
    }

    /// VERIF: {"p":"C05","tier":"thorough","fns":["lldp::lldppkt::LldpPacket::from_wire","lldp::lldppkt::LldpTlv::from_wire"],"bounds":"every truncation point 0..=9 of the 9-octet frame [TTL(2 octets), unknown type 9 (1 octet), End]; TTL and unknown payload symbolic","oracle":"Ok only if an End TLV was reached, otherwise Err; never panics, loop terminates","stubs":["alloc::fmt::format -> empty string"],"covers":1,"unwind":12}
    #[kani::proof]
    #[kani::unwind(12)]
    #[kani::stub(alloc::fmt::format, empty_format)]
    fn c05_lldp_packet_truncations() {
        let x: [u8; 3] = kani::any();
        match kani::any::<u8>() % 10 {
            0 => packet::<0>(x),
            1 => packet::<1>(x),
            2 => packet::<2>(x),
            3 => packet::<3>(x),
            4 => packet::<4>(x),
            5 => packet::<5>(x),
            6 => packet::<6>(x),
            7 => packet::<7>(x),
            8 => packet::<8>(x),
            _ => packet::<9>(x),
        }
    }
}
