// Kani harnesses for crates/erbium-core/src/dhcp/dhcppkt.rs (C12, C05).
#[cfg(kani)]
mod k {
    use super::super::*;
    include!(concat!(env!("ISOMER_ERBIUM_VERIF_DIR"), "/_common.rs"));

    fn mk(flags: u16) -> Dhcp {
        Dhcp {
            op: OP_BOOTREQUEST,
            htype: HWTYPE_ETHERNET,
            hlen: 6,
            hops: 0,
            xid: 0,
            secs: 0,
            flags,
            ciaddr: net::Ipv4Addr::UNSPECIFIED,
            yiaddr: net::Ipv4Addr::UNSPECIFIED,
            siaddr: net::Ipv4Addr::UNSPECIFIED,
            giaddr: net::Ipv4Addr::UNSPECIFIED,
            chaddr: Vec::new(),
            sname: Vec::new(),
            file: Vec::new(),
            options: DhcpOptions { other: collections::HashMap::with_hasher(fixed_random_state()) },
        }
    }

    /// VERIF: {"p":"C12","tier":"quick","fns":["dhcp::dhcppkt::Dhcp::get_broadcast_flag"],"bounds":"all 65536 values of the flags field","oracle":"broadcast <=> flags & 0x8000 != 0 (RFC 2131 figure 2: B is the most significant bit)","covers":2}
    #[kani::proof]
    fn c12_broadcast_flag_is_msb() {
        let flags: u16 = kani::any();
        let d = mk(flags);
        let got = d.get_broadcast_flag();
        kani::cover!(flags & 0x8000 != 0, "broadcast bit set");
        kani::cover!(flags & 0x8000 == 0 && flags != 0, "other bits only");
        assert!(got == (flags & 0x8000 != 0), "get_broadcast_flag <=> flags & 0x8000");
        std::mem::forget(d);
    }

    // RFC 2132 / RFC 3396 reference decoder for ONE option code: walks `enc`, which must consist solely
    // of (code, len, data) triples for `code`, and checks that the concatenated data equals `value`.
    fn check_encoding<const L: usize>(code: u8, value: &[u8; L], enc: &[u8]) {
        // single pass state machine (0 = expect code, 1 = expect length, 2 = inside data)
        let mut state = 0u8;
        let mut remaining = 0usize;
        let mut off = 0usize;
        let mut chunks = 0usize;
        let mut idx = 0usize;
        while idx < enc.len() {
            let b = enc[idx];
            if state == 0 {
                assert!(b == code, "every emitted option carries the option's code");
                state = 1;
            } else if state == 1 {
                remaining = b as usize;
                chunks += 1;
                state = if remaining == 0 { 0 } else { 2 };
            } else {
                assert!(off < L, "decoded value not longer than the original");
                assert!(b == value[off], "decoded byte == original byte");
                off += 1;
                remaining -= 1;
                if remaining == 0 {
                    state = 0;
                }
            }
            idx += 1;
        }
        assert!(state == 0, "encoding ends on an option boundary (declared length fits)");
        assert!(chunks >= 1, "a zero-length option is still emitted");
        assert!(off == L, "decoded value has the original length");
    }

    fn option_roundtrip<const L: usize>(sparse: bool) {
        let code: u8 = kani::any();
        kani::assume(code != 0 && code != 255);
        let mut value: [u8; L] = if sparse { [0x5a; L] } else { kani::any() };
        if sparse {
            // symbolic bytes only at the chunk boundaries (cheaper formula); everything else concrete
            let mut i = 0;
            while i < L {
                if i == 0 || i == 254 || i == 255 || i == 256 || i + 1 == L {
                    value[i] = kani::any();
                } else {
                    value[i] = (i as u8).wrapping_mul(7).wrapping_add(3);
                }
                i += 1;
            }
        }
        // capacity reserved up front: keeps Vec reallocation (memcpy of a growing buffer) out of the formula
        let mut v: Vec<u8> = Vec::with_capacity(2 * L + 8);
        serialise_option(DhcpOption(code), &value[..], &mut v);
        kani::cover!(v.len() >= 2, "encoded");
        check_encoding::<L>(code, &value, &v);
        std::mem::forget(v);
    }

    /// VERIF: {"p":"C12","tier":"quick","fns":["dhcp::dhcppkt::serialise_option"],"bounds":"option value lengths {0,1,2,7} selected symbolically, all value bytes and the option code symbolic","oracle":"RFC 2132/3396 reference decoder written in the harness (repeated options concatenate) returns the original value","covers":1,"unwind":18}
    #[kani::proof]
    #[kani::unwind(18)]
    fn c12_option_encode_small() {
        match kani::any::<u8>() {
            0 => option_roundtrip::<0>(false),
            1 => option_roundtrip::<1>(false),
            2 => option_roundtrip::<2>(false),
            _ => option_roundtrip::<7>(false),
        }
    }

    /// VERIF: {"p":"C12","tier":"thorough","fns":["dhcp::dhcppkt::serialise_option"],"bounds":"option value length 255 (largest single-option value), bytes symbolic","oracle":"RFC 2132/3396 reference decoder returns the original value","covers":1,"unwind":520}
    #[kani::proof]
    #[kani::unwind(520)]
    fn c12_option_encode_255() {
        option_roundtrip::<255>(false);
    }

    /// VERIF: {"p":"C12","tier":"thorough","fns":["dhcp::dhcppkt::serialise_option"],"bounds":"option value length 256 (first length that needs RFC 3396 splitting), bytes symbolic","oracle":"RFC 2132/3396 reference decoder returns the original value","covers":1,"unwind":522}
    #[kani::proof]
    #[kani::unwind(522)]
    fn c12_option_encode_256() {
        option_roundtrip::<256>(false);
    }

    /// VERIF: {"p":"C12","tier":"thorough","fns":["dhcp::dhcppkt::serialise_option"],"bounds":"option value length 511 (two full chunks + 1), bytes symbolic","oracle":"RFC 2132/3396 reference decoder returns the original value","covers":1,"unwind":1040}
    #[kani::proof]
    #[kani::unwind(1040)]
    fn c12_option_encode_511() {
        option_roundtrip::<511>(false);
    }

    /// VERIF: {"p":"C12","tier":"quick","fns":["dhcp::dhcppkt::serialise_option"],"bounds":"option value length 255: option code symbolic, value bytes symbolic at offsets {0,254,255,256,last} and concrete elsewhere","oracle":"RFC 2132/3396 reference decoder returns the original value (any split into <=255-octet instances is accepted)","covers":1,"unwind":520}
    #[kani::proof]
    #[kani::unwind(520)]
    fn c12_option_encode_sparse_255() {
        option_roundtrip::<255>(true);
    }

    /// VERIF: {"p":"C12","tier":"quick","fns":["dhcp::dhcppkt::serialise_option"],"bounds":"option value length 256: option code symbolic, value bytes symbolic at offsets {0,254,255,256,last} and concrete elsewhere","oracle":"RFC 2132/3396 reference decoder returns the original value (any split into <=255-octet instances is accepted)","covers":1,"unwind":522}
    #[kani::proof]
    #[kani::unwind(522)]
    fn c12_option_encode_sparse_256() {
        option_roundtrip::<256>(true);
    }

    /// VERIF: {"p":"C12","tier":"thorough","fns":["dhcp::dhcppkt::serialise_option"],"bounds":"option value length 300: option code symbolic, value bytes symbolic at offsets {0,254,255,256,last} and concrete elsewhere","oracle":"RFC 2132/3396 reference decoder returns the original value (any split into <=255-octet instances is accepted)","covers":1,"unwind":610}
    #[kani::proof]
    #[kani::unwind(610)]
    fn c12_option_encode_sparse_300() {
        option_roundtrip::<300>(true);
    }

    fn header_roundtrip<const H: usize, const S: usize, const F: usize>() {
        let chaddr: [u8; H] = kani::any();
        let sname: [u8; S] = kani::any();
        let file: [u8; F] = kani::any();
        let mut i = 0;
        while i < S {
            kani::assume(sname[i] != 0);
            i += 1;
        }
        i = 0;
        while i < F {
            kani::assume(file[i] != 0);
            i += 1;
        }
        let m = Dhcp {
            op: DhcpOp(kani::any()),
            htype: HwType(kani::any()),
            hlen: H as u8,
            hops: kani::any(),
            xid: kani::any(),
            secs: kani::any(),
            flags: kani::any(),
            ciaddr: net::Ipv4Addr::from(kani::any::<u32>()),
            yiaddr: net::Ipv4Addr::from(kani::any::<u32>()),
            siaddr: net::Ipv4Addr::from(kani::any::<u32>()),
            giaddr: net::Ipv4Addr::from(kani::any::<u32>()),
            chaddr: chaddr.to_vec(),
            sname: sname.to_vec(),
            file: file.to_vec(),
            options: DhcpOptions { other: collections::HashMap::with_hasher(fixed_random_state()) },
        };
        let bytes = m.serialise();
        assert!(bytes.len() == 241, "fixed header + magic + end option");
        let back = parse(&bytes);
        match back {
            Ok(d) => {
                kani::cover!(true, "decoded");
                assert!(d.op == m.op && d.htype == m.htype && d.hlen == m.hlen && d.hops == m.hops, "op/htype/hlen/hops survive");
                assert!(d.xid == m.xid && d.secs == m.secs && d.flags == m.flags, "xid/secs/flags survive");
                assert!(d.ciaddr == m.ciaddr && d.yiaddr == m.yiaddr && d.siaddr == m.siaddr && d.giaddr == m.giaddr, "addresses survive");
                assert!(d.chaddr.len() == H, "chaddr length survives");
                let mut i = 0;
                while i < H {
                    assert!(d.chaddr[i] == chaddr[i], "chaddr bytes survive");
                    i += 1;
                }
                assert!(d.sname.len() == S && d.file.len() == F, "sname/file lengths survive");
                i = 0;
                while i < S {
                    assert!(d.sname[i] == sname[i], "sname bytes survive");
                    i += 1;
                }
                i = 0;
                while i < F {
                    assert!(d.file[i] == file[i], "file bytes survive");
                    i += 1;
                }
                assert!(d.options.other.is_empty(), "no options invented");
                std::mem::forget(d);
            }
            Err(_) => {
                assert!(false, "serialised message must decode");
            }
        }
        std::mem::forget(bytes);
        std::mem::forget(m);
    }

    /// VERIF: {"p":"C12","tier":"thorough","fns":["dhcp::dhcppkt::Dhcp::serialise","dhcp::dhcppkt::serialise_fixed","dhcp::dhcppkt::parse","dhcp::dhcppkt::parse_options (end marker only)","dhcp::dhcppkt::null_terminated","pktparser::Buffer::*"],"bounds":"every value of every fixed header field, hardware address length 6 (bytes symbolic), sname 2 and file 3 NUL-free symbolic bytes, empty option map","oracle":"parse(serialise(m)) == m field by field","stubs":["std::hash::RandomState::new -> fixed keys (map is created, never filled)"],"covers":1,"unwind":130}
    #[kani::proof]
    #[kani::unwind(130)]
    #[kani::stub(std::hash::RandomState::new, fixed_random_state)]
    fn c12_header_roundtrip_h6() {
        header_roundtrip::<6, 2, 3>();
    }

    /// VERIF: {"p":"C12","tier":"thorough","fns":["dhcp::dhcppkt::Dhcp::serialise","dhcp::dhcppkt::parse"],"bounds":"as c12_header_roundtrip_h6 with hardware address length 0 and empty sname/file","oracle":"parse(serialise(m)) == m field by field","stubs":["std::hash::RandomState::new -> fixed keys"],"covers":1,"unwind":130}
    #[kani::proof]
    #[kani::unwind(130)]
    #[kani::stub(std::hash::RandomState::new, fixed_random_state)]
    fn c12_header_roundtrip_h0() {
        header_roundtrip::<0, 0, 0>();
    }

    /// VERIF: {"p":"C12","tier":"thorough","fns":["dhcp::dhcppkt::Dhcp::serialise","dhcp::dhcppkt::parse"],"bounds":"as c12_header_roundtrip_h6 with hardware address length 16 (maximum), sname 1 / file 1","oracle":"parse(serialise(m)) == m field by field","stubs":["std::hash::RandomState::new -> fixed keys"],"covers":1,"unwind":130}
    #[kani::proof]
    #[kani::unwind(130)]
    #[kani::stub(std::hash::RandomState::new, fixed_random_state)]
    fn c12_header_roundtrip_h16() {
        header_roundtrip::<16, 1, 1>();
    }

    fn parse_len<const N: usize>() {
        let mut pkt: [u8; N] = kani::any();
        // keep the option area free of real options (they go through HashMap::entry - not reachable for Kani)
        if N > 240 {
            kani::assume(pkt[240] == 0 || pkt[240] == 255);
        }
        if N > 241 {
            pkt[241] = 255;
        }
        let r = parse(&pkt);
        if N < 241 {
            assert!(r.is_err(), "a message shorter than header + magic + end marker is rejected");
        }
        kani::cover!(N < 241 || r.is_ok(), "accepted");
        kani::cover!(N < 241 || matches!(r, Err(ParseError::InvalidPacket)), "hlen > 16 rejected");
        kani::cover!(N < 241 || matches!(r, Err(ParseError::WrongMagic)), "wrong magic rejected");
        std::mem::forget(r);
    }

    /// VERIF: {"p":"C05","tier":"quick","fns":["dhcp::dhcppkt::parse","pktparser::Buffer::{get_u8,get_be16,get_be32,get_ipv4,get_vec}"],"bounds":"truncation points {0,1,3,4,7,8,11,12,27,28,43,44} of a fully symbolic DHCP message (inside/at the end of every fixed field up to chaddr)","oracle":"returns Err (never panics, overflows or indexes out of bounds)","stubs":["std::hash::RandomState::new -> fixed keys"],"covers":3,"unwind":20}
    #[kani::proof]
    #[kani::unwind(20)]
    #[kani::stub(std::hash::RandomState::new, fixed_random_state)]
    fn c05_dhcp_parse_truncated_early() {
        match kani::any::<u8>() {
            0 => parse_len::<0>(),
            1 => parse_len::<1>(),
            2 => parse_len::<3>(),
            3 => parse_len::<4>(),
            4 => parse_len::<7>(),
            5 => parse_len::<8>(),
            6 => parse_len::<11>(),
            7 => parse_len::<12>(),
            8 => parse_len::<27>(),
            9 => parse_len::<28>(),
            10 => parse_len::<43>(),
            _ => parse_len::<44>(),
        }
    }

    /// VERIF: {"p":"C05","tier":"quick","fns":["dhcp::dhcppkt::parse","dhcp::dhcppkt::null_terminated","pktparser::Buffer::get_vec"],"bounds":"truncation points {107,108,235,236,239,240} of a fully symbolic DHCP message (inside/at the end of sname, file, magic; missing end marker)","oracle":"returns Err (never panics)","stubs":["std::hash::RandomState::new -> fixed keys"],"covers":3,"unwind":130}
    #[kani::proof]
    #[kani::unwind(130)]
    #[kani::stub(std::hash::RandomState::new, fixed_random_state)]
    fn c05_dhcp_parse_truncated_late() {
        match kani::any::<u8>() {
            0 => parse_len::<107>(),
            1 => parse_len::<108>(),
            2 => parse_len::<235>(),
            3 => parse_len::<236>(),
            4 => parse_len::<239>(),
            _ => parse_len::<240>(),
        }
    }

    /// VERIF: {"p":"C05","tier":"quick","fns":["dhcp::dhcppkt::parse","dhcp::dhcppkt::parse_options (pad/end only)","dhcp::dhcppkt::null_terminated","pktparser::Buffer::*"],"bounds":"complete 241-octet message, every header octet symbolic (all hlen 0..255, any sname/file contents, any magic); option area = one pad-or-end octet","oracle":"returns Ok or Err: no panic (chaddr[0..hlen] slice, NUL search), hlen > 16 rejected","stubs":["std::hash::RandomState::new -> fixed keys (map created, never filled)"],"covers":3,"unwind":130}
    #[kani::proof]
    #[kani::unwind(130)]
    #[kani::stub(std::hash::RandomState::new, fixed_random_state)]
    fn c05_dhcp_parse_header_any_bytes() {
        parse_len::<241>();
    }
}
