// Kani harnesses for crates/erbium-net/src/packet.rs (C12: Ethernet/IPv4/UDP framing).
#[cfg(kani)]
mod k {
    use super::super::*;

    // independent one's-complement sum over big-endian 16-bit words (odd tail padded with zero)
    fn ocsum(data: &[u8], mut acc: u64) -> u64 {
        let mut i = 0;
        while i + 1 < data.len() {
            acc += ((data[i] as u64) << 8) | data[i + 1] as u64;
            i += 2;
        }
        if i < data.len() {
            acc += (data[i] as u64) << 8;
        }
        acc
    }
    fn w(d: &[u8], i: usize) -> u64 {
        ((d[i] as u64) << 8) | d[i + 1] as u64
    }
    // 20-byte IPv4 header, unrolled (keeps the harness's own loops below the unwind bound of the code under test)
    fn ocsum20(d: &[u8]) -> u64 {
        w(d, 0) + w(d, 2) + w(d, 4) + w(d, 6) + w(d, 8) + w(d, 10) + w(d, 12) + w(d, 14) + w(d, 16) + w(d, 18)
    }
    fn fold(mut acc: u64) -> u16 {
        while acc > 0xffff {
            acc = (acc >> 16) + (acc & 0xffff);
        }
        acc as u16
    }

    struct In<const N: usize> {
        payload: [u8; N],
        sip: u32,
        dip: u32,
        sport: u16,
        dport: u16,
        smac: [u8; 6],
        dmac: [u8; 6],
    }

    fn build<const N: usize>() -> (In<N>, Vec<u8>) {
        let i = In::<N> {
            payload: kani::any(),
            sip: kani::any(),
            dip: kani::any(),
            sport: kani::any(),
            dport: kani::any(),
            smac: kani::any(),
            dmac: kani::any(),
        };
        let src = Inet4Addr::from(net::SocketAddrV4::new(net::Ipv4Addr::from(i.sip), i.sport));
        let dst = Inet4Addr::from(net::SocketAddrV4::new(net::Ipv4Addr::from(i.dip), i.dport));
        let f = Fragment::new_udp4(src, &i.smac, dst, &i.dmac, Tail::Payload(&i.payload));
        let b = f.flatten();
        std::mem::forget(f);
        (i, b)
    }

    // layout, lengths, addresses, ports, payload (no checksum reasoning)
    fn frame_layout<const N: usize>() {
        let (inp, b) = build::<N>();
        assert!(b.len() == 14 + 20 + 8 + N, "frame length = eth + ip + udp + payload");
        let mut i = 0;
        while i < 6 {
            assert!(b[i] == inp.dmac[i], "ethernet destination");
            assert!(b[6 + i] == inp.smac[i], "ethernet source");
            i += 1;
        }
        assert!(b[12] == 0x08 && b[13] == 0x00, "ethertype IPv4");
        let ip = &b[14..34];
        assert!(ip[0] == 0x45, "version 4, ihl 5");
        assert!(((ip[2] as usize) << 8 | ip[3] as usize) == 20 + 8 + N, "ipv4 total length");
        assert!(ip[6] & 0x20 == 0 && ip[6] & 0x1f == 0 && ip[7] == 0, "not a fragment (MF clear, offset 0)");
        assert!(ip[8] >= 1, "ttl non-zero");
        assert!(ip[9] == 17, "protocol UDP");
        let s = inp.sip.to_be_bytes();
        let d = inp.dip.to_be_bytes();
        i = 0;
        while i < 4 {
            assert!(ip[12 + i] == s[i], "ipv4 source address");
            assert!(ip[16 + i] == d[i], "ipv4 destination address");
            i += 1;
        }
        let udp = &b[34..];
        assert!(((udp[0] as u16) << 8 | udp[1] as u16) == inp.sport, "udp source port");
        assert!(((udp[2] as u16) << 8 | udp[3] as u16) == inp.dport, "udp destination port");
        assert!(((udp[4] as usize) << 8 | udp[5] as usize) == 8 + N, "udp length");
        i = 0;
        while i < N {
            assert!(udp[8 + i] == inp.payload[i], "payload unmodified");
            i += 1;
        }
        kani::cover!(inp.sport != inp.dport, "distinct ports");
        std::mem::forget(b);
    }

    fn frame_ipck<const N: usize>() {
        let (_inp, b) = build::<N>();
        kani::cover!(b[24] != 0 || b[25] != 0, "non-zero header checksum");
        assert!(fold(ocsum20(&b[14..34])) == 0xffff, "ipv4 header checksum verifies");
        std::mem::forget(b);
    }

    fn frame_udpck<const N: usize>() {
        let (inp, b) = build::<N>();
        let udp = &b[34..];
        let ck = (udp[6] as u16) << 8 | udp[7] as u16;
        let mut acc = (inp.sip >> 16) as u64 + (inp.sip & 0xffff) as u64 + (inp.dip >> 16) as u64 + (inp.dip & 0xffff) as u64;
        acc += 17 + (8 + N) as u64;
        acc += w(udp, 0) + w(udp, 2) + w(udp, 4) + w(udp, 6);
        acc = ocsum(&udp[8..], acc);
        kani::cover!(ck != 0, "checksum present");
        assert!(fold(acc) == 0xffff, "udp checksum verifies over pseudo-header + segment");
        std::mem::forget(b);
    }

    /// VERIF: {"p":"C12","tier":"thorough","fns":["packet::Fragment::new_udp4","packet::Fragment::new_ipv4","packet::Fragment::new_ethernet","packet::Fragment::flatten","packet::partial_netsum","packet::finish_netsum"],"bounds":"payload of 0 symbolic bytes; all addresses, ports and MAC addresses symbolic","oracle":"frame length, MACs, ethertype, IPv4 version/ihl/total length/fragment fields/ttl/protocol/addresses, UDP ports/length, payload bytes unchanged","covers":1,"unwind":12}
    #[kani::proof]
    #[kani::unwind(12)]
    fn c12_udp4_frame_layout_p0() {
        frame_layout::<0>();
    }

    /// VERIF: {"p":"C12","tier":"thorough","fns":["packet::Fragment::new_udp4","packet::Fragment::new_ipv4","packet::Fragment::new_ethernet","packet::Fragment::flatten","packet::partial_netsum","packet::finish_netsum"],"bounds":"payload of 0 symbolic bytes; all addresses, ports and MAC addresses symbolic","oracle":"IPv4 header checksum verifies (RFC 1071 sum over the 20 header bytes == 0xffff), computed by an independent summation","covers":1,"unwind":12}
    #[kani::proof]
    #[kani::unwind(12)]
    fn c12_udp4_frame_ipck_p0() {
        frame_ipck::<0>();
    }

    /// VERIF: {"p":"C12","tier":"experimental","fns":["packet::Fragment::new_udp4","packet::Fragment::new_ipv4","packet::Fragment::new_ethernet","packet::Fragment::flatten","packet::partial_netsum","packet::finish_netsum"],"bounds":"payload of 0 symbolic bytes; all addresses, ports and MAC addresses symbolic","oracle":"UDP checksum verifies over pseudo-header + segment (RFC 768), computed by an independent summation","covers":1,"unwind":12}
    #[kani::proof]
    #[kani::unwind(12)]
    fn c12_udp4_frame_udpck_p0() {
        frame_udpck::<0>();
    }

    /// VERIF: {"p":"C12","tier":"quick","fns":["packet::Fragment::new_udp4","packet::Fragment::new_ipv4","packet::Fragment::new_ethernet","packet::Fragment::flatten","packet::partial_netsum","packet::finish_netsum"],"bounds":"payload of 1 symbolic bytes; all addresses, ports and MAC addresses symbolic","oracle":"frame length, MACs, ethertype, IPv4 version/ihl/total length/fragment fields/ttl/protocol/addresses, UDP ports/length, payload bytes unchanged","covers":1,"unwind":12}
    #[kani::proof]
    #[kani::unwind(12)]
    fn c12_udp4_frame_layout_p1() {
        frame_layout::<1>();
    }

    /// VERIF: {"p":"C12","tier":"thorough","fns":["packet::Fragment::new_udp4","packet::Fragment::new_ipv4","packet::Fragment::new_ethernet","packet::Fragment::flatten","packet::partial_netsum","packet::finish_netsum"],"bounds":"payload of 1 symbolic bytes; all addresses, ports and MAC addresses symbolic","oracle":"IPv4 header checksum verifies (RFC 1071 sum over the 20 header bytes == 0xffff), computed by an independent summation","covers":1,"unwind":12}
    #[kani::proof]
    #[kani::unwind(12)]
    fn c12_udp4_frame_ipck_p1() {
        frame_ipck::<1>();
    }

    /// VERIF: {"p":"C12","tier":"experimental","fns":["packet::Fragment::new_udp4","packet::Fragment::new_ipv4","packet::Fragment::new_ethernet","packet::Fragment::flatten","packet::partial_netsum","packet::finish_netsum"],"bounds":"payload of 1 symbolic bytes; all addresses, ports and MAC addresses symbolic","oracle":"UDP checksum verifies over pseudo-header + segment (RFC 768), computed by an independent summation","covers":1,"unwind":12}
    #[kani::proof]
    #[kani::unwind(12)]
    fn c12_udp4_frame_udpck_p1() {
        frame_udpck::<1>();
    }

    /// VERIF: {"p":"C12","tier":"thorough","fns":["packet::Fragment::new_udp4","packet::Fragment::new_ipv4","packet::Fragment::new_ethernet","packet::Fragment::flatten","packet::partial_netsum","packet::finish_netsum"],"bounds":"payload of 2 symbolic bytes; all addresses, ports and MAC addresses symbolic","oracle":"frame length, MACs, ethertype, IPv4 version/ihl/total length/fragment fields/ttl/protocol/addresses, UDP ports/length, payload bytes unchanged","covers":1,"unwind":12}
    #[kani::proof]
    #[kani::unwind(12)]
    fn c12_udp4_frame_layout_p2() {
        frame_layout::<2>();
    }

    /// VERIF: {"p":"C12","tier":"thorough","fns":["packet::Fragment::new_udp4","packet::Fragment::new_ipv4","packet::Fragment::new_ethernet","packet::Fragment::flatten","packet::partial_netsum","packet::finish_netsum"],"bounds":"payload of 2 symbolic bytes; all addresses, ports and MAC addresses symbolic","oracle":"IPv4 header checksum verifies (RFC 1071 sum over the 20 header bytes == 0xffff), computed by an independent summation","covers":1,"unwind":12}
    #[kani::proof]
    #[kani::unwind(12)]
    fn c12_udp4_frame_ipck_p2() {
        frame_ipck::<2>();
    }

    /// VERIF: {"p":"C12","tier":"experimental","fns":["packet::Fragment::new_udp4","packet::Fragment::new_ipv4","packet::Fragment::new_ethernet","packet::Fragment::flatten","packet::partial_netsum","packet::finish_netsum"],"bounds":"payload of 2 symbolic bytes; all addresses, ports and MAC addresses symbolic","oracle":"UDP checksum verifies over pseudo-header + segment (RFC 768), computed by an independent summation","covers":1,"unwind":12}
    #[kani::proof]
    #[kani::unwind(12)]
    fn c12_udp4_frame_udpck_p2() {
        frame_udpck::<2>();
    }

    /// VERIF: {"p":"C12","tier":"thorough","fns":["packet::Fragment::new_udp4","packet::Fragment::new_ipv4","packet::Fragment::new_ethernet","packet::Fragment::flatten","packet::partial_netsum","packet::finish_netsum"],"bounds":"payload of 3 symbolic bytes; all addresses, ports and MAC addresses symbolic","oracle":"frame length, MACs, ethertype, IPv4 version/ihl/total length/fragment fields/ttl/protocol/addresses, UDP ports/length, payload bytes unchanged","covers":1,"unwind":12}
    #[kani::proof]
    #[kani::unwind(12)]
    fn c12_udp4_frame_layout_p3() {
        frame_layout::<3>();
    }

    /// VERIF: {"p":"C12","tier":"thorough","fns":["packet::Fragment::new_udp4","packet::Fragment::new_ipv4","packet::Fragment::new_ethernet","packet::Fragment::flatten","packet::partial_netsum","packet::finish_netsum"],"bounds":"payload of 3 symbolic bytes; all addresses, ports and MAC addresses symbolic","oracle":"IPv4 header checksum verifies (RFC 1071 sum over the 20 header bytes == 0xffff), computed by an independent summation","covers":1,"unwind":12}
    #[kani::proof]
    #[kani::unwind(12)]
    fn c12_udp4_frame_ipck_p3() {
        frame_ipck::<3>();
    }

    /// VERIF: {"p":"C12","tier":"experimental","fns":["packet::Fragment::new_udp4","packet::Fragment::new_ipv4","packet::Fragment::new_ethernet","packet::Fragment::flatten","packet::partial_netsum","packet::finish_netsum"],"bounds":"payload of 3 symbolic bytes; all addresses, ports and MAC addresses symbolic","oracle":"UDP checksum verifies over pseudo-header + segment (RFC 768), computed by an independent summation","covers":1,"unwind":12}
    #[kani::proof]
    #[kani::unwind(12)]
    fn c12_udp4_frame_udpck_p3() {
        frame_udpck::<3>();
    }

    /// VERIF: {"p":"C12","tier":"thorough","fns":["packet::Fragment::new_udp4","packet::Fragment::new_ipv4","packet::Fragment::new_ethernet","packet::Fragment::flatten","packet::partial_netsum","packet::finish_netsum"],"bounds":"payload of 4 symbolic bytes; all addresses, ports and MAC addresses symbolic","oracle":"frame length, MACs, ethertype, IPv4 version/ihl/total length/fragment fields/ttl/protocol/addresses, UDP ports/length, payload bytes unchanged","covers":1,"unwind":12}
    #[kani::proof]
    #[kani::unwind(12)]
    fn c12_udp4_frame_layout_p4() {
        frame_layout::<4>();
    }

    /// VERIF: {"p":"C12","tier":"thorough","fns":["packet::Fragment::new_udp4","packet::Fragment::new_ipv4","packet::Fragment::new_ethernet","packet::Fragment::flatten","packet::partial_netsum","packet::finish_netsum"],"bounds":"payload of 4 symbolic bytes; all addresses, ports and MAC addresses symbolic","oracle":"IPv4 header checksum verifies (RFC 1071 sum over the 20 header bytes == 0xffff), computed by an independent summation","covers":1,"unwind":12}
    #[kani::proof]
    #[kani::unwind(12)]
    fn c12_udp4_frame_ipck_p4() {
        frame_ipck::<4>();
    }

    /// VERIF: {"p":"C12","tier":"experimental","fns":["packet::Fragment::new_udp4","packet::Fragment::new_ipv4","packet::Fragment::new_ethernet","packet::Fragment::flatten","packet::partial_netsum","packet::finish_netsum"],"bounds":"payload of 4 symbolic bytes; all addresses, ports and MAC addresses symbolic","oracle":"UDP checksum verifies over pseudo-header + segment (RFC 768), computed by an independent summation","covers":1,"unwind":12}
    #[kani::proof]
    #[kani::unwind(12)]
    fn c12_udp4_frame_udpck_p4() {
        frame_udpck::<4>();
    }

    /// VERIF: {"p":"C12","tier":"thorough","fns":["packet::Fragment::new_udp4","packet::Fragment::new_ipv4","packet::Fragment::new_ethernet","packet::Fragment::flatten","packet::partial_netsum","packet::finish_netsum"],"bounds":"payload of 7 symbolic bytes; all addresses, ports and MAC addresses symbolic","oracle":"frame length, MACs, ethertype, IPv4 version/ihl/total length/fragment fields/ttl/protocol/addresses, UDP ports/length, payload bytes unchanged","covers":1,"unwind":12}
    #[kani::proof]
    #[kani::unwind(12)]
    fn c12_udp4_frame_layout_p7() {
        frame_layout::<7>();
    }

    /// VERIF: {"p":"C12","tier":"thorough","fns":["packet::Fragment::new_udp4","packet::Fragment::new_ipv4","packet::Fragment::new_ethernet","packet::Fragment::flatten","packet::partial_netsum","packet::finish_netsum"],"bounds":"payload of 7 symbolic bytes; all addresses, ports and MAC addresses symbolic","oracle":"IPv4 header checksum verifies (RFC 1071 sum over the 20 header bytes == 0xffff), computed by an independent summation","covers":1,"unwind":12}
    #[kani::proof]
    #[kani::unwind(12)]
    fn c12_udp4_frame_ipck_p7() {
        frame_ipck::<7>();
    }

    /// VERIF: {"p":"C12","tier":"experimental","fns":["packet::Fragment::new_udp4","packet::Fragment::new_ipv4","packet::Fragment::new_ethernet","packet::Fragment::flatten","packet::partial_netsum","packet::finish_netsum"],"bounds":"payload of 7 symbolic bytes; all addresses, ports and MAC addresses symbolic","oracle":"UDP checksum verifies over pseudo-header + segment (RFC 768), computed by an independent summation","covers":1,"unwind":12}
    #[kani::proof]
    #[kani::unwind(12)]
    fn c12_udp4_frame_udpck_p7() {
        frame_udpck::<7>();
    }


    // ---- the checksum kernels on their own (quick): the frame harnesses above need minutes, these need seconds ----
    /// VERIF: {"p":"C12","tier":"quick","fns":["packet::finish_netsum"],"bounds":"all 2^32 partial sums","oracle":"RFC 1071: the one's-complement sum folded to 16 bits is congruent to the partial sum modulo 65535 (and is 0 only for a zero sum), and the result is its complement - whatever number of carries the folding needs","covers":2,"unwind":4}
    #[kani::proof]
    #[kani::unwind(4)]
    fn c12_checksum_fold_all_sums() {
        let sum: u32 = kani::any();
        let got = finish_netsum(sum);
        let folded = !got as u32; // the 16-bit one's-complement sum before complementing
        kani::cover!(sum > 0x1_0000 && (sum >> 16) + (sum & 0xffff) > 0xffff, "needs a second fold");
        kani::cover!(sum == 0, "zero");
        assert!(folded % 65535 == sum % 65535, "folded sum is congruent to the partial sum modulo 2^16 - 1");
        assert!((folded == 0) == (sum == 0), "end-around carry: only a zero sum folds to zero");
    }

    /// VERIF: {"p":"C12","tier":"quick","fns":["packet::partial_netsum"],"bounds":"buffers of 0..=5 octets (all contents), any starting sum below 2^24","oracle":"RFC 1071: sum of the big-endian 16-bit words, an odd trailing octet padded with a zero octet on the right","covers":1,"unwind":5}
    #[kani::proof]
    #[kani::unwind(5)]
    fn c12_partial_sum_of_short_buffers() {
        let buf: [u8; 5] = kani::any();
        let n: usize = kani::any();
        kani::assume(n <= 5);
        let start: u32 = kani::any();
        kani::assume(start < (1 << 24));
        let got = partial_netsum(start, &buf[..n]);
        let w = |i: usize| -> u32 { if i < n { buf[i] as u32 } else { 0 } };
        let want = start + ((w(0) << 8) | w(1)) + ((w(2) << 8) | w(3)) + (w(4) << 8);
        kani::cover!(n == 5, "odd length");
        assert!(got == want, "partial sum = sum of big-endian words, odd octet zero-padded");
    }
}
