// Kani harnesses for crates/erbium-core/src/radv/config.rs (C19: the router-advertisement section of the
// configuration is parsed totally).  Yaml values are built by hand; mappings are either empty (no insert
// needed) or hold one or two CONCRETE string keys (the SipHash of a concrete key folds to a constant).
#[cfg(kani)]
mod k {
    use super::super::*;
    include!(concat!(env!("ISOMER_ERBIUM_VERIF_DIR"), "/_common.rs"));
    use yaml_rust::yaml::Yaml;

    fn is_invalid_config<T>(r: &Result<T, Error>) -> bool {
        matches!(r, Err(Error::InvalidConfig(_)))
    }

    const KIND_REAL: u8 = 0;
    const KIND_INT: u8 = 1;
    const KIND_STR: u8 = 2;
    const KIND_BOOL: u8 = 3;
    const KIND_ARR_NULL: u8 = 4; // [~]
    const KIND_ARR_STRS: u8 = 5; // ["a", "b"]
    const KIND_ALIAS: u8 = 6;
    const KIND_NULL: u8 = 7;
    const KIND_BAD: u8 = 8;
    const KIND_ARR_EMPTY: u8 = 9; // []
    fn yaml_of_kind(k: u8) -> Yaml {
        match k {
            KIND_REAL => Yaml::Real(String::from("1.5")),
            KIND_INT => Yaml::Integer(kani::any()),
            KIND_STR => Yaml::String(String::from("x")),
            KIND_BOOL => Yaml::Boolean(kani::any()),
            KIND_ARR_NULL => Yaml::Array(vec![Yaml::Null]),
            KIND_ARR_STRS => Yaml::Array(vec![Yaml::String(String::from("a")), Yaml::String(String::from("b"))]),
            KIND_ALIAS => Yaml::Alias(kani::any()),
            KIND_NULL => Yaml::Null,
            KIND_BAD => Yaml::BadValue,
            _ => Yaml::Array(Vec::new()),
        }
    }

    // every mapping-typed parser of the RA section on a value that is not a mapping
    fn non_hash_on(k: u8) {
        let y = yaml_of_kind(k);
        let r = parse_prefix("prefixes", &y);
        assert!(is_invalid_config(&r), "radv parse_prefix refuses a non-mapping with InvalidConfig");
        std::mem::forget(r);
        let r = parse_rdnss("dns-servers", &y);
        assert!(is_invalid_config(&r), "radv parse_rdnss refuses a non-mapping with InvalidConfig");
        std::mem::forget(r);
        let r = parse_dnssl("dns-search", &y);
        assert!(is_invalid_config(&r), "radv parse_dnssl refuses a non-mapping with InvalidConfig");
        std::mem::forget(r);
        let r = parse_pref64("pref64", &y);
        assert!(is_invalid_config(&r), "radv parse_pref64 refuses a non-mapping with InvalidConfig");
        std::mem::forget(r);
        let r = parse_interface("eth0", &y);
        assert!(is_invalid_config(&r), "radv parse_interface refuses a non-mapping with InvalidConfig");
        std::mem::forget(r);
        let r = parse(&y);
        assert!(is_invalid_config(&r), "radv parse refuses a non-mapping with InvalidConfig");
        std::mem::forget(r);
        let r = parse_domain("domains", &y);
        match k {
            KIND_NULL => assert!(matches!(r, Ok(None)), "parse_domain: null is None"),
            KIND_STR => assert!(matches!(&r, Ok(Some(s)) if s.len() == 1), "parse_domain returns the string"),
            _ => assert!(is_invalid_config(&r), "parse_domain refuses a non-string with InvalidConfig"),
        }
        std::mem::forget(r);
        std::mem::forget(y);
    }

    /// VERIF: {"p":"C19","tier":"quick","fns":["radv::config::parse_prefix","radv::config::parse_rdnss","radv::config::parse_dnssl","radv::config::parse_pref64","radv::config::parse_interface","radv::config::parse","radv::config::parse_domain","config::type_to_name"],"bounds":"each parser on one value of every non-mapping Yaml variant (Real, Integer(any), String, Boolean(any), `[~]`, `[\"a\",\"b\"]`, Alias(any), Null, BadValue); every array NON-empty","oracle":"Err(InvalidConfig) (parse_domain: string => Ok(Some), null => Ok(None)); never a panic","stubs":["alloc::fmt::format -> empty string (message text only)"],"covers":2,"unwind":6}
    #[kani::proof]
    #[kani::unwind(6)]
    #[kani::stub(alloc::fmt::format, empty_format)]
    fn c19_radv_parsers_non_mapping() {
        let k: u8 = kani::any();
        kani::cover!(k == 1, "integer where a mapping is expected");
        kani::cover!(k == 5, "list where a mapping is expected");
        match k {
            0 => non_hash_on(KIND_REAL),
            1 => non_hash_on(KIND_INT),
            2 => non_hash_on(KIND_STR),
            3 => non_hash_on(KIND_BOOL),
            4 => non_hash_on(KIND_ARR_NULL),
            5 => non_hash_on(KIND_ARR_STRS),
            6 => non_hash_on(KIND_ALIAS),
            7 => non_hash_on(KIND_NULL),
            _ => non_hash_on(KIND_BAD),
        }
    }

    /// VERIF: {"p":"C19","tier":"quick","fns":["radv::config::parse_prefix","radv::config::parse_rdnss","radv::config::parse_dnssl","radv::config::parse_pref64","radv::config::parse_interface","radv::config::parse","radv::config::parse_domain","config::type_to_name"],"bounds":"each parser on the empty sequence `[]` (e.g. `router-advertisements: { eth0: [] }`, `pref64: []`, `prefixes: [[]]`)","oracle":"Err(InvalidConfig), never a panic","stubs":["alloc::fmt::format -> empty string (message text only)"],"covers":1,"unwind":6}
    #[kani::proof]
    #[kani::unwind(6)]
    #[kani::stub(alloc::fmt::format, empty_format)]
    fn c19_radv_parsers_empty_array() {
        kani::cover!(kani::any::<u8>() == 0xA5, "reached");
        non_hash_on(KIND_ARR_EMPTY);
    }

    /// VERIF: {"p":"C19","tier":"quick","fns":["radv::config::parse_rdnss","radv::config::parse_dnssl","radv::config::parse_pref64","radv::config::parse_interface","radv::config::parse"],"bounds":"each parser on the empty mapping `{}`","oracle":"accepted with every default: no lifetime/addresses, no pref64, interface with hop-limit 0, no prefixes, nothing specified; never a panic","stubs":["alloc::fmt::format -> empty string (message text only)","std::hash::RandomState::new -> fixed keys (creating the empty Hash)"],"covers":1,"unwind":6}
    #[kani::proof]
    #[kani::unwind(6)]
    #[kani::stub(alloc::fmt::format, empty_format)]
    #[kani::stub(std::hash::RandomState::new, fixed_random_state)]
    fn c19_radv_parsers_empty_mapping() {
        let y = Yaml::Hash(Default::default());
        let r = parse_rdnss("dns-servers", &y);
        assert!(matches!(r, Ok((ConfigValue::NotSpecified, ConfigValue::NotSpecified))), "dns-servers: the empty mapping specifies nothing");
        std::mem::forget(r);
        let r = parse_dnssl("dns-search", &y);
        assert!(matches!(r, Ok((ConfigValue::NotSpecified, ConfigValue::NotSpecified))), "dns-search: the empty mapping specifies nothing");
        std::mem::forget(r);
        let r = parse_pref64("pref64", &y);
        assert!(matches!(r, Ok(None)), "pref64: the empty mapping is no pref64");
        std::mem::forget(r);
        let r = parse_interface("eth0", &y);
        match &r {
            Ok(Some(i)) => {
                assert!(i.hoplimit == 0 && !i.managed && !i.other && i.prefixes.is_empty() && i.pref64.is_none(), "eth0: the empty mapping takes every default");
                assert!(matches!(i.mtu, ConfigValue::NotSpecified) && matches!(i.lifetime, ConfigValue::NotSpecified), "eth0: the empty mapping specifies nothing");
            }
            _ => assert!(false, "eth0: the empty mapping is accepted"),
        }
        std::mem::forget(r);
        let r = parse(&y);
        assert!(matches!(&r, Ok(Some(c)) if c.interfaces.is_empty()), "router-advertisements: the empty mapping has no interfaces");
        kani::cover!(r.is_ok(), "accepted");
        std::mem::forget(r);
        std::mem::forget(y);
    }

    /// VERIF: {"p":"C19","tier":"quick","fns":["radv::config::parse_prefix"],"bounds":"a `prefixes` entry that is the empty mapping: `prefixes: [ {} ]`","oracle":"Ok or Err(InvalidConfig) (the manual says `prefix` 'defaults to no prefix'), never a panic","stubs":["alloc::fmt::format -> empty string (message text only)","std::hash::RandomState::new -> fixed keys (creating the empty Hash)"],"covers":1,"unwind":6}
    #[kani::proof]
    #[kani::unwind(6)]
    #[kani::stub(alloc::fmt::format, empty_format)]
    #[kani::stub(std::hash::RandomState::new, fixed_random_state)]
    fn c19_radv_parse_prefix_empty_mapping() {
        kani::cover!(kani::any::<u8>() == 0xA5, "reached");
        let y = Yaml::Hash(Default::default());
        let r = parse_prefix("prefixes", &y);
        assert!(matches!(r, Ok(_) | Err(Error::InvalidConfig(_))), "parse_prefix: a value or InvalidConfig");
        std::mem::forget(r);
        std::mem::forget(y);
    }

    // ---- mappings with one / two concrete keys -----------------------------------------------------------
    fn hash1(k: &str, v: Yaml) -> Yaml {
        let mut h = yaml_rust::yaml::Hash::new();
        h.insert(Yaml::String(String::from(k)), v);
        Yaml::Hash(h)
    }
    fn hash2(k1: &str, v1: Yaml, k2: &str, v2: Yaml) -> Yaml {
        let mut h = yaml_rust::yaml::Hash::new();
        h.insert(Yaml::String(String::from(k1)), v1);
        h.insert(Yaml::String(String::from(k2)), v2);
        Yaml::Hash(h)
    }
    fn ascii<const N: usize>() -> String {
        let b: [u8; N] = kani::any();
        let mut i = 0;
        while i < N {
            kani::assume(b[i] < 128);
            i += 1;
        }
        String::from(std::str::from_utf8(&b).unwrap())
    }

    /// VERIF: {"p":"C19","tier":"thorough","fns":["radv::config::parse_prefix","config::parse_duration","config::parse_boolean","config::parse_string_prefix6"],"bounds":"a `prefixes` entry with exactly one key, none of them a usable `prefix`: {valid: <any i64>}, {on-link: <any bool>}, {prefix: ~}","oracle":"Ok or Err(InvalidConfig), never a panic","stubs":["alloc::fmt::format -> empty string (message text only)","std::hash::RandomState::new -> fixed keys"],"covers":1,"unwind":12}
    #[kani::proof]
    #[kani::unwind(12)]
    #[kani::stub(alloc::fmt::format, empty_format)]
    #[kani::stub(std::hash::RandomState::new, fixed_random_state)]
    fn c19_radv_parse_prefix_without_prefix_key() {
        let w: u8 = kani::any();
        kani::cover!(w == 0xA5, "reached");
        let y = match w {
            0 => hash1("valid", Yaml::Integer(kani::any())),
            1 => hash1("on-link", Yaml::Boolean(kani::any())),
            _ => hash1("prefix", Yaml::Null),
        };
        let r = parse_prefix("prefixes", &y);
        assert!(matches!(r, Ok(_) | Err(Error::InvalidConfig(_))), "parse_prefix: a value or InvalidConfig");
        std::mem::forget(r);
        std::mem::forget(y);
    }

    fn prefix_entry<const N: usize>() -> Option<u8> {
        let mut s = String::from("fd00::/");
        s.push_str(&ascii::<N>());
        let y = hash2("prefix", Yaml::String(s), "valid", Yaml::Integer(kani::any()));
        let r = parse_prefix("prefixes", &y);
        assert!(matches!(r, Ok(Some(_)) | Err(Error::InvalidConfig(_))), "parse_prefix: a prefix or InvalidConfig");
        let mut acc = None;
        if let Ok(Some(p)) = &r {
            assert!(p.addr == std::net::Ipv6Addr::new(0xfd00, 0, 0, 0, 0, 0, 0, 0) && p.onlink && p.autonomous, "address and defaults");
            assert!(p.prefixlen <= 128, "an advertised IPv6 prefix has a length of at most 128 (RFC 4861 4.6.2: 0..128)");
            acc = Some(p.prefixlen);
        }
        std::mem::forget(r);
        std::mem::forget(y);
        acc
    }

    /// VERIF: {"p":"C19","tier":"thorough","fns":["radv::config::parse_prefix","config::parse_string_prefix6","config::str_prefix6","config::parse_duration"],"bounds":"`prefixes` entry {prefix: \"fd00::/\" + every ASCII string of length 1,2,3, valid: <any i64>}","oracle":"Ok(prefix) or Err(InvalidConfig), never a panic; an accepted prefix length is a valid IPv6 prefix length (<= 128) since it is copied verbatim into the Prefix Information option","stubs":["alloc::fmt::format -> empty string (message text only)","std::hash::RandomState::new -> fixed keys"],"covers":1,"unwind":16}
    #[kani::proof]
    #[kani::unwind(16)]
    #[kani::stub(alloc::fmt::format, empty_format)]
    #[kani::stub(std::hash::RandomState::new, fixed_random_state)]
    fn c19_radv_parse_prefix_accepted_lengths() {
        let n: u8 = kani::any();
        let acc = match n {
            0 => prefix_entry::<1>(),
            1 => prefix_entry::<2>(),
            _ => prefix_entry::<3>(),
        };
        kani::cover!(n == 1 && acc == Some(64), "fd00::/64 accepted");
    }

    /// VERIF: {"p":"C19","tier":"thorough","fns":["radv::config::parse_interface","config::parse_duration","config::parse_num::<u8>","config::parse_num::<u32>"],"bounds":"interface mapping with exactly one key out of {hop-limit, mtu, lifetime, reachable, retransmit, max-router-advertisement-interval} whose value is Yaml::Integer(any i64)","oracle":"Ok or Err(InvalidConfig), never a panic; hop-limit accepted exactly in 0..=255, mtu exactly in 0..=2^32-1, max interval exactly in 4..=1800 s (the bounds the code's own messages quote from RFC 4861 6.2.1)","stubs":["alloc::fmt::format -> empty string (message text only)","std::hash::RandomState::new -> fixed keys"],"covers":2,"unwind":12}
    #[kani::proof]
    #[kani::unwind(12)]
    #[kani::stub(alloc::fmt::format, empty_format)]
    #[kani::stub(std::hash::RandomState::new, fixed_random_state)]
    fn c19_radv_parse_interface_one_integer_key() {
        let w: u8 = kani::any();
        let i: i64 = kani::any();
        let y = match w {
            0 => hash1("hop-limit", Yaml::Integer(i)),
            1 => hash1("mtu", Yaml::Integer(i)),
            2 => hash1("lifetime", Yaml::Integer(i)),
            3 => hash1("reachable", Yaml::Integer(i)),
            4 => hash1("retransmit", Yaml::Integer(i)),
            _ => hash1("max-router-advertisement-interval", Yaml::Integer(i)),
        };
        let r = parse_interface("eth0", &y);
        assert!(matches!(r, Ok(Some(_)) | Err(Error::InvalidConfig(_))), "parse_interface: an interface or InvalidConfig");
        kani::cover!(w == 0 && r.is_ok(), "hop-limit accepted");
        kani::cover!(w == 5 && r.is_ok(), "max interval accepted");
        match w {
            0 => assert!(r.is_ok() == (0..=255).contains(&i), "hop-limit is an octet"),
            1 => assert!(r.is_ok() == (0..=u32::MAX as i64).contains(&i), "mtu is a u32"),
            2 | 3 | 4 => (),
            _ => assert!(r.is_ok() == (4..=1800).contains(&i), "max-router-advertisement-interval accepted exactly within 4..=1800 s"),
        }
        std::mem::forget(r);
        std::mem::forget(y);
    }

    /// VERIF: {"p":"C19","tier":"thorough","fns":["radv::config::parse_interface","config::parse_duration"],"bounds":"interface mapping {min-router-advertisement-interval: <any i64>}","oracle":"never a panic; accepted exactly within 3..=1350 s: the two error messages of the code itself say 'cannot be less than 3s' and 'cannot be larger than 1350s per RFC4861 section 6.2.1' (functional reading of 'a configuration or a DESCRIPTIVE error'; beyond plain totality)","stubs":["alloc::fmt::format -> empty string (message text only)","std::hash::RandomState::new -> fixed keys"],"covers":2,"unwind":12}
    #[kani::proof]
    #[kani::unwind(12)]
    #[kani::stub(alloc::fmt::format, empty_format)]
    #[kani::stub(std::hash::RandomState::new, fixed_random_state)]
    fn c19_radv_min_interval_range() {
        let i: i64 = kani::any();
        let y = hash1("min-router-advertisement-interval", Yaml::Integer(i));
        let r = parse_interface("eth0", &y);
        assert!(matches!(r, Ok(Some(_)) | Err(Error::InvalidConfig(_))), "parse_interface: an interface or InvalidConfig");
        kani::cover!(i == 2 && r.is_err(), "2 s refused");
        kani::cover!(i == 1350 && r.is_ok(), "1350 s accepted");
        assert!(r.is_ok() == (3..=1350).contains(&i), "min-router-advertisement-interval accepted exactly within 3..=1350 s");
        std::mem::forget(r);
        std::mem::forget(y);
    }
}
