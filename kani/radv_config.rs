// Kani harnesses for crates/erbium-core/src/radv/config.rs (C19: the router-advertisement section of the
// configuration is parsed totally).  Yaml values are built by hand; mappings can only be EMPTY (see the note
// at the end of the file).
#[cfg(kani)]
mod k {
    use super::super::*;
    include!(concat!(env!("ISOMER_ERBIUM_VERIF_DIR"), "/_common.rs"));
    use yaml_rust::yaml::Yaml;

    fn is_invalid_config<T>(r: &Result<T, Error>) -> bool {
        matches!(r, Err(Error::InvalidConfig(_)))
    }

    const KIND_REAL: u8 = 0;
    const KIND_INT: u8 = 1;
    const KIND_STR: u8 = 2;
    const KIND_BOOL: u8 = 3;
    const KIND_ARR_NULL: u8 = 4; // [~]
    const KIND_ARR_STRS: u8 = 5; // ["a", "b"]
    const KIND_ALIAS: u8 = 6;
    const KIND_NULL: u8 = 7;
    const KIND_BAD: u8 = 8;
    const KIND_ARR_EMPTY: u8 = 9; // []
    fn yaml_of_kind(k: u8) -> Yaml {
        match k {
            KIND_REAL => Yaml::Real(String::from("1.5")),
            KIND_INT => Yaml::Integer(kani::any()),
            KIND_STR => Yaml::String(String::from("x")),
            KIND_BOOL => Yaml::Boolean(kani::any()),
            KIND_ARR_NULL => Yaml::Array(vec![Yaml::Null]),
            KIND_ARR_STRS => Yaml::Array(vec![Yaml::String(String::from("a")), Yaml::String(String::from("b"))]),
            KIND_ALIAS => Yaml::Alias(kani::any()),
            KIND_NULL => Yaml::Null,
            KIND_BAD => Yaml::BadValue,
            _ => Yaml::Array(Vec::new()),
        }
    }

    // every mapping-typed parser of the RA section on a value that is not a mapping
    fn non_hash_on(k: u8) {
        let y = yaml_of_kind(k);
        let r = parse_prefix("prefixes", &y);
        assert!(is_invalid_config(&r), "radv parse_prefix refuses a non-mapping with InvalidConfig");
        std::mem::forget(r);
        let r = parse_rdnss("dns-servers", &y);
        assert!(is_invalid_config(&r), "radv parse_rdnss refuses a non-mapping with InvalidConfig");
        std::mem::forget(r);
        let r = parse_dnssl("dns-search", &y);
        assert!(is_invalid_config(&r), "radv parse_dnssl refuses a non-mapping with InvalidConfig");
        std::mem::forget(r);
        let r = parse_pref64("pref64", &y);
        assert!(is_invalid_config(&r), "radv parse_pref64 refuses a non-mapping with InvalidConfig");
        std::mem::forget(r);
        let r = parse_interface("eth0", &y);
        assert!(is_invalid_config(&r), "radv parse_interface refuses a non-mapping with InvalidConfig");
        std::mem::forget(r);
        let r = parse(&y);
        assert!(is_invalid_config(&r), "radv parse refuses a non-mapping with InvalidConfig");
        std::mem::forget(r);
        let r = parse_domain("domains", &y);
        match k {
            KIND_NULL => assert!(matches!(r, Ok(None)), "parse_domain: null is None"),
            KIND_STR => assert!(matches!(&r, Ok(Some(s)) if s.len() == 1), "parse_domain returns the string"),
            _ => assert!(is_invalid_config(&r), "parse_domain refuses a non-string with InvalidConfig"),
        }
        std::mem::forget(r);
        std::mem::forget(y);
    }

    /// VERIF: {"p":"C19","tier":"quick","fns":["radv::config::parse_prefix","radv::config::parse_rdnss","radv::config::parse_dnssl","radv::config::parse_pref64","radv::config::parse_interface","radv::config::parse","radv::config::parse_domain","config::type_to_name"],"bounds":"each parser on, one after the other: Integer(any i64), the string \"x\", Null (e.g. `router-advertisements: { eth0: 5 }`, `pref64: x`, `prefixes: [~]`)","oracle":"Err(InvalidConfig) (parse_domain: string => Ok(Some), null => Ok(None)); never a panic","stubs":["alloc::fmt::format -> empty string (message text only)"],"covers":1,"unwind":6}
    #[kani::proof]
    #[kani::unwind(6)]
    #[kani::stub(alloc::fmt::format, empty_format)]
    fn c19_radv_parsers_non_mapping_scalars() {
        non_hash_on(KIND_INT);
        non_hash_on(KIND_STR);
        non_hash_on(KIND_NULL);
        kani::cover!(true, "every call returned");
    }

    /// VERIF: {"p":"C19","tier":"quick","fns":["radv::config::parse_prefix","radv::config::parse_rdnss","radv::config::parse_dnssl","radv::config::parse_pref64","radv::config::parse_interface","radv::config::parse","radv::config::parse_domain","config::type_to_name"],"bounds":"each parser on, one after the other: Boolean(any), Real","oracle":"Err(InvalidConfig); never a panic","stubs":["alloc::fmt::format -> empty string (message text only)"],"covers":1,"unwind":6}
    #[kani::proof]
    #[kani::unwind(6)]
    #[kani::stub(alloc::fmt::format, empty_format)]
    fn c19_radv_parsers_non_mapping_others() {
        non_hash_on(KIND_BOOL);
        non_hash_on(KIND_REAL);
        kani::cover!(true, "every call returned");
    }

    /// VERIF: {"p":"C19","tier":"thorough","fns":["radv::config::parse_prefix","radv::config::parse_rdnss","radv::config::parse_dnssl","radv::config::parse_pref64","radv::config::parse_interface","radv::config::parse","radv::config::parse_domain","config::type_to_name"],"bounds":"each parser on the NON-empty sequence `[\"a\",\"b\"]` (e.g. `router-advertisements: { eth0: [a, b] }`)","oracle":"Err(InvalidConfig); never a panic","stubs":["alloc::fmt::format -> empty string (message text only)"],"covers":1,"unwind":6}
    #[kani::proof]
    #[kani::unwind(6)]
    #[kani::stub(alloc::fmt::format, empty_format)]
    fn c19_radv_parsers_non_mapping_sequence() {
        non_hash_on(KIND_ARR_STRS);
        kani::cover!(true, "every call returned");
    }

    /// VERIF: {"p":"C19","tier":"quick","fns":["radv::config::parse_prefix","radv::config::parse_rdnss","radv::config::parse_dnssl","radv::config::parse_pref64","radv::config::parse_interface","radv::config::parse","radv::config::parse_domain","config::type_to_name"],"bounds":"each parser on the empty sequence `[]` (e.g. `router-advertisements: { eth0: [] }`, `pref64: []`, `prefixes: [[]]`)","oracle":"Err(InvalidConfig), never a panic","stubs":["alloc::fmt::format -> empty string (message text only)"],"covers":0,"unwind":6}
    #[kani::proof]
    #[kani::unwind(6)]
    #[kani::stub(alloc::fmt::format, empty_format)]
    fn c19_radv_parsers_empty_array() {
        non_hash_on(KIND_ARR_EMPTY);
    }

    /// VERIF: {"p":"C19","tier":"quick","fns":["radv::config::parse_rdnss","radv::config::parse_dnssl","radv::config::parse_pref64","radv::config::parse_interface","radv::config::parse"],"bounds":"each parser on the empty mapping `{}`","oracle":"accepted with every default: no lifetime/addresses, no pref64, interface with hop-limit 0, no prefixes, nothing specified; never a panic","stubs":["alloc::fmt::format -> empty string (message text only)","std::hash::RandomState::new -> fixed keys (creating the empty Hash)"],"covers":1,"unwind":6}
    #[kani::proof]
    #[kani::unwind(6)]
    #[kani::stub(alloc::fmt::format, empty_format)]
    #[kani::stub(std::hash::RandomState::new, fixed_random_state)]
    fn c19_radv_parsers_empty_mapping() {
        let y = Yaml::Hash(Default::default());
        let r = parse_rdnss("dns-servers", &y);
        assert!(matches!(r, Ok((ConfigValue::NotSpecified, ConfigValue::NotSpecified))), "dns-servers: the empty mapping specifies nothing");
        std::mem::forget(r);
        let r = parse_dnssl("dns-search", &y);
        assert!(matches!(r, Ok((ConfigValue::NotSpecified, ConfigValue::NotSpecified))), "dns-search: the empty mapping specifies nothing");
        std::mem::forget(r);
        let r = parse_pref64("pref64", &y);
        assert!(matches!(r, Ok(None)), "pref64: the empty mapping is no pref64");
        std::mem::forget(r);
        let r = parse_interface("eth0", &y);
        match &r {
            Ok(Some(i)) => {
                assert!(i.hoplimit == 0 && !i.managed && !i.other && i.prefixes.is_empty() && i.pref64.is_none(), "eth0: the empty mapping takes every default");
                assert!(matches!(i.mtu, ConfigValue::NotSpecified) && matches!(i.lifetime, ConfigValue::NotSpecified), "eth0: the empty mapping specifies nothing");
            }
            _ => assert!(false, "eth0: the empty mapping is accepted"),
        }
        std::mem::forget(r);
        let r = parse(&y);
        assert!(matches!(&r, Ok(Some(c)) if c.interfaces.is_empty()), "router-advertisements: the empty mapping has no interfaces");
        kani::cover!(r.is_ok(), "accepted");
        std::mem::forget(r);
        std::mem::forget(y);
    }

    /// VERIF: {"p":"C19","tier":"quick","fns":["radv::config::parse_prefix"],"bounds":"a `prefixes` entry that is the empty mapping: `prefixes: [ {} ]`","oracle":"Ok or Err(InvalidConfig) (the manual says `prefix` 'defaults to no prefix'), never a panic","stubs":["alloc::fmt::format -> empty string (message text only)","std::hash::RandomState::new -> fixed keys (creating the empty Hash)"],"covers":0,"unwind":6}
    #[kani::proof]
    #[kani::unwind(6)]
    #[kani::stub(alloc::fmt::format, empty_format)]
    #[kani::stub(std::hash::RandomState::new, fixed_random_state)]
    fn c19_radv_parse_prefix_empty_mapping() {
        let y = Yaml::Hash(Default::default());
        let r = parse_prefix("prefixes", &y);
        assert!(matches!(r, Ok(_) | Err(Error::InvalidConfig(_))), "parse_prefix: a value or InvalidConfig");
        std::mem::forget(r);
        std::mem::forget(y);
    }

    // NOT REACHABLE (measured): serialising a router advertisement that carries a PREF64 option
    // (radv::icmppkt::serialise, one option, symbolic prefix length) does not finish within 400 s; the
    // `prefixlen - 32` underflow for an accepted `pref64: {prefix: 64:ff9b::/16}` is reported from reading +
    // native run only.
    // NOT REACHABLE (measured): any mapping with at least one entry.  yaml_rust's Hash is a LinkedHashMap over
    // std's HashMap; one `insert` of one CONCRETE key (RandomState stubbed) does not finish within 900 s of CBMC
    // time, so parsers that iterate over a populated mapping (parse_prefix/parse_interface/parse_pref64/parse_rdnss/parse_dnssl with keys) cannot be driven
    // from here.  The YAML-level behaviour of those paths was confirmed natively instead (see the report).
}
