// Lifted logic of crates/erbium-core/src/dns/outquery.rs for the MIR dump (mirsym): which upstream reply is accepted
// (C03 "reply accepted by id", C07 "id-mismatched or truncated UDP replies retried over TCP").  The statements of
// handle_query_internal between `let out_reply;` and the final id check are lifted verbatim by lib/lift.py; the two
// network exchanges are shims whose results the symbolic executor supplies.
#[cfg(any(kani, isomer_erbium_mir))]
pub mod lifted {
    #![allow(dead_code, unused_imports)]
    use super::super::*;
    pub struct ProtoShim {
        pub protocol: Protocol,
    }
    pub fn udp_shim(_addr: std::net::SocketAddr, _oq: &dnspkt::DNSPkt) -> Result<dnspkt::DNSPkt, Error> {
        unimplemented!("summarised by the symbolic executor")
    }
    pub fn tcp_shim(_addr: &std::net::SocketAddr, _oq: dnspkt::DNSPkt) -> Result<dnspkt::DNSPkt, Error> {
        unimplemented!("summarised by the symbolic executor")
    }
    include!(concat!(env!("VERIF_GEN_DIR"), "/outquery_accept_reply.rs"));
    // C07: the adaptive retransmission timeout stays inside its documented bounds (statements of send_udp, lifted)
    include!(concat!(env!("VERIF_GEN_DIR"), "/outquery_adapt_timeout.rs"));
    pub fn verif_timeout_bounds() -> (Duration, Duration) {
        (MIN_DNS_TIMEOUT, MAX_DNS_TIMEOUT)
    }
}

#[cfg(kani)]
mod k {
    use super::super::*;
    use super::lifted::*;

    /// VERIF: {"p":"C07","tier":"quick","fns":["dns::outquery::OutQuery::send_udp (timeout adaptation statements lifted from source)"],"bounds":"current and initial timeout anywhere within [MIN_DNS_TIMEOUT, MAX_DNS_TIMEOUT] (ms granularity), elapsed time 0..=86400 s at ms granularity, 0..=8 attempts","oracle":"after the update the global retransmission timeout is still within [MIN_DNS_TIMEOUT, MAX_DNS_TIMEOUT] and nothing panicked: one inductive step, so the first retry delay is bounded for every history of queries","stubs":["statements lifted verbatim from send_udp; the RwLock write guard is a plain &mut Duration"],"covers":2,"unwind":4}
    #[kani::proof]
    #[kani::unwind(4)]
    fn c07_retransmission_timeout_stays_bounded() {
        let (mn, mx) = verif_timeout_bounds();
        let cur_ms: u64 = kani::any();
        let ini_ms: u64 = kani::any();
        let dur_ms: u64 = kani::any();
        let n: usize = kani::any();
        kani::assume(cur_ms >= mn.as_millis() as u64 && cur_ms <= mx.as_millis() as u64);
        kani::assume(ini_ms >= mn.as_millis() as u64 && ini_ms <= mx.as_millis() as u64);
        kani::assume(dur_ms <= 86_400_000);
        kani::assume(n <= 8);
        let mut cell = Duration::from_millis(cur_ms);
        lifted_outquery_adapt_timeout(n, Duration::from_millis(dur_ms), Duration::from_millis(ini_ms), &mut cell);
        kani::cover!(n > 1 && dur_ms < ini_ms && cell != Duration::from_millis(cur_ms), "lowered after a fast reply");
        kani::cover!(n > 1 && dur_ms >= ini_ms && cell > Duration::from_millis(cur_ms), "raised after a slow reply");
        assert!(cell >= mn && cell <= mx, "retransmission timeout within its documented bounds after the update");
    }
}
