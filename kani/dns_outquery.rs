// Lifted logic of crates/erbium-core/src/dns/outquery.rs for the MIR dump (mirsym): which upstream reply is accepted
// (C03 "reply accepted by id", C07 "id-mismatched or truncated UDP replies retried over TCP").  The statements of
// handle_query_internal between `let out_reply;` and the final id check are lifted verbatim by lib/lift.py; the two
// network exchanges are shims whose results the symbolic executor supplies.
#[cfg(any(kani, isomer_erbium_mir))]
pub mod lifted {
    #![allow(dead_code, unused_imports)]
    use super::super::*;
    pub struct ProtoShim {
        pub protocol: Protocol,
    }
    pub fn udp_shim(_addr: std::net::SocketAddr, _oq: &dnspkt::DNSPkt) -> Result<dnspkt::DNSPkt, Error> {
        unimplemented!("summarised by the symbolic executor")
    }
    pub fn tcp_shim(_addr: &std::net::SocketAddr, _oq: dnspkt::DNSPkt) -> Result<dnspkt::DNSPkt, Error> {
        unimplemented!("summarised by the symbolic executor")
    }
    include!(concat!(env!("VERIF_GEN_DIR"), "/outquery_accept_reply.rs"));
}
