// Lifted logic of crates/erbium-core/src/dns/outquery.rs for the MIR dump (mirsym): which upstream reply is accepted
// (C03 "reply accepted by id", C07 "id-mismatched or truncated UDP replies retried over TCP").  The statements of
// handle_query_internal between `let out_reply;` and the final id check are lifted verbatim by lib/lift.py; the two
// network exchanges are shims whose results the symbolic executor supplies.
#[cfg(any(kani, isomer_erbium_mir))]
pub mod lifted {
    #![allow(dead_code, unused_imports)]
    use super::super::*;
    pub struct ProtoShim {
        pub protocol: Protocol,
    }
    pub fn udp_shim(_addr: std::net::SocketAddr, _oq: &dnspkt::DNSPkt) -> Result<dnspkt::DNSPkt, Error> {
        unimplemented!("summarised by the symbolic executor")
    }
    pub fn tcp_shim(_addr: &std::net::SocketAddr, _oq: dnspkt::DNSPkt) -> Result<dnspkt::DNSPkt, Error> {
        unimplemented!("summarised by the symbolic executor")
    }
    include!(concat!(env!("VERIF_GEN_DIR"), "/outquery_accept_reply.rs"));
    // C07: the adaptive retransmission timeout stays inside its documented bounds (statements of send_udp, lifted)
    include!(concat!(env!("VERIF_GEN_DIR"), "/outquery_adapt_timeout.rs"));
    pub fn verif_timeout_bounds() -> (Duration, Duration) {
        (MIN_DNS_TIMEOUT, MAX_DNS_TIMEOUT)
    }
    // C07: the timer arm of send_udp's select loop (give up / back off), statements lifted verbatim; the random jitter is
    // an arbitrary value of the range the code asks for (rand panics on an empty range: kept as an obligation)
    pub struct JitterShim;
    impl JitterShim {
        pub fn random_range(&self, r: std::ops::Range<Duration>) -> Duration {
            assert!(r.start < r.end, "random_range on an empty range panics");
            #[cfg(kani)]
            {
                let secs: u64 = kani::any();
                let nanos: u32 = kani::any();
                kani::assume(nanos < 1_000_000_000);
                let d = Duration::new(secs, nanos);
                kani::assume(d >= r.start && d < r.end);
                d
            }
            #[cfg(not(kani))]
            {
                r.start
            }
        }
    }
    include!(concat!(env!("VERIF_GEN_DIR"), "/outquery_retry_arm.rs"));
    // C07: the per-upstream TCP task's id -> waiter map (send_tcp_query, statements before the socket write, lifted verbatim).
    // The map is a 4-slot association list with HashMap's insert/contains_key/remove contract; a waiter is a tag that records
    // whether it was answered.
    pub struct RespShim {
        pub tag: u8,
    }
    pub static mut ANSWERED_TAG: Option<u8> = None;
    pub static mut ANSWERED_WITH_ERROR: bool = false;
    impl RespShim {
        pub fn send(self, r: Result<dnspkt::DNSPkt, Error>) -> Result<(), ()> {
            unsafe {
                ANSWERED_TAG = Some(self.tag);
                ANSWERED_WITH_ERROR = r.is_err();
            }
            std::mem::forget(r);
            Ok(())
        }
    }
    pub struct QidShim {
        pub qid: u16,
    }
    pub struct TcpMsgShim {
        pub out_query: QidShim,
        pub out_reply: RespShim,
    }
    pub struct MapShim {
        pub slots: [Option<(u16, RespShim)>; 4],
    }
    impl MapShim {
        pub fn contains_key(&self, k: &u16) -> bool {
            let mut i = 0;
            while i < 4 {
                if let Some((q, _)) = &self.slots[i] {
                    if q == k {
                        return true;
                    }
                }
                i += 1;
            }
            false
        }
        pub fn insert(&mut self, k: u16, v: RespShim) -> Option<RespShim> {
            let mut i = 0;
            while i < 4 {
                if matches!(&self.slots[i], Some((q, _)) if *q == k) {
                    return self.slots[i].replace((k, v)).map(|(_, old)| old);
                }
                i += 1;
            }
            i = 0;
            while i < 4 {
                if self.slots[i].is_none() {
                    self.slots[i] = Some((k, v));
                    return None;
                }
                i += 1;
            }
            panic!("harness map full: outside the bound");
        }
        pub fn get_tag(&self, k: u16) -> Option<u8> {
            let mut i = 0;
            while i < 4 {
                if let Some((q, r)) = &self.slots[i] {
                    if *q == k {
                        return Some(r.tag);
                    }
                }
                i += 1;
            }
            None
        }
    }
    pub struct TcpShim {
        pub qid2reply: MapShim,
    }
    include!(concat!(env!("VERIF_GEN_DIR"), "/tcp_register_waiter.rs"));
}

#[cfg(kani)]
mod k {
    use super::super::*;
    use super::lifted::*;

    /// VERIF: {"p":"C07","tier":"quick","fns":["dns::outquery::OutQuery::send_udp (timeout adaptation statements lifted from source)"],"bounds":"current and initial timeout anywhere within [MIN_DNS_TIMEOUT, MAX_DNS_TIMEOUT] (ms granularity), elapsed time 0..=86400 s at ms granularity, 0..=8 attempts","oracle":"after the update the global retransmission timeout is still within [MIN_DNS_TIMEOUT, MAX_DNS_TIMEOUT] and nothing panicked: one inductive step, so the first retry delay is bounded for every history of queries","stubs":["statements lifted verbatim from send_udp; the RwLock write guard is a plain &mut Duration"],"covers":2,"unwind":4}
    #[kani::proof]
    #[kani::unwind(4)]
    fn c07_retransmission_timeout_stays_bounded() {
        let (mn, mx) = verif_timeout_bounds();
        let cur_ms: u64 = kani::any();
        let ini_ms: u64 = kani::any();
        let dur_ms: u64 = kani::any();
        let n: usize = kani::any();
        kani::assume(cur_ms >= mn.as_millis() as u64 && cur_ms <= mx.as_millis() as u64);
        kani::assume(ini_ms >= mn.as_millis() as u64 && ini_ms <= mx.as_millis() as u64);
        kani::assume(dur_ms <= 86_400_000);
        kani::assume(n <= 8);
        let mut cell = Duration::from_millis(cur_ms);
        lifted_outquery_adapt_timeout(n, Duration::from_millis(dur_ms), Duration::from_millis(ini_ms), &mut cell);
        kani::cover!(n > 1 && dur_ms < ini_ms && cell != Duration::from_millis(cur_ms), "lowered after a fast reply");
        kani::cover!(n > 1 && dur_ms >= ini_ms && cell > Duration::from_millis(cur_ms), "raised after a slow reply");
        assert!(cell >= mn && cell <= mx, "retransmission timeout within its documented bounds after the update");
    }

    /// VERIF: {"p":"C07","tier":"quick","fns":["dns::outquery::OutQuery::send_udp (timer arm of the select loop: give-up test and backoff statements lifted from source)"],"bounds":"first retry delay anywhere within [MIN_DNS_TIMEOUT, MAX_DNS_TIMEOUT] at ms granularity (the range the adaptive timeout is proved to stay in), every jitter an arbitrary Duration (ns granularity) of the range the code asks for, an upstream that never answers, up to 6 timer expiries","oracle":"a silent upstream ends in Error::Timeout (which create_in_error turns into SERVFAIL) after at most 5 transmissions; every retry delay is at least 1.5x and less than 2.5x the previous one; the total time waited is below 66 x MAX_DNS_TIMEOUT; no arithmetic panic, no empty jitter range","stubs":["statements lifted verbatim from send_udp; attempts.len() is the number of transmissions made so far (one push per loop iteration, none completes); rand::rng().random_range = arbitrary value of the requested range; the retry counter metric is dropped"],"covers":2,"unwind":8}
    #[kani::proof]
    #[kani::unwind(8)]
    fn c07_silent_upstream_times_out_after_bounded_backoff() {
        let (mn, mx) = verif_timeout_bounds();
        let ini_ms: u64 = kani::any();
        kani::assume(ini_ms >= mn.as_millis() as u64 && ini_ms <= mx.as_millis() as u64);
        let mut timeout = Duration::from_millis(ini_ms);
        let mut waited = Duration::ZERO;
        let mut sent = 0usize;
        let mut gave_up = false;
        let mut i = 0;
        while i < 6 {
            sent += 1; // attempts.push(self.send_single_udp(..)): one more transmission, none is ever answered
            waited += timeout; // the sleep arm fires
            match lifted_outquery_retry_arm(sent, timeout, &JitterShim) {
                Err(e) => {
                    let is_timeout = matches!(e, Error::Timeout);
                    std::mem::forget(e);
                    assert!(is_timeout, "a silent upstream is reported as Error::Timeout");
                    gave_up = true;
                    break;
                }
                Ok(next) => {
                    assert!(next >= timeout + timeout / 2, "the retry delay grows by at least x1.5");
                    assert!(next - timeout - timeout / 2 < timeout, "the retry delay grows by less than x2.5");
                    timeout = next;
                }
            }
            i += 1;
        }
        kani::cover!(gave_up && sent >= 2, "gave up after retransmitting");
        kani::cover!(gave_up && waited > mx * 20, "slowest give-up");
        assert!(gave_up, "a silent upstream ends in a timeout within 6 timer expiries");
        assert!(sent <= 5, "at most 5 transmissions of an upstream query");
        assert!(waited < mx * 66, "the client's failure response is due within a bounded time");
    }

    /// VERIF: {"p":"C07","tier":"quick","fns":["dns::outquery::TcpNameserver::send_tcp_query (statements before the socket write, lifted from source)"],"bounds":"0..=3 upstream TCP queries already in flight on this connection with arbitrary distinct 16-bit ids, a new query with an arbitrary 16-bit id (ids are drawn at random per query by handle_query_internal, independently of what is in flight, so equal ids are reachable)","oracle":"registering the new query never panics (a panic kills the per-upstream task and with it every waiter and every later TCP query to that upstream); every query already in flight keeps its own waiter under its id (replies are not crossed); the new query is either registered under its id or answered with an error - exactly one of the two","stubs":["statements lifted verbatim from send_tcp_query; HashMap<u16, oneshot::Sender> = 4-slot association list with the same insert/contains_key contract; oneshot::Sender::send = recording stub"],"covers":2,"unwind":6}
    #[kani::proof]
    #[kani::unwind(6)]
    fn c07_tcp_waiter_registration_survives_id_collision() {
        let n: u8 = kani::any();
        kani::assume(n <= 3);
        let ids: [u16; 3] = kani::any();
        kani::assume(ids[0] != ids[1] && ids[0] != ids[2] && ids[1] != ids[2]);
        let mut t = TcpShim { qid2reply: MapShim { slots: [None, None, None, None] } };
        let mut i = 0u8;
        while i < n {
            t.qid2reply.slots[i as usize] = Some((ids[i as usize], RespShim { tag: i }));
            i += 1;
        }
        let qid: u16 = kani::any();
        unsafe {
            ANSWERED_TAG = None;
            ANSWERED_WITH_ERROR = false;
        }
        let r = lifted_tcp_register_waiter(&mut t, TcpMsgShim { out_query: QidShim { qid }, out_reply: RespShim { tag: 9 } });
        let collides = (n > 0 && ids[0] == qid) || (n > 1 && ids[1] == qid) || (n > 2 && ids[2] == qid);
        kani::cover!(collides, "id already in flight");
        kani::cover!(!collides && n == 3, "fresh id, three in flight");
        let mut j = 0u8;
        while j < n {
            assert!(t.qid2reply.get_tag(ids[j as usize]) == Some(j), "a query already in flight keeps its own waiter (replies are not crossed)");
            j += 1;
        }
        let answered = unsafe { ANSWERED_TAG };
        assert!(answered.is_none() || answered == Some(9), "no waiter other than the new query's is answered here");
        let registered = !collides && t.qid2reply.get_tag(qid) == Some(9);
        let refused = answered == Some(9) && unsafe { ANSWERED_WITH_ERROR };
        assert!(registered != refused, "the new query is either registered under its id or answered with an error, exactly one of the two");
        if let Err(e) = r {
            std::mem::forget(e);
        }
        std::mem::forget(t);
    }
}
