// Lifted logic of crates/erbium-core/src/dns/outquery.rs for the MIR dump (mirsym): which upstream reply is accepted
// (C03 "reply accepted by id", C07 "id-mismatched or truncated UDP replies retried over TCP").  The statements of
// handle_query_internal between `let out_reply;` and the final id check are lifted verbatim by lib/lift.py; the two
// network exchanges are shims whose results the symbolic executor supplies.
#[cfg(any(kani, isomer_erbium_mir))]
pub mod lifted {
    #![allow(dead_code, unused_imports)]
    use super::super::*;
    pub struct ProtoShim {
        pub protocol: Protocol,
    }
    pub fn udp_shim(_addr: std::net::SocketAddr, _oq: &dnspkt::DNSPkt) -> Result<dnspkt::DNSPkt, Error> {
        unimplemented!("summarised by the symbolic executor")
    }
    pub fn tcp_shim(_addr: &std::net::SocketAddr, _oq: dnspkt::DNSPkt) -> Result<dnspkt::DNSPkt, Error> {
        unimplemented!("summarised by the symbolic executor")
    }
    include!(concat!(env!("VERIF_GEN_DIR"), "/outquery_accept_reply.rs"));
    // C07: the adaptive retransmission timeout stays inside its documented bounds (statements of send_udp, lifted)
    include!(concat!(env!("VERIF_GEN_DIR"), "/outquery_adapt_timeout.rs"));
    pub fn verif_timeout_bounds() -> (Duration, Duration) {
        (MIN_DNS_TIMEOUT, MAX_DNS_TIMEOUT)
    }
    // C07: the timer arm of send_udp's select loop (give up / back off), statements lifted verbatim; the random jitter is
    // an arbitrary value of the range the code asks for (rand panics on an empty range: kept as an obligation)
    pub struct JitterShim;
    impl JitterShim {
        pub fn random_range(&self, r: std::ops::Range<Duration>) -> Duration {
            assert!(r.start < r.end, "random_range on an empty range panics");
            #[cfg(kani)]
            {
                let secs: u64 = kani::any();
                let nanos: u32 = kani::any();
                kani::assume(nanos < 1_000_000_000);
                let d = Duration::new(secs, nanos);
                kani::assume(d >= r.start && d < r.end);
                d
            }
            #[cfg(not(kani))]
            {
                r.start
            }
        }
    }
    include!(concat!(env!("VERIF_GEN_DIR"), "/outquery_retry_arm.rs"));
}

#[cfg(kani)]
mod k {
    use super::super::*;
    use super::lifted::*;

    /// VERIF: {"p":"C07","tier":"quick","fns":["dns::outquery::OutQuery::send_udp (timeout adaptation statements lifted from source)"],"bounds":"current and initial timeout anywhere within [MIN_DNS_TIMEOUT, MAX_DNS_TIMEOUT] (ms granularity), elapsed time 0..=86400 s at ms granularity, 0..=8 attempts","oracle":"after the update the global retransmission timeout is still within [MIN_DNS_TIMEOUT, MAX_DNS_TIMEOUT] and nothing panicked: one inductive step, so the first retry delay is bounded for every history of queries","stubs":["statements lifted verbatim from send_udp; the RwLock write guard is a plain &mut Duration"],"covers":2,"unwind":4}
    #[kani::proof]
    #[kani::unwind(4)]
    fn c07_retransmission_timeout_stays_bounded() {
        let (mn, mx) = verif_timeout_bounds();
        let cur_ms: u64 = kani::any();
        let ini_ms: u64 = kani::any();
        let dur_ms: u64 = kani::any();
        let n: usize = kani::any();
        kani::assume(cur_ms >= mn.as_millis() as u64 && cur_ms <= mx.as_millis() as u64);
        kani::assume(ini_ms >= mn.as_millis() as u64 && ini_ms <= mx.as_millis() as u64);
        kani::assume(dur_ms <= 86_400_000);
        kani::assume(n <= 8);
        let mut cell = Duration::from_millis(cur_ms);
        lifted_outquery_adapt_timeout(n, Duration::from_millis(dur_ms), Duration::from_millis(ini_ms), &mut cell);
        kani::cover!(n > 1 && dur_ms < ini_ms && cell != Duration::from_millis(cur_ms), "lowered after a fast reply");
        kani::cover!(n > 1 && dur_ms >= ini_ms && cell > Duration::from_millis(cur_ms), "raised after a slow reply");
        assert!(cell >= mn && cell <= mx, "retransmission timeout within its documented bounds after the update");
    }

    /// VERIF: {"p":"C07","tier":"quick","fns":["dns::outquery::OutQuery::send_udp (timer arm of the select loop: give-up test and backoff statements lifted from source)"],"bounds":"first retry delay anywhere within [MIN_DNS_TIMEOUT, MAX_DNS_TIMEOUT] at ms granularity (the range the adaptive timeout is proved to stay in), every jitter an arbitrary Duration (ns granularity) of the range the code asks for, an upstream that never answers, up to 6 timer expiries","oracle":"a silent upstream ends in Error::Timeout (which create_in_error turns into SERVFAIL) after at most 5 transmissions; every retry delay is at least 1.5x and less than 2.5x the previous one; the total time waited is below 66 x MAX_DNS_TIMEOUT; no arithmetic panic, no empty jitter range","stubs":["statements lifted verbatim from send_udp; attempts.len() is the number of transmissions made so far (one push per loop iteration, none completes); rand::rng().random_range = arbitrary value of the requested range; the retry counter metric is dropped"],"covers":2,"unwind":8}
    #[kani::proof]
    #[kani::unwind(8)]
    fn c07_silent_upstream_times_out_after_bounded_backoff() {
        let (mn, mx) = verif_timeout_bounds();
        let ini_ms: u64 = kani::any();
        kani::assume(ini_ms >= mn.as_millis() as u64 && ini_ms <= mx.as_millis() as u64);
        let mut timeout = Duration::from_millis(ini_ms);
        let mut waited = Duration::ZERO;
        let mut sent = 0usize;
        let mut gave_up = false;
        let mut i = 0;
        while i < 6 {
            sent += 1; // attempts.push(self.send_single_udp(..)): one more transmission, none is ever answered
            waited += timeout; // the sleep arm fires
            match lifted_outquery_retry_arm(sent, timeout, &JitterShim) {
                Err(e) => {
                    let is_timeout = matches!(e, Error::Timeout);
                    std::mem::forget(e);
                    assert!(is_timeout, "a silent upstream is reported as Error::Timeout");
                    gave_up = true;
                    break;
                }
                Ok(next) => {
                    assert!(next >= timeout + timeout / 2, "the retry delay grows by at least x1.5");
                    assert!(next - timeout - timeout / 2 < timeout, "the retry delay grows by less than x2.5");
                    timeout = next;
                }
            }
            i += 1;
        }
        kani::cover!(gave_up && sent >= 2, "gave up after retransmitting");
        kani::cover!(gave_up && waited > mx * 20, "slowest give-up");
        assert!(gave_up, "a silent upstream ends in a timeout within 6 timer expiries");
        assert!(sent <= 5, "at most 5 transmissions of an upstream query");
        assert!(waited < mx * 66, "the client's failure response is due within a bounded time");
    }
}
