// Minimal executor for harnesses over async fns whose awaits are all immediately ready (uncontended
// tokio locks, no I/O): polls the future exactly once with a no-op waker.  Pending => None.
#[allow(dead_code)]
pub fn poll_once<F: std::future::Future>(fut: F) -> Option<F::Output> {
    use std::task::{Context, Poll, RawWaker, RawWakerVTable, Waker};
    fn clone(_: *const ()) -> RawWaker {
        RawWaker::new(std::ptr::null(), &VTABLE)
    }
    fn noop(_: *const ()) {}
    static VTABLE: RawWakerVTable = RawWakerVTable::new(clone, noop, noop, noop);
    let waker = unsafe { Waker::from_raw(RawWaker::new(std::ptr::null(), &VTABLE)) };
    let mut cx = Context::from_waker(&waker);
    let mut fut = std::pin::pin!(fut);
    match fut.as_mut().poll(&mut cx) {
        Poll::Ready(v) => Some(v),
        Poll::Pending => None,
    }
}
