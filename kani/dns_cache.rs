// harnesses for this module (included by the isomer_erbium_verif hook)
// Constructor used by router/acl harnesses: a CacheHandler that is never queried (no task spawned).
#[cfg(kani)]
impl super::CacheHandler {
    pub fn verif_inert() -> Self {
        super::CacheHandler {
            next: super::outquery::OutQuery::new(),
            cache: std::sync::Arc::new(tokio::sync::RwLock::new(super::Cache::new())),
        }
    }
}
