// harnesses for this module (included by the isomer_erbium_verif hook)
// Constructor used by router/acl harnesses: a CacheHandler that is never queried (no task spawned).
#[cfg(kani)]
impl super::CacheHandler {
    pub fn verif_inert() -> Self {
        super::CacheHandler {
            next: super::outquery::OutQuery::new(),
            cache: std::sync::Arc::new(tokio::sync::RwLock::new(super::Cache::new())),
        }
    }
}

// Native replay of mirsym counterexamples against the REAL cache code (driven by /verif/lib/mir_replay.py).
// Script (VERIF_REPLAY_FILE): "ttls <an,..;ns,..;ad,..>", "elapsed <secs> <nanos>", "same <0|1>".
#[cfg(test)]
mod replay {
    use super::super::*;
    use crate::dns::dnspkt::*;

    fn rr(ttl: u32) -> RR {
        RR { domain: "example.com".parse().unwrap(), class: CLASS_IN, rrtype: RR_A, ttl, rdata: RData::Other(vec![1, 2, 3, 4]) }
    }

    #[test]
    fn isomer_erbium_replay_cache() {
        let path = match std::env::var("VERIF_REPLAY_FILE") {
            Ok(p) => p,
            Err(_) => return,
        };
        let script = std::fs::read_to_string(path).expect("replay script");
        let mut secs: Vec<Vec<u32>> = vec![vec![], vec![], vec![]];
        let (mut es, mut en) = (0u64, 0u32);
        let mut same = true;
        for line in script.lines() {
            let w: Vec<&str> = line.split_whitespace().collect();
            if w.is_empty() {
                continue;
            }
            match w[0] {
                "ttls" => {
                    for (i, part) in w.get(1).unwrap_or(&";;").split(';').enumerate() {
                        secs[i] = part.split(',').filter(|x| !x.is_empty()).map(|x| x.parse().unwrap()).collect();
                    }
                }
                "elapsed" => {
                    es = w[1].parse().unwrap();
                    en = w[2].parse().unwrap();
                }
                "same" => same = w[1] == "1",
                _ => {}
            }
        }
        let pkt = DNSPkt {
            qid: 7, rd: true, tc: false, aa: false, qr: true, opcode: OPCODE_QUERY, cd: false, ad: false, ra: true,
            rcode: NOERROR, bufsize: 512, edns_ver: None, edns_do: false,
            question: Question { qdomain: "example.com".parse().unwrap(), qclass: CLASS_IN, qtype: RR_A },
            answer: secs[0].iter().map(|t| rr(*t)).collect(),
            nameserver: secs[1].iter().map(|t| rr(*t)).collect(),
            additional: secs[2].iter().map(|t| rr(*t)).collect(),
            edns: None,
        };
        let handler = CacheHandler { next: outquery::OutQuery::new(), cache: Arc::new(RwLock::new(Cache::new())) };
        let reply: Result<DNSPkt, Error> = Ok(pkt);
        let lifetime = handler.calculate_expiry(&reply);
        println!("REPLAY lifetime {} {}", lifetime.as_secs(), lifetime.subsec_nanos());
        let key = CacheKey { qname: "example.com".parse().unwrap(), qtype: RR_A, edns_do: false, cd: false };
        let lookup = CacheKey { qname: "example.com".parse().unwrap(), qtype: RR_A, edns_do: false, cd: !same };
        let birth = Instant::now();
        let mut cache = Cache::new();
        cache.insert(key, CacheValue { reply, birth, lifetime });
        let now = birth + Duration::new(es, en);
        let r = std::panic::catch_unwind(std::panic::AssertUnwindSafe(|| CacheHandler::get_entry(&cache, &lookup, now)));
        match r {
            Err(_) => println!("REPLAY result panic"),
            Ok(None) => println!("REPLAY result miss"),
            Ok(Some(Err(_))) => println!("REPLAY result hit-err"),
            Ok(Some(Ok(p))) => {
                let f = |v: &Vec<RR>| v.iter().map(|r| r.ttl.to_string()).collect::<Vec<_>>().join(",");
                println!("REPLAY result hit {};{};{}", f(&p.answer), f(&p.nameserver), f(&p.additional));
            }
        }
    }
}


// shims + lifted body of the async CacheHandler::handle_query (key construction, class gate, insert-only-if-cacheable):
// compiled for the MIR dump used by the mirsym engine, where every shim method below is SUMMARISED (never executed).
#[cfg(any(kani, isomer_erbium_mir))]
pub mod lifted {
    #![allow(dead_code, unused_variables)]
    use super::super::*;
    pub struct LockShim;
    impl LockShim {
        fn read(&self) -> Cache {
            unimplemented!()
        }
        fn write(&self) -> Cache {
            unimplemented!()
        }
    }
    pub struct NextShim;
    impl NextShim {
        fn handle_query(&self, _msg: &crate::dns::DnsMessage, _addr: std::net::SocketAddr) -> Result<dnspkt::DNSPkt, Error> {
            unimplemented!()
        }
    }
    pub struct CacheShim {
        pub next: NextShim,
        pub cache: LockShim,
    }
    impl CacheShim {
        fn get_entry(_cache: &Cache, _ck: &CacheKey, _now: Instant) -> Option<Result<dnspkt::DNSPkt, Error>> {
            unimplemented!()
        }
        fn calculate_expiry(&self, _r: &Result<dnspkt::DNSPkt, Error>) -> Duration {
            unimplemented!()
        }
        fn insert_cache_entry(&self, _cache: &mut Cache, _ck: CacheKey, _r: &Result<dnspkt::DNSPkt, Error>, _expiry: Duration) {
            unimplemented!()
        }
    }
    fn harness_now() -> Instant {
        unimplemented!()
    }
    include!(concat!(env!("VERIF_GEN_DIR"), "/cache_handle_query.rs"));
}
