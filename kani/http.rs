// Kani harnesses for crates/erbium-core/src/http.rs (C20: the lease listing is valid JSON whatever bytes a client puts in
// its host name).  The listing is produced by format! inside the async serve_leases; the per-lease host-name fragment
// is rendered by the closure `.map(|h| format!(...))`, whose text is lifted verbatim by lib/lift.py.
#[cfg(any(kani, isomer_erbium_mir))]
pub mod lifted {
    #![allow(dead_code, unused_imports)]
    use super::super::*;
    include!(concat!(env!("VERIF_GEN_DIR"), "/hostname_fragment.rs"));
}

#[cfg(kani)]
mod k {
    #[allow(unused_imports)]
    use super::super::*;
    use super::lifted::*;

    // RFC 8259 section 7: after `, "host-name": ` comes a string: '"' (unescaped-char | escape)* '"' where an unescaped char
    // is any code point except '"', '\\' and controls < 0x20, and an escape is \" \\ \/ \b \f \n \r \t or \uXXXX.
    fn json_string_ok(b: &[u8]) -> bool {
        let n = b.len();
        if n < 2 || b[0] != b'"' || b[n - 1] != b'"' {
            return false;
        }
        let mut i = 1;
        while i < n - 1 {
            let c = b[i];
            if c == b'"' || c < 0x20 {
                return false;
            }
            if c == b'\\' {
                if i + 1 >= n - 1 {
                    return false;
                }
                let e = b[i + 1];
                if e == b'u' {
                    if i + 5 >= n - 1 + 0 && i + 5 > n - 2 {
                        return false;
                    }
                    let mut k = 0;
                    while k < 4 {
                        if !b[i + 2 + k].is_ascii_hexdigit() {
                            return false;
                        }
                        k += 1;
                    }
                    i += 6;
                    continue;
                }
                if !(e == b'"' || e == b'\\' || e == b'/' || e == b'b' || e == b'f' || e == b'n' || e == b'r' || e == b't') {
                    return false;
                }
                i += 2;
                continue;
            }
            i += 1;
        }
        true
    }

    const PREFIX: &[u8] = b", \"host-name\": ";

    /// VERIF: {"p":"C20","tier":"experimental","fns":["http::json_string","http::serve_leases (host-name fragment closure lifted from source)"],"bounds":"host names of exactly one ASCII character (all 128 values)","oracle":"the fragment is `, \"host-name\": ` followed by a JSON string (RFC 8259 section 7: no raw control characters, only the JSON escapes)","stubs":["closure body lifted verbatim from serve_leases"],"covers":2,"unwind":16}
    #[kani::proof]
    #[kani::unwind(16)]
    fn c20_hostname_fragment_is_json_one_ascii_char() {
        let c: u8 = kani::any();
        kani::assume(c < 0x80);
        let h = String::from(c as char);
        let out = lifted_hostname_fragment(h);
        let b = out.as_bytes();
        kani::cover!(c == b'a', "plain letter");
        kani::cover!(c == 0x7f, "DEL");
        assert!(b.len() >= PREFIX.len() + 2, "fragment has the key and a string");
        let mut i = 0;
        while i < PREFIX.len() {
            assert!(b[i] == PREFIX[i], "fragment starts with the host-name key");
            i += 1;
        }
        assert!(json_string_ok(&b[PREFIX.len()..]), "host name is rendered as a JSON string");
        std::mem::forget(out);
    }
}
