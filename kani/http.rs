// Kani harnesses for crates/erbium-core/src/http.rs (C20: the lease listing is valid JSON whatever bytes a client puts in
// its host name).  The listing is produced by format! inside the async serve_leases; the per-lease host-name fragment
// is rendered by the closure `.map(|h| format!(...))`, whose text is lifted verbatim by lib/lift.py.
#[cfg(any(kani, isomer_erbium_mir))]
pub mod lifted {
    #![allow(dead_code, unused_imports)]
    use super::super::*;
    include!(concat!(env!("VERIF_GEN_DIR"), "/hostname_fragment.rs"));
}

#[cfg(kani)]
mod k {
    #[allow(unused_imports)]
    use super::super::*;
    use super::lifted::*;

    // ---- which permission guards which HTTP operation (C08) ----------------------------------------------------
    // serve_request is async and builds hyper responses; its body is lifted verbatim with the responses replaced by
    // markers and the permission test replaced by a recording stub (the ACL evaluation itself is decided by the
    // harnesses in acl.rs).
    #[derive(PartialEq, Eq, Clone, Copy)]
    pub enum HttpOutcome {
        Denied,
        Root,
        Metrics,
        Leases,
        NotFound,
    }
    static mut ASKED: [Option<u8>; 2] = [None, None];
    static mut N_ASKED: usize = 0;
    static mut VERDICT: bool = false;
    fn perm_code(p: &acl::PermissionType) -> u8 {
        match p {
            acl::PermissionType::Http => 1,
            acl::PermissionType::HttpMetrics => 2,
            acl::PermissionType::HttpLeases => 3,
            _ => 0,
        }
    }
    fn verif_require(_acls: &[acl::Acl], _client: &acl::Attributes, perm: acl::PermissionType) -> Option<()> {
        unsafe {
            if N_ASKED < 2 {
                ASKED[N_ASKED] = Some(perm_code(&perm));
            }
            N_ASKED += 1;
            if VERDICT { None } else { Some(()) }
        }
    }
    include!(concat!(env!("VERIF_GEN_DIR"), "/http_serve_request.rs"));

    /// VERIF: {"p":"C08","tier":"quick","fns":["http::serve_request (body lifted from source)"],"bounds":"methods GET and POST x paths {/, /metrics, /api/v1/leases.json, /other, empty} x both ACL verdicts","oracle":"the root page is served only after the Http permission was granted, the metrics only after HttpMetrics, the lease listing only after HttpLeases; a refused permission yields the denial; exactly one permission is consulted per request","stubs":["body of serve_request lifted verbatim; hyper responses replaced by markers; require_http_permission = recording stub with an arbitrary verdict (ACL evaluation decided in acl.rs harnesses)"],"covers":3,"unwind":24}
    #[kani::proof]
    #[kani::unwind(24)]
    fn c08_http_operations_are_guarded_by_their_permission() {
        let paths = ["/", "/metrics", "/api/v1/leases.json", "/other", ""];
        let pi: usize = kani::any();
        kani::assume(pi < 5);
        let get: bool = kani::any();
        let method = if get { hyper::Method::GET } else { hyper::Method::POST };
        let verdict: bool = kani::any();
        unsafe {
            VERDICT = verdict;
            N_ASKED = 0;
            ASKED = [None, None];
        }
        let client = acl::Attributes { addr: erbium_net::addr::NetAddr::from(std::net::SocketAddr::from(([127, 0, 0, 1], 80))) };
        let out = lifted_http_serve_request(&method, paths[pi], &[], &client);
        let (n, asked) = unsafe { (N_ASKED, ASKED[0]) };
        kani::cover!(out == HttpOutcome::Leases, "lease listing served");
        kani::cover!(out == HttpOutcome::Denied, "denied");
        kani::cover!(out == HttpOutcome::Metrics, "metrics served");
        match out {
            HttpOutcome::Root => assert!(n == 1 && asked == Some(1) && verdict, "root page only with the Http permission"),
            HttpOutcome::Metrics => assert!(n == 1 && asked == Some(2) && verdict, "metrics only with the HttpMetrics permission"),
            HttpOutcome::Leases => assert!(n == 1 && asked == Some(3) && verdict, "lease listing only with the HttpLeases permission"),
            HttpOutcome::Denied => assert!(n == 1 && !verdict, "denied only when the consulted permission was refused"),
            HttpOutcome::NotFound => (),
        }
        if get && pi == 0 && verdict {
            assert!(out == HttpOutcome::Root, "GET / with the Http permission is served");
        }
        if get && pi == 1 && verdict {
            assert!(out == HttpOutcome::Metrics, "GET /metrics with the HttpMetrics permission is served");
        }
        if get && pi == 2 && verdict {
            assert!(out == HttpOutcome::Leases, "GET /api/v1/leases.json with the HttpLeases permission is served");
        }
    }

    // RFC 8259 section 7: after `, "host-name": ` comes a string: '"' (unescaped-char | escape)* '"' where an unescaped char
    // is any code point except '"', '\\' and controls < 0x20, and an escape is \" \\ \/ \b \f \n \r \t or \uXXXX.
    fn json_string_ok(b: &[u8]) -> bool {
        let n = b.len();
        if n < 2 || b[0] != b'"' || b[n - 1] != b'"' {
            return false;
        }
        let mut i = 1;
        while i < n - 1 {
            let c = b[i];
            if c == b'"' || c < 0x20 {
                return false;
            }
            if c == b'\\' {
                if i + 1 >= n - 1 {
                    return false;
                }
                let e = b[i + 1];
                if e == b'u' {
                    if i + 5 >= n - 1 + 0 && i + 5 > n - 2 {
                        return false;
                    }
                    let mut k = 0;
                    while k < 4 {
                        if !b[i + 2 + k].is_ascii_hexdigit() {
                            return false;
                        }
                        k += 1;
                    }
                    i += 6;
                    continue;
                }
                if !(e == b'"' || e == b'\\' || e == b'/' || e == b'b' || e == b'f' || e == b'n' || e == b'r' || e == b't') {
                    return false;
                }
                i += 2;
                continue;
            }
            i += 1;
        }
        true
    }

    const PREFIX: &[u8] = b", \"host-name\": ";

    /// VERIF: {"p":"C20","tier":"experimental","fns":["http::json_string","http::serve_leases (host-name fragment closure lifted from source)"],"bounds":"host names of exactly one ASCII character (all 128 values)","oracle":"the fragment is `, \"host-name\": ` followed by a JSON string (RFC 8259 section 7: no raw control characters, only the JSON escapes)","stubs":["closure body lifted verbatim from serve_leases"],"covers":2,"unwind":16}
    #[kani::proof]
    #[kani::unwind(16)]
    fn c20_hostname_fragment_is_json_one_ascii_char() {
        let c: u8 = kani::any();
        kani::assume(c < 0x80);
        let h = String::from(c as char);
        let out = lifted_hostname_fragment(h);
        let b = out.as_bytes();
        kani::cover!(c == b'a', "plain letter");
        kani::cover!(c == 0x7f, "DEL");
        assert!(b.len() >= PREFIX.len() + 2, "fragment has the key and a string");
        let mut i = 0;
        while i < PREFIX.len() {
            assert!(b[i] == PREFIX[i], "fragment starts with the host-name key");
            i += 1;
        }
        assert!(json_string_ok(&b[PREFIX.len()..]), "host name is rendered as a JSON string");
        std::mem::forget(out);
    }
}
