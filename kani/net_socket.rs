// Kani harnesses for crates/erbium-net/src/socket.rs (C07, narrow sub-claim: reply source address).
#[cfg(kani)]
mod k {
    use super::super::*;
    use std::net::{IpAddr, Ipv4Addr, Ipv6Addr};

    /// VERIF: {"p":"C07","tier":"quick","fns":["socket::std_to_libc_in_addr"],"bounds":"all 2^32 IPv4 addresses","oracle":"in_addr.s_addr holds the address in network byte order: its in-memory bytes are the dotted-quad octets","covers":1}
    #[kani::proof]
    fn c07_in_addr_network_order() {
        let a: u32 = kani::any();
        let ip = Ipv4Addr::from(a);
        let got = std_to_libc_in_addr(ip);
        kani::cover!(ip.octets()[0] != ip.octets()[3], "asymmetric address");
        assert!(got.s_addr.to_ne_bytes() == ip.octets(), "s_addr bytes == octets");
    }

    /// VERIF: {"p":"C07","tier":"quick","fns":["socket::std_to_libc_in6_addr"],"bounds":"all 2^128 IPv6 addresses","oracle":"s6_addr == octets","covers":1,"unwind":18}
    #[kani::proof]
    #[kani::unwind(18)]
    fn c07_in6_addr_octets() {
        let a: u128 = kani::any();
        let ip = Ipv6Addr::from(a);
        let got = std_to_libc_in6_addr(ip);
        kani::cover!(a != 0, "non-zero");
        assert!(got.s6_addr == ip.octets(), "s6_addr == octets");
    }

    /// VERIF: {"p":"C07","tier":"quick","fns":["socket::RecvMsg::local_ip","socket::std_to_libc_in_addr","socket::ControlMessage::convert_to_cmsg"],"bounds":"all 2^32 IPv4 destination addresses of a received datagram","oracle":"the source address placed in the reply's IP_PKTINFO equals (byte for byte) the destination address the kernel reported for the query","covers":1,"unwind":4}
    #[kani::proof]
    #[kani::unwind(4)]
    fn c07_reply_source_is_query_destination_v4() {
        let raw: u32 = kani::any(); // what the kernel wrote into ipi_addr.s_addr (network order)
        let rm = RecvMsg {
            buffer: Vec::new(),
            address: None,
            timestamp: None,
            ipv4pktinfo: Some(libc::in_pktinfo {
                ipi_ifindex: 1,
                ipi_spec_dst: libc::in_addr { s_addr: 0 },
                ipi_addr: libc::in_addr { s_addr: raw },
            }),
            ipv6pktinfo: None,
        };
        let local = rm.local_ip();
        assert!(matches!(local, Some(IpAddr::V4(_))), "v4 pktinfo yields a v4 local address");
        let mut cm = ControlMessage::new().set_send_from(local);
        let v = cm.convert_to_cmsg();
        assert!(v.len() == 1, "one control message");
        std::mem::forget(v);
        kani::cover!(raw.to_ne_bytes()[0] != raw.to_ne_bytes()[3], "asymmetric address");
        assert!(cm.pktinfo4.ipi_spec_dst.s_addr == raw, "ipi_spec_dst == received ipi_addr");
    }

    /// VERIF: {"p":"C07","tier":"quick","fns":["socket::RecvMsg::local_ip","socket::std_to_libc_in6_addr","socket::ControlMessage::convert_to_cmsg"],"bounds":"all 2^128 IPv6 destination addresses","oracle":"ipi6_addr of the reply == ipi6_addr of the query","covers":1,"unwind":18}
    #[kani::proof]
    #[kani::unwind(18)]
    fn c07_reply_source_is_query_destination_v6() {
        let raw: [u8; 16] = kani::any();
        let rm = RecvMsg {
            buffer: Vec::new(),
            address: None,
            timestamp: None,
            ipv4pktinfo: None,
            ipv6pktinfo: Some(libc::in6_pktinfo {
                ipi6_ifindex: 1,
                ipi6_addr: libc::in6_addr { s6_addr: raw },
            }),
        };
        let local = rm.local_ip();
        assert!(matches!(local, Some(IpAddr::V6(_))), "v6 pktinfo yields a v6 local address");
        let mut cm = ControlMessage::new().set_send_from(local);
        let v = cm.convert_to_cmsg();
        assert!(v.len() == 1, "one control message");
        std::mem::forget(v);
        kani::cover!(raw[0] != raw[15], "asymmetric address");
        assert!(cm.pktinfo6.ipi6_addr.s6_addr == raw, "ipi6_addr == received ipi6_addr");
    }

    // The code that actually runs on the send path is inline in the async fn send_msg (it does not call
    // convert_to_cmsg): its statements from `let mut cmsgs` up to the sendmsg call are lifted verbatim by lib/lift.py.
    include!(concat!(env!("VERIF_GEN_DIR"), "/send_msg_cmsgs.rs"));

    /// VERIF: {"p":"C07","tier":"quick","fns":["socket::send_msg (control-message block lifted from source)","socket::RecvMsg::local_ip","socket::std_to_libc_in_addr"],"bounds":"all 2^32 IPv4 destination addresses of a received datagram","oracle":"sendmsg gets exactly one IP_PKTINFO whose ipi_spec_dst (the field Linux uses as the source of an outgoing datagram, ip(7)) is byte for byte the destination address reported for the query; ipi_addr and ipi_ifindex stay unspecified","stubs":["statements between `let mut cmsgs` and the sendmsg call lifted verbatim from send_msg; the await on writability and the syscall itself are not executed"],"covers":1,"unwind":4}
    #[kani::proof]
    #[kani::unwind(4)]
    fn c07_send_msg_source_v4() {
        let raw: u32 = kani::any();
        let rm = RecvMsg {
            buffer: Vec::new(),
            address: None,
            timestamp: None,
            ipv4pktinfo: Some(libc::in_pktinfo { ipi_ifindex: 1, ipi_spec_dst: libc::in_addr { s_addr: 0 }, ipi_addr: libc::in_addr { s_addr: raw } }),
            ipv6pktinfo: None,
        };
        let cm = ControlMessage::new().set_send_from(rm.local_ip());
        let (p4, _p6, n, first_is_v4) = lifted_send_msg_cmsgs(&cm);
        kani::cover!(raw.to_ne_bytes()[0] != raw.to_ne_bytes()[3], "asymmetric address");
        assert!(n == 1 && first_is_v4, "exactly one IPv4 packet-info control message");
        assert!(p4.ipi_spec_dst.s_addr == raw, "ipi_spec_dst == destination address of the query");
        assert!(p4.ipi_addr.s_addr == 0 && p4.ipi_ifindex == 0, "ipi_addr / ipi_ifindex left unspecified");
    }

    /// VERIF: {"p":"C07","tier":"quick","fns":["socket::send_msg (control-message block lifted from source)","socket::RecvMsg::local_ip","socket::std_to_libc_in6_addr"],"bounds":"all 2^128 IPv6 destination addresses","oracle":"sendmsg gets exactly one IPV6_PKTINFO whose ipi6_addr is the destination address of the query; interface unspecified","stubs":["as c07_send_msg_source_v4"],"covers":1,"unwind":18}
    #[kani::proof]
    #[kani::unwind(18)]
    fn c07_send_msg_source_v6() {
        let raw: [u8; 16] = kani::any();
        let rm = RecvMsg {
            buffer: Vec::new(),
            address: None,
            timestamp: None,
            ipv4pktinfo: None,
            ipv6pktinfo: Some(libc::in6_pktinfo { ipi6_ifindex: 1, ipi6_addr: libc::in6_addr { s6_addr: raw } }),
        };
        let cm = ControlMessage::new().set_send_from(rm.local_ip());
        let (_p4, p6, n, first_is_v4) = lifted_send_msg_cmsgs(&cm);
        kani::cover!(raw[0] != raw[15], "asymmetric address");
        assert!(n == 1 && !first_is_v4, "exactly one IPv6 packet-info control message");
        assert!(p6.ipi6_addr.s6_addr == raw && p6.ipi6_ifindex == 0, "ipi6_addr == destination address of the query");
    }
}
