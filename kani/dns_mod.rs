// Kani harnesses for logic that lives inline in async fns of crates/erbium-core/src/dns/mod.rs, lifted verbatim
// into synchronous fns by /verif/lib/lift.py on every run (C16: cost and limiter decision; C05: bucket indexing).
// shims + lifted bodies compiled for the MIR dump used by the mirsym engine (C03: create_in_reply)
#[cfg(any(kani, isomer_erbium_mir))]
pub mod lifted {
    #![allow(dead_code)]
    use super::super::*;
    // add_edns (NSID / server cookie = HMAC) only fills the reply's OPT options; abstracted to a no-op
    pub fn add_edns_shim(_edns: &mut dnspkt::EdnsData, _msg: &DnsMessage) {}
    include!(concat!(env!("VERIF_GEN_DIR"), "/create_in_reply.rs"));
    // C04: which size limit each transport applies when it turns the reply into octets
    include!(concat!(env!("VERIF_GEN_DIR"), "/udp_reply_bytes.rs"));
    include!(concat!(env!("VERIF_GEN_DIR"), "/tcp_reply_bytes.rs"));
}

#[cfg(kani)]
mod k {
    use super::super::*;
    include!(concat!(env!("ISOMER_ERBIUM_VERIF_DIR"), "/_common.rs"));

    // ------------------------------------------------------------------ should_ratelimit
    pub struct MsgShim {
        in_size: usize,
        remote_addr: NetAddr,
        cookie: u8,
    }
    impl MsgShim {
        // cookie validation is HMAC-SHA-256 (not decided here): its verdict is an arbitrary input
        fn validate_cookie(&self) -> CookieStatus {
            match self.cookie {
                0 => CookieStatus::Missing,
                1 => CookieStatus::Bad,
                _ => CookieStatus::Good,
            }
        }
    }
    pub struct SerShim(usize);
    impl SerShim {
        fn len(&self) -> usize {
            self.0
        }
    }
    static mut CHARGED: Option<usize> = None;
    static mut GRANT: bool = false;
    pub struct RecordingLimiter;
    impl RecordingLimiter {
        fn check(&self, _ip: std::net::IpAddr, cost: usize) -> bool {
            unsafe {
                CHARGED = Some(cost);
                GRANT
            }
        }
    }
    include!(concat!(env!("VERIF_GEN_DIR"), "/should_ratelimit.rs"));

    fn reply(rcode: dnspkt::RCode) -> dnspkt::DNSPkt {
        use dnspkt::*;
        DNSPkt {
            qid: 0, rd: false, tc: false, aa: false, qr: true, opcode: OPCODE_QUERY, cd: false, ad: false, ra: true,
            rcode, bufsize: 4096, edns_ver: None, edns_do: false,
            question: Question { qdomain: Domain::from(Vec::new()), qclass: CLASS_IN, qtype: RR_A },
            answer: Vec::new(), nameserver: Vec::new(), additional: Vec::new(), edns: None,
        }
    }

    // Largest REFUSED reply create_in_error can build, derived by hand from create_in_error/add_edns:
    // 12 header + (<=255 name + 4) question + 11 OPT + NSID (4 + <=39 text of an IPv6 address) + COOKIE (4 + 8 + 32)
    // + EDE (4 + 2 + <=50 octets of the longest REFUSED reason "Matched ACL does not have permission dns-recursion").
    const MAX_REFUSED_REPLY: usize = 12 + 259 + 11 + 43 + 44 + 56;
    // the query that provokes it carries at least: 12 header + question + 11 OPT + NSID request (4) + client cookie (4 + 8)
    const MIN_QUERY_OVERHEAD: usize = 12 + 11 + 4 + 12;
    const REPLY_OVER_QUERY: usize = (12 + 11 + 43 + 44 + 56) - MIN_QUERY_OVERHEAD; // reply - query <= this (same question in both)

    /// VERIF: {"p":"C16","tier":"quick","fns":["dns::should_ratelimit (lifted_should_ratelimit: body lifted from source)"],"bounds":"all reply sizes 12..=65535 and query sizes 12..=65535, all rcodes, all three cookie verdicts, both limiter answers","oracle":"a REFUSED without a good cookie is ALWAYS charged, and charged a positive cost, at least a third of its size for every REFUSED reply the server can build (<= 425 octets), so the bucket bounds the REFUSED byte volume: bytes <= 3 * tokens; replies that are not REFUSED, or carry a good cookie, are never limited; the decision is exactly the limiter's answer","stubs":["cookie validation (HMAC) = arbitrary verdict","IpRateLimiter::check = recording stub","log::trace! removed"],"covers":3,"unwind":3}
    #[kani::proof]
    #[kani::unwind(3)]
    fn c16_cost_positive_and_covers_bytes() {
        use erbium_net::addr::WithPort as _;
        let reply_len: usize = kani::any();
        let in_size: usize = kani::any();
        kani::assume(reply_len >= 12 && reply_len <= 65535 && in_size >= 12 && in_size <= 65535);
        let rcode: u16 = kani::any();
        kani::assume(rcode <= 0xfff);
        let cookie: u8 = kani::any();
        kani::assume(cookie <= 2);
        let grant: bool = kani::any();
        let msg = MsgShim { in_size, remote_addr: std::net::Ipv4Addr::new(192, 0, 2, 7).with_port(5353), cookie };
        let r = reply(dnspkt::RCode(rcode));
        unsafe {
            CHARGED = None;
            GRANT = grant;
        }
        let limited = lifted_should_ratelimit(&msg, &r, &SerShim(reply_len), &RecordingLimiter);
        let charged = unsafe { CHARGED };
        kani::cover!(charged.is_some() && limited, "charged and limited");
        kani::cover!(charged.is_some() && !limited, "charged and sent");
        kani::cover!(rcode == 5 && cookie == 2, "good cookie");
        if rcode != 5 || cookie == 2 {
            assert!(charged.is_none() && !limited, "only REFUSED without a valid cookie is rate limited");
        } else {
            assert!(charged.is_some(), "every REFUSED without a valid cookie is charged to the source's bucket");
            let c = charged.unwrap();
            assert!(c >= 1, "the charge is positive (a zero charge is an unlimited reply)");
            if reply_len <= MAX_REFUSED_REPLY {
                // every REFUSED reply this server can build is at most MAX_REFUSED_REPLY octets (derivation above)
                assert!(3 * c >= reply_len, "the charge covers at least a third of the bytes sent (bytes <= 3 * tokens)");
            }
            assert!(limited == !grant, "limited exactly when the bucket refuses the charge");
        }
        std::mem::forget(r);
    }

    /// VERIF: {"p":"C07","tier":"quick","fns":["dns::should_ratelimit (lifted_should_ratelimit: body lifted from source)"],"bounds":"all reply sizes 12..=65535, all query sizes, every response code other than REFUSED (0..=0xfff), cookie missing / bad / good, limiter granting or refusing","oracle":"a reply that is not a REFUSED (an answer, NXDOMAIN, or the SERVFAIL sent when the upstream stayed silent) is never suppressed by the reflection limiter and never charged to it: the permitted client's one response is sent whatever the state of its source's buckets","stubs":["validate_cookie = arbitrary verdict","IpRateLimiter::check = recording stub with an arbitrary answer","serialised reply = its length"],"covers":2,"unwind":3}
    #[kani::proof]
    #[kani::unwind(3)]
    fn c07_only_refused_replies_can_be_suppressed() {
        use erbium_net::addr::WithPort as _;
        let reply_len: usize = kani::any();
        let in_size: usize = kani::any();
        kani::assume(reply_len >= 12 && reply_len <= 65535 && in_size >= 12 && in_size <= 65535);
        let rcode: u16 = kani::any();
        kani::assume(rcode <= 0xfff && rcode != 5);
        let cookie: u8 = kani::any();
        kani::assume(cookie <= 2);
        let grant: bool = kani::any();
        let msg = MsgShim { in_size, remote_addr: std::net::Ipv4Addr::new(192, 0, 2, 7).with_port(5353), cookie };
        let r = reply(dnspkt::RCode(rcode));
        unsafe {
            CHARGED = None;
            GRANT = grant;
        }
        let limited = lifted_should_ratelimit(&msg, &r, &SerShim(reply_len), &RecordingLimiter);
        let charged = unsafe { CHARGED };
        kani::cover!(rcode == 2 && !grant && cookie == 0, "SERVFAIL, no cookie, bucket empty");
        kani::cover!(rcode == 0 && grant, "answer");
        assert!(!limited, "a reply other than REFUSED is always sent");
        assert!(charged.is_none(), "a reply other than REFUSED is not charged to the reflection limiter");
        std::mem::forget(r);
    }

    /// VERIF: {"p":"C16","tier":"quick","fns":["dns::should_ratelimit (lifted)","dns::bucket::GenericTokenBucket::check"],"bounds":"every REFUSED reply create_in_error can build (size <= 425 octets, at most 127 octets larger than its query: derivation in the harness source) and every query size; bucket idle for the refill period, any clock","oracle":"the cost charged for it is granted by a bucket that has been idle for MAX_TOKENS/TOKENS_PER_SECOND seconds: a quiet source does get its REFUSED, whatever the size of the reply","stubs":["cookie validation = arbitrary verdict","IpRateLimiter::check = recording stub","bucket clock = harness clock"],"covers":1,"unwind":3}
    #[kani::proof]
    #[kani::unwind(3)]
    fn c16_quiet_source_granted_largest_refused() {
        use erbium_net::addr::WithPort as _;
        let reply_len: usize = kani::any();
        let in_size: usize = kani::any();
        kani::assume(reply_len >= 12 && reply_len <= MAX_REFUSED_REPLY);
        kani::assume(in_size >= 17 && in_size <= 65535 && reply_len <= in_size + REPLY_OVER_QUERY);
        let msg = MsgShim { in_size, remote_addr: std::net::Ipv4Addr::new(192, 0, 2, 7).with_port(5353), cookie: kani::any::<u8>() % 2 };
        let r = reply(dnspkt::REFUSED);
        unsafe {
            CHARGED = None;
            GRANT = true;
        }
        let _ = lifted_should_ratelimit(&msg, &r, &SerShim(reply_len), &RecordingLimiter);
        let c = unsafe { CHARGED }.unwrap();
        // an idle bucket: stamp at least B/R seconds in the past
        let now: u32 = kani::any();
        let b_over_r = bucket::GenericTokenBucket::verif_refill_period();
        kani::assume(now >= b_over_r);
        let s0: u32 = kani::any();
        kani::assume(s0 <= now - b_over_r);
        kani::cover!(c > 500, "a large charge");
        assert!(bucket::GenericTokenBucket::verif_idle_grants(s0, now, c as u32), "idle bucket grants the charge of the largest REFUSED");
        std::mem::forget(r);
    }

    // ------------------------------------------------------------------ IpRateLimiter::check (bucket indexing)
    struct HarnessClock;
    static mut HNOW: u32 = 0;
    impl bucket::Clock for HarnessClock {
        fn now() -> u32 {
            unsafe { HNOW }
        }
    }
    pub struct CellBucket(std::cell::RefCell<bucket::GenericTokenBucket>);
    impl CellBucket {
        fn read(&self) -> std::cell::Ref<'_, bucket::GenericTokenBucket> {
            self.0.borrow()
        }
        fn write(&self) -> std::cell::RefMut<'_, bucket::GenericTokenBucket> {
            self.0.borrow_mut()
        }
    }
    static mut H1: usize = 0;
    static mut H2: usize = 0;
    pub struct LimiterShim([CellBucket; 256]);
    impl LimiterShim {
        // SipHash of (seed, ip) abstracted: ANY pair of hash values
        fn hash_ip(seed: u64, _ip: std::net::IpAddr) -> usize {
            if seed == 0x1234_5678_9ABC_DEF0 { unsafe { H1 } } else { unsafe { H2 } }
        }
    }
    include!(concat!(env!("VERIF_GEN_DIR"), "/ratelimiter_check.rs"));

    /// VERIF: {"p":"C05","tier":"quick","fns":["dns::IpRateLimiter::check (lifted_ratelimiter_check: body lifted from source)","dns::bucket::GenericTokenBucket::{check,deplete}"],"bounds":"any pair of 64-bit hash values for the two seeds (SipHash abstracted), any charge, first bucket full or drained (so both branches run), fixed clock","oracle":"no out-of-bounds bucket index, no overflow, no RefCell double borrow: the second bucket is always a valid index different from the first","stubs":["hash_ip = arbitrary usize per seed","tokio RwLock = RefCell (single task)","clock = harness clock"],"covers":2,"unwind":3}
    #[kani::proof]
    #[kani::unwind(3)]
    fn c05_ratelimiter_bucket_index_in_bounds() {
        // const-repeat initialiser: the 256 buckets (the real array length) are built without a run-time loop
        let lim = LimiterShim([const { CellBucket(std::cell::RefCell::new(bucket::GenericTokenBucket::new())) }; 256]);
        unsafe {
            H1 = kani::any();
            H2 = kani::any();
            HNOW = 1_800_000_000;
        }
        let drained: bool = kani::any();
        if drained {
            // empty the first bucket so that the second one is consulted
            let i = unsafe { H1 } % 256;
            lim.0[i].0.borrow_mut().empty::<HarnessClock>();
        }
        let bytes: usize = kani::any();
        kani::assume(bytes <= 65535);
        let ok = lifted_ratelimiter_check(&lim, std::net::IpAddr::V4(std::net::Ipv4Addr::LOCALHOST), bytes);
        kani::cover!(drained && ok && bytes > 0, "second bucket granted");
        kani::cover!(!drained && ok, "first bucket granted");
        std::mem::forget(lim);
    }
}
