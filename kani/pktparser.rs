// Kani harnesses for crates/erbium-core/src/pktparser/mod.rs (C05: bounds-checked cursor).
#[cfg(kani)]
mod k {
    use super::super::*;

    fn one_op(buf: &mut Buffer<'_>, data: &[u8]) {
        // invariant of the cursor: offset never passes the end
        assert!(buf.offset <= buf.buffer.len(), "cursor invariant before");
        let before = buf.offset;
        let arg: usize = kani::any();
        kani::assume(arg <= 65535); // largest count any wire length field can produce
        match kani::any::<u8>() % 9 {
            0 => {
                let r = buf.get_u8();
                if let Some(b) = r {
                    assert!(b == data[before] && buf.offset == before + 1, "get_u8 returns the byte under the cursor");
                } else {
                    assert!(before == data.len() && buf.offset == before, "get_u8 fails only at the end, cursor unchanged");
                }
            }
            1 => {
                let r = buf.peek_u8();
                assert!(buf.offset == before, "peek does not move");
                assert!(r.is_some() == (before < data.len()), "peek fails only at the end");
            }
            2 => {
                let r = buf.get_bytes(arg);
                match r {
                    Some(s) => assert!(s.len() == arg && buf.offset == before + arg && before + arg <= data.len(), "get_bytes returns exactly the requested window"),
                    None => assert!(before + arg > data.len() && buf.offset == before, "get_bytes fails only when the window passes the end"),
                }
            }
            3 => {
                let r = buf.get_be16();
                match r {
                    Some(v) => assert!(v == ((data[before] as u16) << 8 | data[before + 1] as u16) && buf.offset == before + 2, "get_be16 big-endian"),
                    None => assert!(before + 2 > data.len() && buf.offset == before, "get_be16 fails only when truncated"),
                }
            }
            4 => {
                let r = buf.get_be32();
                match r {
                    Some(v) => assert!(v == u32::from_be_bytes([data[before], data[before + 1], data[before + 2], data[before + 3]]) && buf.offset == before + 4, "get_be32 big-endian"),
                    None => assert!(before + 4 > data.len() && buf.offset == before, "get_be32 fails only when truncated"),
                }
            }
            5 => {
                let r = buf.get_ipv4();
                match r {
                    Some(v) => assert!(v.octets() == [data[before], data[before + 1], data[before + 2], data[before + 3]], "get_ipv4 octet order"),
                    None => assert!(before + 4 > data.len() && buf.offset == before, "get_ipv4 fails only when truncated"),
                }
            }
            6 => {
                let r = buf.get_tlv();
                if let Some((t, v)) = r {
                    assert!(t == data[before] && v.len() == data[before + 1] as usize, "tlv type and declared length");
                    assert!(before + 2 + v.len() <= data.len(), "tlv value inside the buffer");
                }
            }
            7 => {
                let r = buf.get_buffer(arg);
                match r {
                    Some(b) => assert!(b.size() == arg && b.remaining() == arg && buf.offset == before + arg, "sub-buffer is the requested window"),
                    None => assert!(before + arg > data.len(), "get_buffer fails only when the window passes the end"),
                }
            }
            _ => {
                let r = buf.remaining();
                assert!(r == data.len() - before && buf.empty() == (r == 0), "remaining/empty");
            }
        }
        assert!(buf.offset <= buf.buffer.len(), "cursor invariant after");
    }

    /// VERIF: {"p":"C05","tier":"quick","fns":["pktparser::Buffer::{new,get_u8,peek_u8,get_bytes,get_be16,get_be32,get_ipv4,get_tlv,get_buffer,remaining,empty,size}"],"bounds":"buffers of symbolic length 0..=8 with symbolic content; any sequence of 3 cursor operations with symbolic arguments <= 65535","oracle":"no panic/overflow/out-of-bounds; cursor never passes the end; each accessor returns exactly the bytes under the cursor or fails without moving","covers":2,"unwind":6}
    #[kani::proof]
    #[kani::unwind(6)]
    fn c05_buffer_cursor_ops() {
        let data: [u8; 8] = kani::any();
        let len: usize = kani::any();
        kani::assume(len <= 8);
        let d = &data[..len];
        let mut buf = Buffer::new(d);
        one_op(&mut buf, d);
        one_op(&mut buf, d);
        one_op(&mut buf, d);
        kani::cover!(buf.offset == len && len == 8, "consumed everything");
        kani::cover!(buf.offset == 0 && len > 0, "nothing consumed");
    }

    /// VERIF: {"p":"C05","tier":"quick","fns":["pktparser::Buffer::set_offset","pktparser::Buffer::skip"],"bounds":"buffer of symbolic length 0..=8, cursor anywhere, skip/set_offset argument <= 65535","oracle":"never panics; result is None exactly when the target passes the end","covers":2,"unwind":3}
    #[kani::proof]
    #[kani::unwind(3)]
    fn c05_buffer_skip_set_offset() {
        let data: [u8; 8] = kani::any();
        let len: usize = kani::any();
        kani::assume(len <= 8);
        let start: usize = kani::any();
        kani::assume(start <= len);
        let arg: usize = kani::any();
        kani::assume(arg <= 65535);
        let b = Buffer::new(&data[..len]).set_offset(start).unwrap();
        let r = b.skip(arg);
        kani::cover!(r.is_some() && arg > 0, "skipped");
        kani::cover!(r.is_none(), "refused");
        match r {
            Some(b2) => assert!(start + arg <= len && b2.offset == start + arg, "skip lands inside"),
            None => assert!(start + arg > len, "skip refused only past the end"),
        }
    }
}
