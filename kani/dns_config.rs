// Kani harnesses for crates/erbium-core/src/dns/config.rs (C19: the dns-routes section is parsed totally).
// Yaml values are built by hand; mappings are empty or hold one CONCRETE string key.
#[cfg(kani)]
mod k {
    use super::super::*;
    include!(concat!(env!("ISOMER_ERBIUM_VERIF_DIR"), "/_common.rs"));
    use yaml_rust::yaml::Yaml;

    fn is_invalid_config<T>(r: &Result<T, Error>) -> bool {
        matches!(r, Err(Error::InvalidConfig(_)))
    }

    const KIND_REAL: u8 = 0;
    const KIND_INT: u8 = 1;
    const KIND_STR: u8 = 2;
    const KIND_BOOL: u8 = 3;
    const KIND_ARR_NULL: u8 = 4; // [~]
    const KIND_ARR_STRS: u8 = 5; // ["a", "b"]
    const KIND_ALIAS: u8 = 6;
    const KIND_NULL: u8 = 7;
    const KIND_BAD: u8 = 8;
    const KIND_ARR_EMPTY: u8 = 9; // []
    const KIND_HASH_EMPTY: u8 = 10; // {}
    const KIND_ARR_HASH_EMPTY: u8 = 11; // [{}]
    const KIND_ARR_ARR_EMPTY: u8 = 12; // [[]]
    fn yaml_of_kind(k: u8) -> Yaml {
        match k {
            KIND_REAL => Yaml::Real(String::from("1.5")),
            KIND_INT => Yaml::Integer(kani::any()),
            KIND_STR => Yaml::String(String::from("x")),
            KIND_BOOL => Yaml::Boolean(kani::any()),
            KIND_ARR_NULL => Yaml::Array(vec![Yaml::Null]),
            KIND_ARR_STRS => Yaml::Array(vec![Yaml::String(String::from("a")), Yaml::String(String::from("b"))]),
            KIND_ALIAS => Yaml::Alias(kani::any()),
            KIND_NULL => Yaml::Null,
            KIND_BAD => Yaml::BadValue,
            KIND_ARR_EMPTY => Yaml::Array(Vec::new()),
            KIND_HASH_EMPTY => Yaml::Hash(Default::default()),
            KIND_ARR_HASH_EMPTY => Yaml::Array(vec![Yaml::Hash(Default::default())]),
            _ => Yaml::Array(vec![Yaml::Array(Vec::new())]),
        }
    }

    fn routes_on(k: u8) {
        let y = yaml_of_kind(k);
        let r = parse_dns_route("dns-routes", &y);
        match k {
            // `- {}`: a route for no suffix, forwarded to nobody
            KIND_HASH_EMPTY => assert!(matches!(&r, Ok(Some(Route { suffixes, dest: Handler::Forward(v) })) if suffixes.is_empty() && v.is_empty()), "parse_dns_route: the empty mapping is an empty forward route"),
            // a non-mapping entry is reported as 'null entry' by the caller
            _ => assert!(matches!(r, Ok(None)), "parse_dns_route: a non-mapping is None"),
        }
        std::mem::forget(r);
        let r = parse_dns_routes("dns-routes", &y);
        match k {
            KIND_NULL => assert!(matches!(r, Ok(None)), "dns-routes: ~ is None"),
            KIND_ARR_EMPTY => assert!(matches!(&r, Ok(Some(v)) if v.is_empty()), "dns-routes: [] is no routes"),
            KIND_ARR_HASH_EMPTY => assert!(matches!(&r, Ok(Some(v)) if v.len() == 1), "dns-routes: a list of one empty mapping is one route"),
            _ => assert!(is_invalid_config(&r), "dns-routes refuses non-lists and non-mapping entries with InvalidConfig"),
        }
        std::mem::forget(r);
        std::mem::forget(y);
    }

    /// VERIF: {"p":"C19","tier":"quick","fns":["dns::config::parse_dns_route","dns::config::parse_dns_routes","config::parse_array","config::type_to_name"],"bounds":"both parsers on one value of every Yaml variant: Real, Integer(any), String, Boolean(any), `[~]`, `[\"a\",\"b\"]`, Alias(any), Null, BadValue, `[]`, `{}`, `[{}]`, `[[]]`","oracle":"list of mappings => Ok; null => Ok(None); everything else => Err(InvalidConfig); never a panic","stubs":["alloc::fmt::format -> empty string (message text only)","std::hash::RandomState::new -> fixed keys (creating empty maps)"],"covers":3,"unwind":6}
    #[kani::proof]
    #[kani::unwind(6)]
    #[kani::stub(alloc::fmt::format, empty_format)]
    #[kani::stub(std::hash::RandomState::new, fixed_random_state)]
    fn c19_dns_routes_wrong_type() {
        let k: u8 = kani::any();
        kani::cover!(k == 11, "a list of one empty mapping");
        kani::cover!(k == 12, "[[]]");
        kani::cover!(k == 2, "string");
        match k {
            0 => routes_on(KIND_REAL),
            1 => routes_on(KIND_INT),
            2 => routes_on(KIND_STR),
            3 => routes_on(KIND_BOOL),
            4 => routes_on(KIND_ARR_NULL),
            5 => routes_on(KIND_ARR_STRS),
            6 => routes_on(KIND_ALIAS),
            7 => routes_on(KIND_NULL),
            8 => routes_on(KIND_BAD),
            9 => routes_on(KIND_ARR_EMPTY),
            10 => routes_on(KIND_HASH_EMPTY),
            11 => routes_on(KIND_ARR_HASH_EMPTY),
            _ => routes_on(KIND_ARR_ARR_EMPTY),
        }
    }

    fn hash1(k: &str, v: Yaml) -> Yaml {
        let mut h = yaml_rust::yaml::Hash::new();
        h.insert(Yaml::String(String::from(k)), v);
        Yaml::Hash(h)
    }

    /// VERIF: {"p":"C19","tier":"thorough","fns":["dns::config::parse_dns_route","config::parse_string","config::parse_array","config::parse_string_ip"],"bounds":"route mapping with exactly one key: {type: \"forward\"|\"forge-nxdomain\"|\"x\"|~|<any i64>}, {dns-servers: []|[\"192.0.2.53\"]|[\"192.0.2.53\",\"2001:db8::53\"]|\"x\"}, {domain-suffixes: []|[<any i64>]}, {bogus: ~}, {7: ~}","oracle":"Ok(route) for the well-formed ones with the handler the manual describes; two servers, unknown type, null type, unknown key, non-string key, wrong value types => Err(InvalidConfig); never a panic","stubs":["alloc::fmt::format -> empty string (message text only)","std::hash::RandomState::new -> fixed keys"],"covers":2,"unwind":20}
    #[kani::proof]
    #[kani::unwind(20)]
    #[kani::stub(alloc::fmt::format, empty_format)]
    #[kani::stub(std::hash::RandomState::new, fixed_random_state)]
    fn c19_dns_route_one_key() {
        let w: u8 = kani::any();
        kani::cover!(w == 0, "type: forward");
        kani::cover!(w == 7, "two servers");
        let s = |x: &str| Yaml::String(String::from(x));
        let (y, want): (Yaml, u8) = match w {
            0 => (hash1("type", s("forward")), 1),
            1 => (hash1("type", s("forge-nxdomain")), 2),
            2 => (hash1("type", s("x")), 0),
            3 => (hash1("type", Yaml::Null), 0),
            4 => (hash1("type", Yaml::Integer(kani::any())), 0),
            5 => (hash1("dns-servers", Yaml::Array(Vec::new())), 1),
            6 => (hash1("dns-servers", Yaml::Array(vec![s("192.0.2.53")])), 3),
            7 => (hash1("dns-servers", Yaml::Array(vec![s("192.0.2.53"), s("2001:db8::53")])), 0),
            8 => (hash1("dns-servers", s("x")), 0),
            9 => (hash1("domain-suffixes", Yaml::Array(Vec::new())), 1),
            10 => (hash1("domain-suffixes", Yaml::Array(vec![Yaml::Integer(kani::any())])), 0),
            11 => (hash1("bogus", Yaml::Null), 0),
            _ => {
                let mut h = yaml_rust::yaml::Hash::new();
                h.insert(Yaml::Integer(7), Yaml::Null);
                (Yaml::Hash(h), 0)
            }
        };
        let r = parse_dns_route("dns-routes", &y);
        match want {
            0 => assert!(is_invalid_config(&r), "malformed route => InvalidConfig"),
            1 => assert!(matches!(&r, Ok(Some(Route { suffixes, dest: Handler::Forward(v) })) if suffixes.is_empty() && v.is_empty()), "forward route without servers"),
            2 => assert!(matches!(&r, Ok(Some(Route { suffixes, dest: Handler::ForgeNxDomain })) if suffixes.is_empty()), "forge-nxdomain route"),
            _ => assert!(matches!(&r, Ok(Some(Route { dest: Handler::Forward(v), .. })) if v.len() == 1 && v[0].port() == 53), "forward route to port 53 of the one server"),
        }
        std::mem::forget(r);
        std::mem::forget(y);
    }
}
