// Kani harnesses for crates/erbium-core/src/dns/config.rs (C19: the dns-routes section is parsed totally).
// Yaml values are built by hand; mappings can only be EMPTY (see the note at the end of the file).
#[cfg(kani)]
mod k {
    use super::super::*;
    include!(concat!(env!("ISOMER_ERBIUM_VERIF_DIR"), "/_common.rs"));
    use yaml_rust::yaml::Yaml;

    fn is_invalid_config<T>(r: &Result<T, Error>) -> bool {
        matches!(r, Err(Error::InvalidConfig(_)))
    }

    const KIND_REAL: u8 = 0;
    const KIND_INT: u8 = 1;
    const KIND_STR: u8 = 2;
    const KIND_BOOL: u8 = 3;
    const KIND_ARR_NULL: u8 = 4; // [~]
    const KIND_ARR_STRS: u8 = 5; // ["a", "b"]
    const KIND_ALIAS: u8 = 6;
    const KIND_NULL: u8 = 7;
    const KIND_BAD: u8 = 8;
    const KIND_ARR_EMPTY: u8 = 9; // []
    const KIND_HASH_EMPTY: u8 = 10; // {}
    const KIND_ARR_HASH_EMPTY: u8 = 11; // [{}]
    const KIND_ARR_ARR_EMPTY: u8 = 12; // [[]]
    fn yaml_of_kind(k: u8) -> Yaml {
        match k {
            KIND_REAL => Yaml::Real(String::from("1.5")),
            KIND_INT => Yaml::Integer(kani::any()),
            KIND_STR => Yaml::String(String::from("x")),
            KIND_BOOL => Yaml::Boolean(kani::any()),
            KIND_ARR_NULL => Yaml::Array(vec![Yaml::Null]),
            KIND_ARR_STRS => Yaml::Array(vec![Yaml::String(String::from("a")), Yaml::String(String::from("b"))]),
            KIND_ALIAS => Yaml::Alias(kani::any()),
            KIND_NULL => Yaml::Null,
            KIND_BAD => Yaml::BadValue,
            KIND_ARR_EMPTY => Yaml::Array(Vec::new()),
            KIND_HASH_EMPTY => Yaml::Hash(Default::default()),
            KIND_ARR_HASH_EMPTY => Yaml::Array(vec![Yaml::Hash(Default::default())]),
            _ => Yaml::Array(vec![Yaml::Array(Vec::new())]),
        }
    }

    fn routes_on(k: u8) {
        let y = yaml_of_kind(k);
        let r = parse_dns_route("dns-routes", &y);
        match k {
            // `- {}`: a route for no suffix, forwarded to nobody
            KIND_HASH_EMPTY => assert!(matches!(&r, Ok(Some(Route { suffixes, dest: Handler::Forward(v) })) if suffixes.is_empty() && v.is_empty()), "parse_dns_route: the empty mapping is an empty forward route"),
            // a non-mapping entry is reported as 'null entry' by the caller
            _ => assert!(matches!(r, Ok(None)), "parse_dns_route: a non-mapping is None"),
        }
        std::mem::forget(r);
        // parse_dns_routes = parse_array(.., parse_dns_route): only reachable for non-sequences and `[]`
        if !matches!(k, KIND_ARR_NULL | KIND_ARR_STRS) {
            let r = parse_dns_routes("dns-routes", &y);
            match k {
                KIND_NULL => assert!(matches!(r, Ok(None)), "dns-routes: ~ is None"),
                KIND_ARR_EMPTY => assert!(matches!(&r, Ok(Some(v)) if v.is_empty()), "dns-routes: [] is no routes"),
                _ => assert!(is_invalid_config(&r), "dns-routes refuses non-lists with InvalidConfig"),
            }
            std::mem::forget(r);
        }
        std::mem::forget(y);
    }

    /// VERIF: {"p":"C19","tier":"quick","fns":["dns::config::parse_dns_route","dns::config::parse_dns_routes","config::parse_array","config::type_to_name"],"bounds":"parse_dns_route on, one after the other: Integer(any), String, Null, Boolean(any), `[~]`, `[\"a\",\"b\"]`, `[]`, the empty mapping; parse_dns_routes on the same values except the two non-empty sequences (parse_array on a non-empty sequence does not finish under CBMC)","oracle":"route: mapping => Ok(Some), anything else => Ok(None); routes: null => Ok(None), `[]` => Ok(Some([])), non-list => Err(InvalidConfig); never a panic","stubs":["alloc::fmt::format -> empty string (message text only)","std::hash::RandomState::new -> fixed keys (creating the empty Hash)"],"covers":1,"unwind":6}
    #[kani::proof]
    #[kani::unwind(6)]
    #[kani::stub(alloc::fmt::format, empty_format)]
    #[kani::stub(std::hash::RandomState::new, fixed_random_state)]
    fn c19_dns_routes_wrong_type() {
        routes_on(KIND_INT);
        routes_on(KIND_STR);
        routes_on(KIND_NULL);
        routes_on(KIND_BOOL);
        routes_on(KIND_ARR_NULL);
        routes_on(KIND_ARR_STRS);
        routes_on(KIND_ARR_EMPTY);
        routes_on(KIND_HASH_EMPTY);
        kani::cover!(true, "every call returned");
    }

    // NOT REACHABLE (measured): any mapping with at least one entry.  yaml_rust's Hash is a LinkedHashMap over
    // std's HashMap; one `insert` of one CONCRETE key (RandomState stubbed) does not finish within 900 s of CBMC
    // time, so parsers that iterate over a populated mapping (parse_dns_route with keys) cannot be driven
    // from here.  The YAML-level behaviour of those paths was confirmed natively instead (see the report).
}
