// Kani harnesses for crates/erbium-core/src/dns/dnspkt.rs (C04, C05, C06, C14, C15).
#[cfg(kani)]
mod k {
    use super::super::*;
    include!(concat!(env!("ISOMER_ERBIUM_VERIF_DIR"), "/_common.rs"));

    // ------------------------------------------------------------------ helpers
    fn label<const N: usize>(b: [u8; N]) -> Label {
        Label(b.to_vec())
    }
    fn any_label<const N: usize>() -> Label {
        let b: [u8; N] = kani::any();
        Label(b.to_vec())
    }
    fn root() -> Domain {
        Domain(Vec::new())
    }
    fn rr_other<const N: usize>(ttl: u32) -> RR {
        let d: [u8; N] = kani::any();
        RR { domain: root(), class: CLASS_IN, rrtype: RR_A, ttl, rdata: RData::Other(d.to_vec()) }
    }
    fn pkt(answer: Vec<RR>, nameserver: Vec<RR>, additional: Vec<RR>) -> DNSPkt {
        DNSPkt {
            qid: kani::any(),
            rd: kani::any(),
            tc: false,
            aa: kani::any(),
            qr: true,
            opcode: OPCODE_QUERY,
            cd: kani::any(),
            ad: kani::any(),
            ra: kani::any(),
            rcode: NOERROR,
            bufsize: 512,
            edns_ver: None,
            edns_do: false,
            question: Question { qdomain: root(), qclass: CLASS_IN, qtype: RR_A },
            answer,
            nameserver,
            additional,
            edns: None,
        }
    }

    // ------------------------------------------------------------------ C05: EDNS option accessors
    fn cookie_len<const N: usize>() {
        let d: [u8; N] = kani::any();
        let e = EdnsData(vec![EdnsOption { code: EDNS_COOKIE, data: d.to_vec() }]);
        let r = e.get_cookie();
        if let Some((client, server)) = r {
            assert!(client.len() == 8, "client cookie is 8 octets");
            assert!(N >= 8, "a cookie shorter than 8 octets is not a cookie");
            if let Some(s) = server {
                assert!(s.len() == N - 8, "server cookie is the remainder");
            }
        }
        kani::cover!(true, "reached");
        std::mem::forget(e);
    }

    /// VERIF: {"p":"C05","tier":"quick","fns":["dns::dnspkt::EdnsData::get_cookie","dns::dnspkt::EdnsData::get_opt"],"bounds":"COOKIE option payload lengths {0,1,7,8,9,16,40} selected symbolically, all payload bytes symbolic","oracle":"no panic / out-of-bounds slice; a result has an 8-octet client part","covers":1,"unwind":4}
    #[kani::proof]
    #[kani::unwind(4)]
    fn c05_edns_cookie_any_length() {
        match kani::any::<u8>() {
            0 => cookie_len::<0>(),
            1 => cookie_len::<1>(),
            2 => cookie_len::<7>(),
            3 => cookie_len::<8>(),
            4 => cookie_len::<9>(),
            5 => cookie_len::<16>(),
            _ => cookie_len::<40>(),
        }
    }

    fn ede_len<const N: usize>() {
        // code octets symbolic; text octets concrete ASCII (String::from_utf8_lossy over symbolic bytes is
        // out of reach for CBMC and irrelevant for the index arithmetic under test)
        let mut d = [b'x'; N];
        if N > 0 {
            d[0] = kani::any();
        }
        if N > 1 {
            d[1] = kani::any();
        }
        let e = EdnsData(vec![EdnsOption { code: EDNS_EDE, data: d.to_vec() }]);
        let r = e.get_extended_dns_error();
        if let Some((code, _txt)) = &r {
            assert!(N >= 2, "an EDE option shorter than its 2-octet code has no code");
            assert!(code.0 == u16::from_be_bytes([d[0], d[1 % N.max(1)]]), "info-code decoded big-endian");
        }
        kani::cover!(true, "reached");
        std::mem::forget(r);
        std::mem::forget(e);
    }

    /// VERIF: {"p":"C05","tier":"quick","fns":["dns::dnspkt::EdnsData::get_extended_dns_error","dns::dnspkt::EdnsData::get_opt"],"bounds":"EDE option payload lengths {0,1,2,3} selected symbolically; info-code octets symbolic, text concrete","oracle":"no panic / out-of-bounds index","covers":1,"unwind":6}
    #[kani::proof]
    #[kani::unwind(6)]
    fn c05_edns_ede_any_length() {
        match kani::any::<u8>() {
            0 => ede_len::<0>(),
            1 => ede_len::<1>(),
            2 => ede_len::<2>(),
            _ => ede_len::<3>(),
        }
    }

    // ------------------------------------------------------------------ C06: expiry and TTL ageing
    /// VERIF: {"p":"C06","tier":"quick","fns":["dns::dnspkt::DNSPkt::get_expiry"],"bounds":"1 answer + 1 authority + 1 additional record, the three TTLs symbolic over 0..2^32-1","oracle":"lifetime == min(TTL) over all three sections, in seconds","covers":3,"unwind":5}
    #[kani::proof]
    #[kani::unwind(5)]
    fn c06_expiry_is_min_ttl_111() {
        let (a, n, d): (u32, u32, u32) = (kani::any(), kani::any(), kani::any());
        let p = pkt(vec![rr_other::<0>(a)], vec![rr_other::<0>(n)], vec![rr_other::<0>(d)]);
        let e = p.get_expiry();
        let m = a.min(n).min(d);
        kani::cover!(m == a && a < n && a < d, "answer smallest");
        kani::cover!(m == n && n < a && n < d, "authority smallest");
        kani::cover!(m == d && d < a && d < n, "additional smallest");
        assert!(e == std::time::Duration::from_secs(m as u64), "get_expiry == min TTL of all sections");
        std::mem::forget(p);
    }

    /// VERIF: {"p":"C06","tier":"quick","fns":["dns::dnspkt::DNSPkt::get_expiry"],"bounds":"section shapes (2,0,0), (0,2,0), (0,0,2), (0,0,0) selected symbolically, TTLs symbolic","oracle":"lifetime == min TTL, zero for a reply without records (zero means: do not cache)","covers":2,"unwind":5}
    #[kani::proof]
    #[kani::unwind(5)]
    fn c06_expiry_is_min_ttl_shapes() {
        let (a, b): (u32, u32) = (kani::any(), kani::any());
        let two = || vec![rr_other::<0>(a), rr_other::<0>(b)];
        let s: u8 = kani::any();
        let p = match s {
            0 => pkt(two(), vec![], vec![]),
            1 => pkt(vec![], two(), vec![]),
            2 => pkt(vec![], vec![], two()),
            _ => pkt(vec![], vec![], vec![]),
        };
        let e = p.get_expiry();
        kani::cover!(s == 1 && a > b, "authority, second smaller");
        kani::cover!(s > 2, "empty reply");
        if s <= 2 {
            assert!(e == std::time::Duration::from_secs(a.min(b) as u64), "get_expiry == min TTL");
        } else {
            assert!(e == std::time::Duration::from_secs(0), "empty reply has lifetime zero");
        }
        std::mem::forget(p);
    }

    // Stub for the derived <RData as Clone>::clone: same result for the Other variant (the only one these
    // harnesses build).  Without it CBMC explores the clone arms of all 11 variants over reinterpreted
    // bytes (Vec clones of symbolic length) and runs out of memory.
    fn rdata_clone_other_only(r: &RData) -> RData {
        match r {
            RData::Other(v) => RData::Other(v.clone()),
            _ => {
                assert!(false, "harness only builds RData::Other");
                RData::Other(Vec::new())
            }
        }
    }

    // one record in section `sec` (0 answer, 1 authority, 2 additional), the other sections empty
    fn ttl_decrement_one(sec: u8) {
        let ttl: u32 = kani::any();
        let b: u8 = kani::any();
        let rr = RR { domain: root(), class: CLASS_IN, rrtype: RR_A, ttl, rdata: RData::Other(vec![b]) };
        let p = match sec {
            0 => pkt(vec![rr], vec![], vec![]),
            1 => pkt(vec![], vec![rr], vec![]),
            _ => pkt(vec![], vec![], vec![rr]),
        };
        let dec: u32 = kani::any();
        kani::assume(dec <= ttl); // the cache's precondition: decrement <= get_expiry() == min TTL (see dns_cache harnesses)
        let q = p.clone_with_ttl_decrement(dec);
        kani::cover!(dec > 0 && dec == ttl, "TTL reaches exactly zero");
        kani::cover!(dec == 0, "no ageing");
        let (na, nn, nd) = (q.answer.len(), q.nameserver.len(), q.additional.len());
        assert!(na == (sec == 0) as usize && nn == (sec == 1) as usize && nd == (sec == 2) as usize, "no record moved, dropped or invented");
        let r = match sec {
            0 => &q.answer[0],
            1 => &q.nameserver[0],
            _ => &q.additional[0],
        };
        assert!(r.ttl == ttl - dec, "TTL' == TTL - elapsed");
        assert!(r.ttl <= ttl, "TTL never grows");
        assert!(r.class == CLASS_IN && r.rrtype == RR_A && r.domain.0.is_empty(), "owner/class/type unchanged");
        match &r.rdata {
            RData::Other(v) => assert!(v.len() == 1 && v[0] == b, "rdata unchanged"),
            _ => assert!(false, "rdata kind unchanged"),
        }
        assert!(q.qid == p.qid && q.rcode == p.rcode && q.rd == p.rd && q.aa == p.aa && q.ra == p.ra && q.ad == p.ad && q.cd == p.cd && q.qr == p.qr && q.tc == p.tc, "header unchanged");
        std::mem::forget(p);
        std::mem::forget(q);
    }

    /// VERIF: {"p":"C06","tier":"quick","fns":["dns::dnspkt::DNSPkt::clone_with_ttl_decrement"],"bounds":"one record in the answer section (TTL symbolic over 0..2^32-1, one symbolic rdata octet), other sections empty; decrement symbolic under the cache's precondition decrement <= min TTL","oracle":"TTL' == TTL - decrement (never grows, never below zero, never wraps); header, owner, type, class, rdata and section membership unchanged","stubs":["<RData as Clone>::clone (derived) -> equivalent clone restricted to the RData::Other variant the harness builds"],"covers":2,"unwind":4}
    #[kani::proof]
    #[kani::unwind(4)]
    #[kani::stub(<RData as std::clone::Clone>::clone, rdata_clone_other_only)]
    fn c06_ttl_decrement_exact_answer() {
        ttl_decrement_one(0);
    }

    /// VERIF: {"p":"C06","tier":"quick","fns":["dns::dnspkt::DNSPkt::clone_with_ttl_decrement"],"bounds":"one record in the authority section (TTL symbolic over 0..2^32-1, one symbolic rdata octet), other sections empty; decrement symbolic under the cache's precondition decrement <= min TTL","oracle":"TTL' == TTL - decrement (never grows, never below zero, never wraps); header, owner, type, class, rdata and section membership unchanged","stubs":["<RData as Clone>::clone (derived) -> equivalent clone restricted to the RData::Other variant the harness builds"],"covers":2,"unwind":4}
    #[kani::proof]
    #[kani::unwind(4)]
    #[kani::stub(<RData as std::clone::Clone>::clone, rdata_clone_other_only)]
    fn c06_ttl_decrement_exact_authority() {
        ttl_decrement_one(1);
    }

    /// VERIF: {"p":"C06","tier":"quick","fns":["dns::dnspkt::DNSPkt::clone_with_ttl_decrement"],"bounds":"one record in the additional section (TTL symbolic over 0..2^32-1, one symbolic rdata octet), other sections empty; decrement symbolic under the cache's precondition decrement <= min TTL","oracle":"TTL' == TTL - decrement (never grows, never below zero, never wraps); header, owner, type, class, rdata and section membership unchanged","stubs":["<RData as Clone>::clone (derived) -> equivalent clone restricted to the RData::Other variant the harness builds"],"covers":2,"unwind":4}
    #[kani::proof]
    #[kani::unwind(4)]
    #[kani::stub(<RData as std::clone::Clone>::clone, rdata_clone_other_only)]
    fn c06_ttl_decrement_exact_additional() {
        ttl_decrement_one(2);
    }

    // ------------------------------------------------------------------ C15: suffix relation, ordering
    fn lower(b: u8) -> u8 {
        if b >= b'A' && b <= b'Z' { b + 32 } else { b }
    }
    fn label_eq_ci(a: &Label, b: &Label) -> bool {
        if a.0.len() != b.0.len() {
            return false;
        }
        let mut i = 0;
        while i < a.0.len() {
            if lower(a.0[i]) != lower(b.0[i]) {
                return false;
            }
            i += 1;
        }
        true
    }
    // reference: whole-label, ASCII case-insensitive suffix relation (RFC 1035 2.3.3 / RFC 4343)
    fn ref_ends_with(name: &Domain, suffix: &Domain) -> bool {
        if suffix.0.len() > name.0.len() {
            return false;
        }
        let off = name.0.len() - suffix.0.len();
        let mut i = 0;
        while i < suffix.0.len() {
            if !label_eq_ci(&name.0[off + i], &suffix.0[i]) {
                return false;
            }
            i += 1;
        }
        true
    }

    /// VERIF: {"p":"C15","tier":"quick","fns":["dns::dnspkt::Domain::ends_with"],"bounds":"query names of 3 labels (2,1,2 octets) against suffixes of 0,1,2,3 labels with the same label sizes, plus a 1-octet/2-octet size mismatch; all octets symbolic (any byte value, so every upper/lower case mix)","oracle":"ends_with == whole-label ASCII-case-insensitive suffix relation; the empty suffix matches everything","covers":3,"unwind":5}
    #[kani::proof]
    #[kani::unwind(5)]
    fn c15_ends_with_is_case_insensitive_label_suffix() {
        let name = Domain(vec![any_label::<2>(), any_label::<1>(), any_label::<2>()]);
        let s: u8 = kani::any();
        let suffix = match s {
            0 => Domain(vec![]),
            1 => Domain(vec![any_label::<2>()]),
            2 => Domain(vec![any_label::<1>(), any_label::<2>()]),
            3 => Domain(vec![any_label::<2>(), any_label::<1>(), any_label::<2>()]),
            4 => Domain(vec![any_label::<1>()]), // size mismatch with the last label: never a suffix
            _ => Domain(vec![any_label::<2>(), any_label::<2>(), any_label::<1>(), any_label::<2>()]), // longer than the name
        };
        let got = name.ends_with(&suffix);
        let want = ref_ends_with(&name, &suffix);
        kani::cover!(want && s == 2 && name.0[2].0[0] != suffix.0[1].0[0], "match that differs in case only");
        kani::cover!(!want && s == 1, "non-match");
        kani::cover!(s == 0 && want, "empty suffix matches");
        assert!(got == want, "ends_with == case-insensitive whole-label suffix");
        std::mem::forget(name);
        std::mem::forget(suffix);
    }

    /// VERIF: {"p":"C15","tier":"quick","fns":["dns::dnspkt::compare_longest_suffix"],"bounds":"suffix pairs with label counts 0..=2 (1-octet labels, symbolic octets)","oracle":"more labels sorts first (Less); antisymmetric; equal label count and equal labels <=> Equal","covers":2,"unwind":5}
    #[kani::proof]
    #[kani::unwind(5)]
    fn c15_compare_longest_suffix_order() {
        fn dom(n: u8) -> Domain {
            match n {
                0 => Domain(vec![]),
                1 => Domain(vec![any_label::<1>()]),
                _ => Domain(vec![any_label::<1>(), any_label::<1>()]),
            }
        }
        let (la, lb): (u8, u8) = (kani::any(), kani::any());
        kani::assume(la <= 2 && lb <= 2);
        let a = dom(la);
        let b = dom(lb);
        use std::cmp::Ordering::*;
        let ab = compare_longest_suffix(&a, &b);
        let ba = compare_longest_suffix(&b, &a);
        kani::cover!(la > lb, "first longer");
        kani::cover!(la == lb && ab == Equal && la == 2, "equal");
        if la > lb {
            assert!(ab == Less && ba == Greater, "longer suffix sorts first");
        } else if la < lb {
            assert!(ab == Greater && ba == Less, "shorter suffix sorts later");
        } else {
            assert!(ab == ba.reverse(), "antisymmetric");
            assert!((ab == Equal) == (a == b), "Equal <=> identical");
        }
        std::mem::forget(a);
        std::mem::forget(b);
    }
}
