// harnesses for this module (included by the isomer_erbium_verif hook)
