// Kani harnesses for crates/erbium-core/src/radv/mod.rs (C17: router advertisements carry exactly the configured
// values in RFC format).  Every harness builds an interface configuration of CONCRETE SHAPE (which options, how many
// prefixes/servers/domains, string lengths) with SYMBOLIC VALUES, runs the real private builder
// RaAdvService::build_announcement_pure and the real wire encoder (icmppkt::serialise_router_advertisement, reached
// through the helper in radv_icmppkt.rs), and decodes the bytes with the decoder below, written from RFC 4861
// 4.2/4.6, RFC 8106 5, RFC 8781 4 and RFC 8910 2.3 (erbium's own parser is not used).
//
// A failed assertion ends a path, so a sequence of assert!s would hide every defect behind the first one.  The
// field-by-field checks therefore go through `independent!`: ONE of the listed checks, chosen nondeterministically,
// is asserted per execution - the solver decides each of them over all configurations.
#[cfg(kani)]
mod k {
    use super::super::*;
    use config::ConfigValue;
    use std::net::{IpAddr, Ipv4Addr, Ipv6Addr};
    use std::time::Duration;

    macro_rules! independent {
        ($( $cond:expr => $msg:literal ),+ $(,)?) => {{
            let sel: u8 = kani::any();
            let mut k: u8 = 0;
            $( if sel == k { assert!($cond, $msg); } k += 1; )+
            let _ = k;
        }};
    }

    // ---------------------------------------------------------------- RFC decoder (independent of erbium's) ----
    fn be16(b: &[u8], o: usize) -> u16 {
        ((b[o] as u16) << 8) | b[o + 1] as u16
    }
    fn be32(b: &[u8], o: usize) -> u32 {
        ((b[o] as u32) << 24) | ((b[o + 1] as u32) << 16) | ((b[o + 2] as u32) << 8) | b[o + 3] as u32
    }
    fn be128(b: &[u8], o: usize) -> u128 {
        let mut v = 0u128;
        let mut i = 0;
        while i < 16 {
            v = (v << 8) | b[o + i] as u128;
            i += 1;
        }
        v
    }
    fn mask6(len: u8) -> u128 {
        if len == 0 {
            0
        } else if len >= 128 {
            u128::MAX
        } else {
            u128::MAX << (128 - len as u32)
        }
    }

    // RFC 4861 4.2 + 4.6: fixed 16-octet header (type 134, code 0), then options <type, length in units of 8 octets,
    // length != 0>, which must tile the message exactly.  Returns the number of options.
    fn check_framing(b: &[u8]) -> usize {
        assert!(b.len() >= 16 && b.len() % 8 == 0, "message length is a multiple of 8 octets (>= 16)");
        assert!(b[0] == 134 && b[1] == 0, "ICMPv6 type 134, code 0");
        let mut off = 16;
        let mut n = 0;
        while off < b.len() {
            assert!(off + 2 <= b.len(), "option header inside the message");
            let l = b[off + 1] as usize;
            assert!(l != 0, "option length is never 0 (RFC 4861 4.6)");
            assert!(off + 8 * l <= b.len(), "option lies inside the message");
            off += 8 * l;
            n += 1;
        }
        assert!(off == b.len(), "options tile the message exactly");
        n
    }

    // offset of the nth option of type `ty`, if any (call check_framing first)
    fn find_opt(b: &[u8], ty: u8, nth: usize) -> Option<usize> {
        let mut off = 16;
        let mut seen = 0;
        while off + 2 <= b.len() {
            let l = b[off + 1] as usize;
            if l == 0 {
                return None;
            }
            if b[off] == ty {
                if seen == nth {
                    return Some(off);
                }
                seen += 1;
            }
            off += 8 * l;
        }
        None
    }

    fn count_opt(b: &[u8], ty: u8) -> usize {
        let mut off = 16;
        let mut seen = 0;
        while off + 2 <= b.len() {
            let l = b[off + 1] as usize;
            if l == 0 {
                return seen;
            }
            if b[off] == ty {
                seen += 1;
            }
            off += 8 * l;
        }
        seen
    }

    // 32-bit seconds field: representable values exactly; larger ones clamped to 0xffffffff (= infinity)
    fn u32_exact(got: u32, want_secs: u64) -> bool {
        want_secs > u32::MAX as u64 || got as u64 == want_secs
    }
    fn u32_clamped(got: u32, want_secs: u64) -> bool {
        want_secs <= u32::MAX as u64 || got == u32::MAX
    }

    // ---------------------------------------------------------------- configuration builders -------------------
    // Vectors whose elements carry enum tags, niches or lengths that must stay concrete for CBMC are backed by typed
    // static arrays instead of malloc'd byte arrays (contents are still whatever the harness pushes).  Such vectors
    // must never be dropped or grown: every harness forgets its configuration.
    static mut PREFIX_BUF: [config::Prefix; 16] = [const {
        config::Prefix { addr: Ipv6Addr::UNSPECIFIED, prefixlen: 0, onlink: false, autonomous: false, valid: Duration::ZERO, preferred: Duration::ZERO }
    }; 16];
    static mut DNS_BUF: [IpAddr; 8] = [const { IpAddr::V4(Ipv4Addr::UNSPECIFIED) }; 8];
    static mut SEARCH_BUF: [String; 4] = [const { String::new() }; 4];
    fn prefix_vec() -> Vec<config::Prefix> {
        unsafe { Vec::from_raw_parts(std::ptr::addr_of_mut!(PREFIX_BUF) as *mut config::Prefix, 0, 16) }
    }
    fn dns_vec() -> Vec<IpAddr> {
        unsafe { Vec::from_raw_parts(std::ptr::addr_of_mut!(DNS_BUF) as *mut IpAddr, 0, 8) }
    }
    fn search_vec() -> Vec<String> {
        unsafe { Vec::from_raw_parts(std::ptr::addr_of_mut!(SEARCH_BUF) as *mut String, 0, 4) }
    }

    fn top(dns_servers: Vec<IpAddr>, dns_search: Vec<String>, captive_portal: Option<String>) -> crate::config::Config {
        crate::config::Config {
            #[cfg(feature = "dhcp")]
            dhcp: crate::dhcp::config::Config { policies: Vec::new() },
            ra: config::Config { interfaces: Vec::new() },
            dns_servers,
            dns_search,
            captive_portal,
            addresses: Vec::new(),
            listeners: Vec::new(),
            dns_listeners: crate::config::AddressType::BindInterface,
            #[cfg(feature = "dns")]
            dns_routes: Vec::new(),
            acls: Vec::new(),
        }
    }

    // an interface that emits no option at all (everything optional suppressed with `null`)
    fn quiet() -> config::Interface {
        config::Interface {
            name: String::new(),
            hoplimit: 0,
            managed: false,
            other: false,
            max_rtr_adv_interval: ConfigValue::NotSpecified,
            min_rtr_adv_interval: ConfigValue::NotSpecified,
            lifetime: ConfigValue::NotSpecified,
            reachable: Duration::from_secs(0),
            retrans: Duration::from_secs(0),
            mtu: ConfigValue::NotSpecified,
            prefixes: Vec::new(),
            rdnss_lifetime: ConfigValue::NotSpecified,
            rdnss: ConfigValue::DontSet,
            dnssl_lifetime: ConfigValue::NotSpecified,
            dnssl: ConfigValue::DontSet,
            captive_portal: ConfigValue::DontSet,
            pref64: None,
        }
    }

    // tri-state with symbolic state: returns (config value, the Duration a reader of the config expects)
    fn any_tri(v: Duration, dflt: Duration) -> (ConfigValue<Duration>, Duration) {
        match kani::any::<u8>() % 3 {
            0 => (ConfigValue::NotSpecified, dflt),
            1 => (ConfigValue::DontSet, dflt),
            _ => (ConfigValue::Value(v), v),
        }
    }

    fn emit(
        conf: &crate::config::Config,
        intf: &config::Interface,
        ll: Option<[u8; 6]>,
        mtu: Option<u32>,
        self6: Ipv6Addr,
        lifetime: Duration,
    ) -> Vec<u8> {
        let adv = RaAdvService::build_announcement_pure(conf, intf, ll, mtu, self6, lifetime);
        let b = adv.verif_serialise();
        std::mem::forget(adv);
        b
    }

    // ---------------------------------------------------------------- header ------------------------------------
    /// VERIF: {"p":"C17","tier":"quick","fns":["radv::RaAdvService::build_announcement_pure","radv::icmppkt::serialise_router_advertisement","radv::icmppkt::NDOptions::add_option"],"stubs":["<NDOptions as Default>::default -> empty option list with capacity 16 backed by a typed static array (CBMC cannot read enum discriminants back from malloc'd memory); push and iteration are the real code"],"bounds":"interface with every option suppressed; hop limit (all 256), managed/other flags, router lifetime tri-state NotSpecified/DontSet/Value(v) with v = any whole number of seconds 0..2^64-1, computed default lifetime 0..=9000 s: all symbolic","oracle":"RFC 4861 4.2 decode: 16-octet message, type 134 code 0, Cur Hop Limit, M bit 0x80, O bit 0x40, 6 reserved flag bits zero, Router Lifetime = configured seconds (or the default when not a Value); a lifetime > 65535 s must be clamped (65535 or the RFC maximum 9000), never wrapped","covers":3,"unwind":20}
    #[kani::proof]
    #[kani::unwind(20)]
    #[kani::stub(<crate::radv::icmppkt::NDOptions as std::default::Default>::default, crate::radv::icmppkt::NDOptions::verif_typed)]
    fn c17_header_flags_hoplimit_router_lifetime() {
        let hop: u8 = kani::any();
        let managed: bool = kani::any();
        let other: bool = kani::any();
        let v: u64 = kani::any();
        let dflt: u64 = kani::any();
        kani::assume(dflt <= 9000);
        let (tri, want) = any_tri(Duration::from_secs(v), Duration::from_secs(dflt));
        let conf = top(Vec::new(), Vec::new(), None);
        let mut intf = quiet();
        intf.hoplimit = hop;
        intf.managed = managed;
        intf.other = other;
        intf.lifetime = tri;
        let b = emit(&conf, &intf, None, None, Ipv6Addr::UNSPECIFIED, Duration::from_secs(dflt));
        let n = check_framing(&b);
        assert!(n == 0 && b.len() == 16, "no option configured: bare 16-octet header");
        let got = be16(&b, 6) as u64;
        let want = want.as_secs();
        kani::cover!(want > 0xffff, "lifetime not representable in 16 bits");
        kani::cover!(want == 9000 && managed && !other, "representable lifetime");
        kani::cover!(matches!(intf.lifetime, ConfigValue::DontSet), "null lifetime");
        independent! {
            b[4] == hop => "Cur Hop Limit == configured hop-limit",
            (b[5] & 0x80 != 0) == managed => "M flag == managed",
            (b[5] & 0x40 != 0) == other => "O flag == other",
            b[5] & 0x3f == 0 => "reserved flag bits are zero",
            want > 0xffff || got == want => "Router Lifetime representable in 16 bits is encoded exactly",
            want <= 0xffff || got == 0xffff || got == 9000 => "Router Lifetime above 65535 s is clamped, never silently wrapped",
        }
        std::mem::forget(b);
        std::mem::forget(intf);
        std::mem::forget(conf);
    }

    /// VERIF: {"p":"C17","tier":"quick","fns":["radv::RaAdvService::build_announcement_pure","radv::icmppkt::serialise_router_advertisement","radv::icmppkt::NDOptions::add_option"],"stubs":["<NDOptions as Default>::default -> empty option list with capacity 16 backed by a typed static array (CBMC cannot read enum discriminants back from malloc'd memory); push and iteration are the real code"],"bounds":"interface with every option suppressed; reachable and retransmit = any whole number of seconds 0..2^64-1 (the configuration parser only produces whole seconds)","oracle":"RFC 4861 4.2: Reachable Time and Retrans Timer are 32-bit millisecond fields = configured value * 1000; a value above 2^32-1 ms must be clamped (2^32-1, or 3,600,000 ms for Reachable Time, RFC 4861 6.2.1), never wrapped","covers":2,"unwind":20}
    #[kani::proof]
    #[kani::unwind(20)]
    #[kani::stub(<crate::radv::icmppkt::NDOptions as std::default::Default>::default, crate::radv::icmppkt::NDOptions::verif_typed)]
    fn c17_header_reachable_retrans() {
        let reach: u64 = kani::any();
        let retr: u64 = kani::any();
        let conf = top(Vec::new(), Vec::new(), None);
        let mut intf = quiet();
        intf.reachable = Duration::from_secs(reach);
        intf.retrans = Duration::from_secs(retr);
        let b = emit(&conf, &intf, None, None, Ipv6Addr::UNSPECIFIED, Duration::from_secs(0));
        let n = check_framing(&b);
        assert!(n == 0 && b.len() == 16, "no option configured: bare 16-octet header");
        let want_reach = reach as u128 * 1000;
        let want_retr = retr as u128 * 1000;
        let max = u32::MAX as u128;
        kani::cover!(want_reach > max, "reachable time beyond 32 bits of ms");
        kani::cover!(want_reach == 30_000 && want_retr == 1000, "typical values");
        independent! {
            want_reach > max || be32(&b, 8) as u128 == want_reach => "Reachable Time representable in 32 bits of ms is encoded exactly",
            want_reach <= max || be32(&b, 8) == u32::MAX || be32(&b, 8) == 3_600_000 => "Reachable Time above 2^32-1 ms is clamped, never silently wrapped",
            want_retr > max || be32(&b, 12) as u128 == want_retr => "Retrans Timer representable in 32 bits of ms is encoded exactly",
            want_retr <= max || be32(&b, 12) == u32::MAX => "Retrans Timer above 2^32-1 ms is clamped, never silently wrapped",
        }
        std::mem::forget(b);
        std::mem::forget(intf);
        std::mem::forget(conf);
    }

    // ---------------------------------------------------------------- source link-layer address + MTU ---------
    fn sllao_mtu(with_ll: bool, with_mtu: bool) {
        let ll: [u8; 6] = kani::any();
        let mtu: u32 = kani::any();
        let conf = top(Vec::new(), Vec::new(), None);
        let intf = quiet();
        let b = emit(
            &conf,
            &intf,
            if with_ll { Some(ll) } else { None },
            if with_mtu { Some(mtu) } else { None },
            Ipv6Addr::UNSPECIFIED,
            Duration::from_secs(0),
        );
        let n = check_framing(&b);
        assert!(n == with_ll as usize + with_mtu as usize, "exactly the configured options are present");
        match find_opt(&b, 1, 0) {
            Some(o) => {
                assert!(with_ll, "source link-layer option only when the interface has an address");
                assert!(b[o + 1] == 1, "ethernet SLLAO is 8 octets (RFC 4861 4.6.1)");
                let mut i = 0;
                while i < 6 {
                    assert!(b[o + 2 + i] == ll[i], "SLLAO carries the interface's link-layer address");
                    i += 1;
                }
            }
            None => assert!(!with_ll, "source link-layer option present"),
        }
        match find_opt(&b, 5, 0) {
            Some(o) => {
                assert!(with_mtu, "MTU option only when an MTU is to be advertised");
                independent! {
                    b[o + 1] == 1 => "MTU option length 1 (RFC 4861 4.6.4)",
                    be16(&b, o + 2) == 0 => "MTU option reserved field zero",
                    be32(&b, o + 4) == mtu => "MTU == configured MTU",
                }
            }
            None => assert!(!with_mtu, "MTU option present"),
        }
        std::mem::forget(b);
        std::mem::forget(intf);
        std::mem::forget(conf);
    }

    /// VERIF: {"p":"C17","tier":"quick","fns":["radv::RaAdvService::build_announcement_pure","radv::icmppkt::serialise_router_advertisement","radv::icmppkt::NDOptions::add_option"],"stubs":["<NDOptions as Default>::default -> empty option list with capacity 16 backed by a typed static array (CBMC cannot read enum discriminants back from malloc'd memory); push and iteration are the real code"],"bounds":"shapes {lladdr+MTU, lladdr only, MTU only}; 6 link-layer octets and the 32-bit MTU symbolic; all other options suppressed. (The mtu tri-state itself is resolved in the async build_announcement, which Kani cannot reach; the pure builder receives Option<u32>.)","oracle":"RFC 4861 4.6.1/4.6.4 decode: options present exactly as configured, SLLAO = the 6 octets, MTU option reserved 0 and MTU value exact; framing (multiples of 8, options tile the message)","covers":1,"unwind":20}
    #[kani::proof]
    #[kani::unwind(20)]
    #[kani::stub(<crate::radv::icmppkt::NDOptions as std::default::Default>::default, crate::radv::icmppkt::NDOptions::verif_typed)]
    fn c17_sllao_and_mtu_options() {
        match kani::any::<u8>() % 3 {
            0 => sllao_mtu(true, true),
            1 => sllao_mtu(true, false),
            _ => sllao_mtu(false, true),
        }
        kani::cover!(true, "reached");
    }

    // ---------------------------------------------------------------- prefix information ------------------------
    struct P {
        addr: u128,
        len: u8,
        onlink: bool,
        auto: bool,
        valid: u64,
        pref: u64,
    }
    fn any_p() -> P {
        let p = P { addr: kani::any(), len: kani::any(), onlink: kani::any(), auto: kani::any(), valid: kani::any(), pref: kani::any() };
        kani::assume(p.len <= 128);
        p
    }
    fn cfg_p(p: &P) -> config::Prefix {
        config::Prefix {
            addr: Ipv6Addr::from(p.addr),
            prefixlen: p.len,
            onlink: p.onlink,
            autonomous: p.auto,
            valid: Duration::from_secs(p.valid),
            preferred: Duration::from_secs(p.pref),
        }
    }
    // RFC 4861 4.6.2 decode of the prefix information option at offset o
    fn check_prefix(b: &[u8], o: usize, p: &P) {
        let got = be128(b, o + 16);
        independent! {
            b[o] == 3 && b[o + 1] == 4 => "prefix information option: type 3, length 4",
            b[o + 2] == p.len => "Prefix Length == configured length",
            (b[o + 3] & 0x80 != 0) == p.onlink => "L flag == on-link",
            (b[o + 3] & 0x40 != 0) == p.auto => "A flag == autonomous",
            b[o + 3] & 0x3f == 0 => "prefix option Reserved1 zero",
            u32_exact(be32(b, o + 4), p.valid) => "Valid Lifetime representable in 32 bits is encoded exactly",
            u32_clamped(be32(b, o + 4), p.valid) => "Valid Lifetime above 2^32-1 s is clamped to 0xffffffff, never silently wrapped",
            u32_exact(be32(b, o + 8), p.pref) => "Preferred Lifetime representable in 32 bits is encoded exactly",
            u32_clamped(be32(b, o + 8), p.pref) => "Preferred Lifetime above 2^32-1 s is clamped to 0xffffffff, never silently wrapped",
            be32(b, o + 12) == 0 => "prefix option Reserved2 zero",
            got & mask6(p.len) == p.addr & mask6(p.len) => "prefix bits within the prefix length == configured prefix",
            got & !mask6(p.len) == 0 => "prefix bits beyond the prefix length are zero (RFC 4861 4.6.2)",
        }
    }

    /// VERIF: {"p":"C17","tier":"experimental","fns":["radv::RaAdvService::build_announcement_pure","radv::icmppkt::serialise_router_advertisement","radv::icmppkt::NDOptions::add_option"],"stubs":["<NDOptions as Default>::default -> empty option list with capacity 16 backed by a typed static array (CBMC cannot read enum discriminants back from malloc'd memory); push and iteration are the real code"],"bounds":"one prefix: all 2^128 addresses (host bits free, as the configuration parser stores them unmasked), prefix length 0..=128, on-link/autonomous flags, valid and preferred lifetimes any whole seconds 0..2^64-1: all symbolic; other options suppressed","oracle":"RFC 4861 4.6.2 decode: type 3 length 4, prefix length, L/A flags, Reserved1/Reserved2 zero, lifetimes exact or clamped to 0xffffffff (never wrapped), prefix bits equal inside the length and zero beyond it","covers":3,"unwind":20}
    #[kani::proof]
    #[kani::unwind(20)]
    #[kani::stub(<crate::radv::icmppkt::NDOptions as std::default::Default>::default, crate::radv::icmppkt::NDOptions::verif_typed)]
    fn c17_prefix_option_one() {
        let p = any_p();
        let conf = top(Vec::new(), Vec::new(), None);
        let mut intf = quiet();
        intf.prefixes = prefix_vec();
        intf.prefixes.push(cfg_p(&p));
        let b = emit(&conf, &intf, None, None, Ipv6Addr::UNSPECIFIED, Duration::from_secs(0));
        let n = check_framing(&b);
        assert!(n == 1 && b.len() == 48, "exactly one 32-octet option");
        kani::cover!(p.valid > u32::MAX as u64, "valid lifetime beyond 32 bits");
        kani::cover!(p.addr & !mask6(p.len) != 0, "configured prefix has host bits set");
        kani::cover!(p.len == 64 && p.valid == 2592000 && p.pref == 604800, "typical prefix");
        match find_opt(&b, 3, 0) {
            Some(o) => check_prefix(&b, o, &p),
            None => assert!(false, "configured prefix is advertised"),
        }
        std::mem::forget(b);
        std::mem::forget(intf);
        std::mem::forget(conf);
    }

    /// VERIF: {"p":"C17","tier":"experimental","fns":["radv::RaAdvService::build_announcement_pure","radv::icmppkt::serialise_router_advertisement","radv::icmppkt::NDOptions::add_option"],"stubs":["<NDOptions as Default>::default -> empty option list with capacity 16 backed by a typed static array (CBMC cannot read enum discriminants back from malloc'd memory); push and iteration are the real code"],"bounds":"two prefixes, every field of both symbolic as in c17_prefix_option_one but lifetimes restricted to 0..2^32-1 s and addresses already masked to their length (the out-of-range cases are decided by c17_prefix_option_one); with link-layer address and MTU options in front","oracle":"both prefixes decoded at their own option, in configuration order, each field exact; framing","covers":1,"unwind":20}
    #[kani::proof]
    #[kani::unwind(20)]
    #[kani::stub(<crate::radv::icmppkt::NDOptions as std::default::Default>::default, crate::radv::icmppkt::NDOptions::verif_typed)]
    fn c17_prefix_option_two() {
        let p0 = any_p();
        let p1 = any_p();
        kani::assume(p0.valid <= u32::MAX as u64 && p0.pref <= u32::MAX as u64 && p0.addr & !mask6(p0.len) == 0);
        kani::assume(p1.valid <= u32::MAX as u64 && p1.pref <= u32::MAX as u64 && p1.addr & !mask6(p1.len) == 0);
        let conf = top(Vec::new(), Vec::new(), None);
        let mut intf = quiet();
        intf.prefixes = prefix_vec();
        intf.prefixes.push(cfg_p(&p0));
        intf.prefixes.push(cfg_p(&p1));
        let b = emit(&conf, &intf, Some(kani::any()), Some(kani::any()), Ipv6Addr::UNSPECIFIED, Duration::from_secs(0));
        let n = check_framing(&b);
        assert!(n == 4 && count_opt(&b, 3) == 2, "lladdr, MTU and exactly two prefix options");
        match (find_opt(&b, 3, 0), find_opt(&b, 3, 1)) {
            (Some(o0), Some(o1)) => {
                kani::cover!(p0.len != p1.len, "two different prefixes");
                if kani::any() {
                    check_prefix(&b, o0, &p0);
                } else {
                    check_prefix(&b, o1, &p1);
                }
            }
            _ => assert!(false, "both configured prefixes are advertised"),
        }
        std::mem::forget(b);
        std::mem::forget(intf);
        std::mem::forget(conf);
    }

    // ---------------------------------------------------------------- RDNSS (RFC 8106 5.1) ----------------------
    const DEFAULT_DNS_LIFETIME: u64 = 1800; // RFC 8106 5.1: 3 * MaxRtrAdvInterval (600 s)

    // decode the RDNSS option at o: N addresses expected; configured[i] == 0 means "$self6"
    fn check_rdnss<const N: usize>(b: &[u8], o: usize, configured: [u128; N], self6: u128, lifetime: u64) {
        independent! {
            b[o] == 25 && b[o + 1] as usize == 1 + 2 * N => "RDNSS option: type 25, length 1 + 2 * number of addresses",
            be16(b, o + 2) == 0 => "RDNSS reserved field zero",
            u32_exact(be32(b, o + 4), lifetime) => "RDNSS Lifetime representable in 32 bits is encoded exactly",
            u32_clamped(be32(b, o + 4), lifetime) => "RDNSS Lifetime above 2^32-1 s is clamped to 0xffffffff, never silently wrapped",
        }
        if b[o + 1] as usize == 1 + 2 * N {
            let mut i = 0;
            while i < N {
                let got = be128(b, o + 8 + 16 * i);
                independent! {
                    configured[i] == 0 || got == configured[i] => "RDNSS address == configured address, in order",
                    configured[i] != 0 || got == self6 => "$self6 (::) in the server list is replaced by the interface address",
                }
                i += 1;
            }
        }
    }

    fn rdnss_intf<const N: usize>() {
        let a: [u128; N] = kani::any();
        let self6: u128 = kani::any();
        kani::assume(self6 != 0);
        let lt: u64 = kani::any();
        let (tri, want_lt) = any_tri(Duration::from_secs(lt), Duration::from_secs(DEFAULT_DNS_LIFETIME));
        // a top-level server exists but the interface-level list overrides it
        let conf = top(vec![IpAddr::V6(Ipv6Addr::from(kani::any::<u128>()))], Vec::new(), None);
        let mut intf = quiet();
        let mut v = Vec::with_capacity(N);
        let mut i = 0;
        while i < N {
            v.push(Ipv6Addr::from(a[i]));
            i += 1;
        }
        intf.rdnss = ConfigValue::Value(v);
        intf.rdnss_lifetime = tri;
        let b = emit(&conf, &intf, None, None, Ipv6Addr::from(self6), Duration::from_secs(0));
        let n = check_framing(&b);
        assert!(n == 1 && count_opt(&b, 25) == 1, "exactly one RDNSS option");
        match find_opt(&b, 25, 0) {
            Some(o) => check_rdnss::<N>(&b, o, a, self6, want_lt.as_secs()),
            None => assert!(false, "configured DNS servers are advertised"),
        }
        std::mem::forget(b);
        std::mem::forget(intf);
        std::mem::forget(conf);
    }

    /// VERIF: {"p":"C17","tier":"quick","fns":["radv::RaAdvService::build_announcement_pure","radv::icmppkt::serialise_router_advertisement","radv::icmppkt::NDOptions::add_option"],"stubs":["<NDOptions as Default>::default -> empty option list with capacity 16 backed by a typed static array (CBMC cannot read enum discriminants back from malloc'd memory); push and iteration are the real code"],"bounds":"interface-level dns-servers.addresses with 1 address (all 2^128 values, including :: = $self6, which erbium.conf(5) documents as usable here), interface address any non-zero value, dns-servers.lifetime tri-state with any whole seconds 0..2^64-1; a top-level server is configured too and must be overridden","oracle":"RFC 8106 5.1 decode: type 25, length 1+2n, reserved 0, lifetime exact or clamped to 0xffffffff (default 1800 s when not a Value), addresses in order with :: replaced by the interface address","covers":1,"unwind":20}
    #[kani::proof]
    #[kani::unwind(20)]
    #[kani::stub(<crate::radv::icmppkt::NDOptions as std::default::Default>::default, crate::radv::icmppkt::NDOptions::verif_typed)]
    fn c17_rdnss_interface_level() {
        rdnss_intf::<1>();
        kani::cover!(true, "one server");
    }

    /// VERIF: {"p":"C17","tier":"experimental","fns":["radv::RaAdvService::build_announcement_pure","radv::icmppkt::serialise_router_advertisement","radv::icmppkt::NDOptions::add_option"],"stubs":["<NDOptions as Default>::default -> empty option list with capacity 16 backed by a typed static array (CBMC cannot read enum discriminants back from malloc'd memory); push and iteration are the real code"],"bounds":"interface-level dns-servers.addresses with 2 addresses (all 2^128 values each, including :: = $self6, which erbium.conf(5) documents as usable here), interface address any non-zero value, dns-servers.lifetime tri-state with any whole seconds 0..2^64-1; a top-level server is configured too and must be overridden","oracle":"RFC 8106 5.1 decode: type 25, length 1+2n, reserved 0, lifetime exact or clamped to 0xffffffff (default 1800 s when not a Value), addresses in order with :: replaced by the interface address","covers":1,"unwind":20}
    #[kani::proof]
    #[kani::unwind(20)]
    #[kani::stub(<crate::radv::icmppkt::NDOptions as std::default::Default>::default, crate::radv::icmppkt::NDOptions::verif_typed)]
    fn c17_rdnss_interface_level_two() {
        rdnss_intf::<2>();
        kani::cover!(true, "two servers");
    }

    /// VERIF: {"p":"C17","tier":"quick","fns":["radv::RaAdvService::build_announcement_pure","radv::icmppkt::serialise_router_advertisement","radv::icmppkt::NDOptions::add_option"],"stubs":["<NDOptions as Default>::default -> empty option list with capacity 16 backed by a typed static array (CBMC cannot read enum discriminants back from malloc'd memory); push and iteration are the real code"],"bounds":"interface dns-servers not specified; top-level dns-servers = [IPv4 (symbolic), IPv6 a, IPv6 b] with a, b any of 2^128 values (:: = $self6), interface address non-zero symbolic, interface-level lifetime tri-state symbolic","oracle":"RFC 8106 5.1 decode: one RDNSS option with exactly the two IPv6 servers in order, :: replaced by the interface address; the IPv4 server is not advertised","covers":2,"unwind":20}
    #[kani::proof]
    #[kani::unwind(20)]
    #[kani::stub(<crate::radv::icmppkt::NDOptions as std::default::Default>::default, crate::radv::icmppkt::NDOptions::verif_typed)]
    fn c17_rdnss_top_level_default() {
        let a: [u128; 2] = kani::any();
        let self6: u128 = kani::any();
        kani::assume(self6 != 0);
        let lt: u64 = kani::any();
        let (tri, want_lt) = any_tri(Duration::from_secs(lt), Duration::from_secs(DEFAULT_DNS_LIFETIME));
        let mut servers = dns_vec();
        servers.push(IpAddr::V4(Ipv4Addr::from(kani::any::<u32>())));
        servers.push(IpAddr::V6(Ipv6Addr::from(a[0])));
        servers.push(IpAddr::V6(Ipv6Addr::from(a[1])));
        let conf = top(servers, Vec::new(), None);
        let mut intf = quiet();
        intf.rdnss = ConfigValue::NotSpecified;
        intf.rdnss_lifetime = tri;
        let b = emit(&conf, &intf, None, None, Ipv6Addr::from(self6), Duration::from_secs(0));
        let n = check_framing(&b);
        assert!(n == 1 && count_opt(&b, 25) == 1, "exactly one RDNSS option");
        kani::cover!(a[0] == 0 && a[1] != 0, "$self6 first");
        kani::cover!(a[0] != 0 && a[1] != 0, "two literal servers");
        match find_opt(&b, 25, 0) {
            Some(o) => check_rdnss::<2>(&b, o, a, self6, want_lt.as_secs()),
            None => assert!(false, "top-level DNS servers are advertised by default"),
        }
        std::mem::forget(b);
        std::mem::forget(intf);
        std::mem::forget(conf);
    }

    /// VERIF: {"p":"C17","tier":"quick","fns":["radv::RaAdvService::build_announcement_pure","radv::icmppkt::serialise_router_advertisement","radv::icmppkt::NDOptions::add_option"],"stubs":["<NDOptions as Default>::default -> empty option list with capacity 16 backed by a typed static array (CBMC cannot read enum discriminants back from malloc'd memory); push and iteration are the real code"],"bounds":"interface dns-servers.addresses: null (DontSet), dns-search.domains: null and captive-portal: null, while the top level configures two IPv6 servers (symbolic), a search domain and a portal URL; interface-level lifetimes symbolic","oracle":"null suppresses the option: no RDNSS (25), DNSSL (31) or captive-portal (37) option; bare 16-octet header","covers":1,"unwind":20}
    #[kani::proof]
    #[kani::unwind(20)]
    #[kani::stub(<crate::radv::icmppkt::NDOptions as std::default::Default>::default, crate::radv::icmppkt::NDOptions::verif_typed)]
    fn c17_null_suppresses_options() {
        let conf = top(
            vec![IpAddr::V6(Ipv6Addr::from(kani::any::<u128>())), IpAddr::V6(Ipv6Addr::from(kani::any::<u128>()))],
            vec![String::from("a.bc")],
            Some(String::from("http://x/")),
        );
        let mut intf = quiet();
        intf.rdnss_lifetime = ConfigValue::Value(Duration::from_secs(kani::any()));
        intf.dnssl_lifetime = ConfigValue::Value(Duration::from_secs(kani::any()));
        let b = emit(&conf, &intf, None, None, Ipv6Addr::from(kani::any::<u128>()), Duration::from_secs(0));
        let n = check_framing(&b);
        independent! {
            count_opt(&b, 25) == 0 => "dns-servers.addresses: null suppresses RDNSS",
            count_opt(&b, 31) == 0 => "dns-search.domains: null suppresses DNSSL",
            count_opt(&b, 37) == 0 => "captive-portal: null suppresses the captive-portal option",
            n == 0 && b.len() == 16 => "nothing else is emitted",
        }
        kani::cover!(true, "reached");
        std::mem::forget(b);
        std::mem::forget(intf);
        std::mem::forget(conf);
    }

    // sel (concrete per call): 0 = top level has one IPv4 server only, 1 = top-level list empty, 2 = interface-level []
    fn rdnss_absent(sel: u8) {
        let mut servers = dns_vec();
        if sel == 0 {
            servers.push(IpAddr::V4(Ipv4Addr::from(kani::any::<u32>())));
        }
        let conf = top(servers, Vec::new(), None);
        let mut intf = quiet();
        intf.rdnss = if sel == 2 { ConfigValue::Value(Vec::new()) } else { ConfigValue::NotSpecified };
        let b = emit(&conf, &intf, None, None, Ipv6Addr::from(kani::any::<u128>()), Duration::from_secs(0));
        check_framing(&b);
        match find_opt(&b, 25, 0) {
            Some(o) => assert!(b[o + 1] >= 3, "an RDNSS option carries at least one address (Length >= 3, RFC 8106 5.1/5.3.1)"),
            None => {}
        }
        std::mem::forget(b);
        std::mem::forget(intf);
        std::mem::forget(conf);
    }

    /// VERIF: {"p":"C17","tier":"quick","fns":["radv::RaAdvService::build_announcement_pure","radv::icmppkt::serialise_router_advertisement","radv::icmppkt::NDOptions::add_option"],"stubs":["<NDOptions as Default>::default -> empty option list with capacity 16 backed by a typed static array (CBMC cannot read enum discriminants back from malloc'd memory); push and iteration are the real code"],"bounds":"no IPv6 DNS server to advertise: (a) interface dns-servers not specified and top-level dns-servers = [one IPv4 address (symbolic)], (b) top-level list empty, (c) interface-level addresses: []; other options suppressed","oracle":"RFC 8106 5.1 / 5.3.1: an RDNSS option carries at least one address (Length >= 3, hosts treat a smaller Length as invalid) - with no server to advertise no RDNSS option is sent","covers":1,"unwind":20}
    #[kani::proof]
    #[kani::unwind(20)]
    #[kani::stub(<crate::radv::icmppkt::NDOptions as std::default::Default>::default, crate::radv::icmppkt::NDOptions::verif_typed)]
    fn c17_rdnss_absent_without_servers() {
        kani::cover!(true, "reached");
        match kani::any::<u8>() % 3 {
            0 => rdnss_absent(0),
            1 => rdnss_absent(1),
            _ => rdnss_absent(2),
        }
    }

    // ---------------------------------------------------------------- DNSSL (RFC 8106 5.2) ---------------------
    // Expected wire form of the domain list (RFC 1035 3.1 labels, each name ends with the zero label, zero padding
    // to a multiple of 8) is written out by hand per shape.
    fn check_dnssl(b: &[u8], o: usize, names: &[u8], lifetime: u64) {
        let padded = (names.len() + 7) / 8 * 8;
        independent! {
            b[o] == 31 && b[o + 1] as usize == 1 + padded / 8 => "DNSSL option: type 31, length 1 + ceil(names/8)",
            be16(b, o + 2) == 0 => "DNSSL reserved field zero",
            u32_exact(be32(b, o + 4), lifetime) => "DNSSL Lifetime representable in 32 bits is encoded exactly",
            u32_clamped(be32(b, o + 4), lifetime) => "DNSSL Lifetime above 2^32-1 s is clamped to 0xffffffff, never silently wrapped",
        }
        if b[o + 1] as usize == 1 + padded / 8 {
            let mut i = 0;
            while i < padded {
                let want = if i < names.len() { names[i] } else { 0 };
                assert!(b[o + 8 + i] == want, "DNSSL names: RFC 1035 labels in configuration order, zero padded");
                i += 1;
            }
        }
    }

    /// VERIF: {"p":"C17","tier":"experimental","fns":["radv::RaAdvService::build_announcement_pure","radv::icmppkt::serialise_router_advertisement","radv::icmppkt::NDOptions::add_option"],"stubs":["<NDOptions as Default>::default -> empty option list with capacity 16 backed by a typed static array (CBMC cannot read enum discriminants back from malloc'd memory); push and iteration are the real code"],"bounds":"search list shapes: interface-level [\"a.bc\",\"de\"] (top level has another list that must be overridden) and interface not specified -> top-level [\"x.yz\"]; dns-search.lifetime tri-state with any whole seconds 0..2^64-1","oracle":"RFC 8106 5.2 decode: type 31, length, reserved 0, lifetime exact or clamped (default 1800 s), names = 01 a 02 b c 00 02 d e 00 (+6 zero octets) resp. 01 x 02 y z 00 (+2 zero octets)","covers":2,"unwind":24}
    #[kani::proof]
    #[kani::unwind(24)]
    #[kani::stub(<crate::radv::icmppkt::NDOptions as std::default::Default>::default, crate::radv::icmppkt::NDOptions::verif_typed)]
    fn c17_dnssl_option() {
        let lt: u64 = kani::any();
        let (tri, want_lt) = any_tri(Duration::from_secs(lt), Duration::from_secs(DEFAULT_DNS_LIFETIME));
        let conf = top(Vec::new(), vec![String::from("x.yz")], None);
        let mut intf = quiet();
        intf.dnssl_lifetime = tri;
        let interface_level: bool = kani::any();
        if interface_level {
            intf.dnssl = ConfigValue::Value(vec![String::from("a.bc"), String::from("de")]);
        } else {
            intf.dnssl = ConfigValue::NotSpecified;
        }
        let b = emit(&conf, &intf, None, None, Ipv6Addr::UNSPECIFIED, Duration::from_secs(0));
        let n = check_framing(&b);
        assert!(n == 1 && count_opt(&b, 31) == 1, "exactly one DNSSL option");
        kani::cover!(interface_level && want_lt.as_secs() > u32::MAX as u64, "lifetime beyond 32 bits");
        kani::cover!(!interface_level, "top-level default list");
        match find_opt(&b, 31, 0) {
            Some(o) => {
                if interface_level {
                    check_dnssl(&b, o, &[1, b'a', 2, b'b', b'c', 0, 2, b'd', b'e', 0], want_lt.as_secs());
                } else {
                    check_dnssl(&b, o, &[1, b'x', 2, b'y', b'z', 0], want_lt.as_secs());
                }
            }
            None => assert!(false, "configured search list is advertised"),
        }
        std::mem::forget(b);
        std::mem::forget(intf);
        std::mem::forget(conf);
    }

    /// VERIF: {"p":"C17","tier":"experimental","fns":["radv::RaAdvService::build_announcement_pure","radv::icmppkt::serialise_router_advertisement","radv::icmppkt::NDOptions::add_option"],"stubs":["<NDOptions as Default>::default -> empty option list with capacity 16 backed by a typed static array (CBMC cannot read enum discriminants back from malloc'd memory); push and iteration are the real code"],"bounds":"no search domain configured: (a) interface dns-search not specified and top-level dns-search empty (the configuration loader default), (b) interface-level domains: []","oracle":"RFC 8106 5.2 / 5.3.1: a DNSSL option carries at least one domain name (Length >= 2, hosts treat a smaller Length as invalid) - with no domain configured no DNSSL option is sent","covers":1,"unwind":20}
    #[kani::proof]
    #[kani::unwind(20)]
    #[kani::stub(<crate::radv::icmppkt::NDOptions as std::default::Default>::default, crate::radv::icmppkt::NDOptions::verif_typed)]
    fn c17_dnssl_absent_without_domains() {
        let conf = top(Vec::new(), Vec::new(), None);
        let mut intf = quiet();
        let sel: bool = kani::any();
        intf.dnssl = if sel { ConfigValue::Value(Vec::new()) } else { ConfigValue::NotSpecified };
        let b = emit(&conf, &intf, None, None, Ipv6Addr::UNSPECIFIED, Duration::from_secs(0));
        check_framing(&b);
        kani::cover!(!sel, "default configuration");
        match find_opt(&b, 31, 0) {
            Some(o) => assert!(b[o + 1] >= 2, "a DNSSL option carries at least one domain name (Length >= 2, RFC 8106 5.2/5.3.1)"),
            None => {}
        }
        std::mem::forget(b);
        std::mem::forget(intf);
        std::mem::forget(conf);
    }

    /// VERIF: {"p":"C17","tier":"experimental","fns":["radv::RaAdvService::build_announcement_pure","radv::icmppkt::serialise_router_advertisement","radv::icmppkt::NDOptions::add_option"],"stubs":["<NDOptions as Default>::default -> empty option list with capacity 16 backed by a typed static array (CBMC cannot read enum discriminants back from malloc'd memory); push and iteration are the real code"],"bounds":"interface-level search list with ONE domain made of a single 64-octet label (all a); RFC 1035 2.3.4 limits a label to 63 octets, so the wire format cannot represent it","oracle":"the unrepresentable domain is rejected (no DNSSL option, or none that carries it): every label-length octet met while walking the names of an emitted DNSSL option is <= 63 (RFC 1035 3.1: the two top bits of a length octet are zero)","covers":1,"unwind":80}
    #[kani::proof]
    #[kani::unwind(80)]
    #[kani::stub(<crate::radv::icmppkt::NDOptions as std::default::Default>::default, crate::radv::icmppkt::NDOptions::verif_typed)]
    fn c17_dnssl_label_too_long() {
        let conf = top(Vec::new(), Vec::new(), None);
        let mut intf = quiet();
        let label = [b'a'; 64];
        intf.dnssl = ConfigValue::Value(vec![unsafe { String::from_utf8_unchecked(label.to_vec()) }]);
        let b = emit(&conf, &intf, None, None, Ipv6Addr::UNSPECIFIED, Duration::from_secs(0));
        check_framing(&b);
        kani::cover!(true, "reached");
        if let Some(o) = find_opt(&b, 31, 0) {
            // walk the names: <len> <len octets> ... 0; a zero where a name would start begins the padding
            let end = o + 8 * b[o + 1] as usize;
            let mut p = o + 8;
            let mut steps = 0;
            while p < end && steps < 70 {
                let l = b[p] as usize;
                assert!(l <= 63, "DNSSL label length octet <= 63 (a longer label is rejected, not emitted)");
                p += 1 + l;
                steps += 1;
            }
        }
        std::mem::forget(b);
        std::mem::forget(intf);
        std::mem::forget(conf);
    }

    // ---------------------------------------------------------------- PREF64 (RFC 8781 4) ----------------------
    /// VERIF: {"p":"C17","tier":"quick","fns":["radv::RaAdvService::build_announcement_pure","radv::icmppkt::serialise_router_advertisement","radv::icmppkt::NDOptions::add_option"],"stubs":["<NDOptions as Default>::default -> empty option list with capacity 16 backed by a typed static array (CBMC cannot read enum discriminants back from malloc'd memory); push and iteration are the real code"],"bounds":"pref64 with prefix length in {32,40,48,56,64,96}, all 2^128 prefix values (bits beyond the length free), lifetime any whole seconds 0..2^64-1: all symbolic; other options suppressed","oracle":"RFC 8781 4 decode: type 38, length 2, PLC per table (0->96,1->64,2->56,3->48,4->40,5->32) gives the configured length, 13-bit Scaled Lifetime * 8 s = configured lifetime rounded to a multiple of 8 s (down or up) or clamped to 8191 units when above 65528 s (never wrapped), highest 96 bits of the prefix equal inside the length and zero beyond","covers":3,"unwind":20}
    #[kani::proof]
    #[kani::unwind(20)]
    #[kani::stub(<crate::radv::icmppkt::NDOptions as std::default::Default>::default, crate::radv::icmppkt::NDOptions::verif_typed)]
    fn c17_pref64_option() {
        let plen: u8 = match kani::any::<u8>() % 6 {
            0 => 32,
            1 => 40,
            2 => 48,
            3 => 56,
            4 => 64,
            _ => 96,
        };
        let prefix: u128 = kani::any();
        let lt: u64 = kani::any();
        let conf = top(Vec::new(), Vec::new(), None);
        let mut intf = quiet();
        intf.pref64 = Some(config::Pref64 { lifetime: Duration::from_secs(lt), prefix: Ipv6Addr::from(prefix), prefixlen: plen });
        let b = emit(&conf, &intf, None, None, Ipv6Addr::UNSPECIFIED, Duration::from_secs(0));
        let n = check_framing(&b);
        assert!(n == 1 && b.len() == 32, "exactly one 16-octet option");
        kani::cover!(plen == 96 && lt == 600, "the configuration erbium's own unit test uses");
        kani::cover!(plen == 64 && lt % 8 == 0 && lt <= 65528, "/64, representable lifetime");
        kani::cover!(lt > 65528, "lifetime beyond 13 bits of 8 s units");
        match find_opt(&b, 38, 0) {
            Some(o) => {
                let w = be16(&b, o + 2);
                let scaled = (w >> 3) as u64;
                let dec_len: u8 = match w & 7 {
                    0 => 96,
                    1 => 64,
                    2 => 56,
                    3 => 48,
                    4 => 40,
                    5 => 32,
                    _ => 0,
                };
                // highest 96 bits of the prefix
                let mut hi: u128 = 0;
                let mut i = 0;
                while i < 12 {
                    hi = (hi << 8) | b[o + 4 + i] as u128;
                    i += 1;
                }
                let got = hi << 32;
                independent! {
                    b[o + 1] == 2 => "PREF64 option length 2",
                    dec_len == plen => "Prefix Length Code decodes (RFC 8781 table) to the configured NAT64 prefix length",
                    lt > 65528 || scaled == lt / 8 || scaled == (lt + 7) / 8 => "Scaled Lifetime * 8 s == configured lifetime (to the 8 s granularity)",
                    lt <= 65528 || scaled == 8191 => "PREF64 lifetime above 65528 s is clamped to 8191 units, never silently wrapped",
                    got & mask6(plen) == prefix & mask6(plen) => "PREF64 prefix bits within the prefix length == configured prefix",
                    got & !mask6(plen) == 0 => "PREF64 prefix bits beyond the prefix length are zero (RFC 8781 4)",
                }
            }
            None => assert!(false, "configured NAT64 prefix is advertised"),
        }
        std::mem::forget(b);
        std::mem::forget(intf);
        std::mem::forget(conf);
    }

    // ---------------------------------------------------------------- captive portal (RFC 8910 2.3) ------------
    fn ascii_url<const L: usize>() -> ([u8; L], String) {
        let mut u: [u8; L] = kani::any();
        let mut i = 0;
        while i < L {
            u[i] = 0x21 + (u[i] % 0x5e); // printable ASCII, never NUL
            i += 1;
        }
        let s = unsafe { String::from_utf8_unchecked(u.to_vec()) };
        (u, s)
    }

    // src: 0 = interface-level value (top level has a different one), 1 = not specified -> top-level value
    fn portal<const L: usize>(src: u8) {
        let (u, s) = ascii_url::<L>();
        let conf = top(Vec::new(), Vec::new(), if src == 0 { Some(String::from("zz")) } else { Some(s.clone()) });
        let mut intf = quiet();
        intf.captive_portal = if src == 0 { ConfigValue::Value(s) } else { ConfigValue::NotSpecified };
        let b = emit(&conf, &intf, None, None, Ipv6Addr::UNSPECIFIED, Duration::from_secs(0));
        let n = check_framing(&b);
        assert!(n == 1 && count_opt(&b, 37) == 1, "exactly one captive-portal option");
        match find_opt(&b, 37, 0) {
            Some(o) => {
                let total = (2 + L + 7) / 8 * 8;
                assert!(b[o + 1] as usize * 8 == total, "captive-portal option length = ceil((2 + URI length) / 8)");
                let mut i = 0;
                while i + 2 < total {
                    let want = if i < L { u[i] } else { 0 };
                    assert!(b[o + 2 + i] == want, "URI octets == configured URL, NUL padded (RFC 8910 2.3)");
                    i += 1;
                }
            }
            None => assert!(false, "configured captive portal is advertised"),
        }
        std::mem::forget(b);
        std::mem::forget(intf);
        std::mem::forget(conf);
    }

    /// VERIF: {"p":"C17","tier":"thorough","fns":["radv::RaAdvService::build_announcement_pure","radv::icmppkt::serialise_router_advertisement","radv::icmppkt::NDOptions::add_option"],"stubs":["<NDOptions as Default>::default -> empty option list with capacity 16 backed by a typed static array (CBMC cannot read enum discriminants back from malloc'd memory); push and iteration are the real code"],"bounds":"captive-portal URL of 1, 7, 22 printable-ASCII octets (symbolic) given at interface level (overriding a different top-level URL) and of 5, 6, 14 octets inherited from the top level","oracle":"RFC 8910 2.3 decode: type 37, length = ceil((2+len)/8), URI octets equal, NUL padding only","covers":2,"unwind":36}
    #[kani::proof]
    #[kani::unwind(36)]
    #[kani::stub(<crate::radv::icmppkt::NDOptions as std::default::Default>::default, crate::radv::icmppkt::NDOptions::verif_typed)]
    fn c17_captive_portal_option() {
        let sel = kani::any::<u8>() % 6;
        match sel {
            0 => portal::<1>(0),
            1 => portal::<6>(1),
            2 => portal::<7>(0),
            3 => portal::<14>(1),
            4 => portal::<5>(1),
            _ => portal::<22>(0),
        }
        kani::cover!(sel == 0, "interface-level URL");
        kani::cover!(sel == 1, "top-level URL");
    }

    // ---------------------------------------------------------------- everything at once: framing --------------
    /// VERIF: {"p":"C17","tier":"experimental","fns":["radv::RaAdvService::build_announcement_pure","radv::icmppkt::serialise_router_advertisement","radv::icmppkt::NDOptions::add_option"],"stubs":["<NDOptions as Default>::default -> empty option list with capacity 16 backed by a typed static array (CBMC cannot read enum discriminants back from malloc'd memory); push and iteration are the real code"],"bounds":"one advertisement with every option kind: lladdr, MTU, 2 prefixes, 2 RDNSS addresses, search list [\"a.bc\",\"de\"], PREF64 /64, 19-octet portal URL; addresses, MTU, flags symbolic, lifetimes symbolic within their wire ranges","oracle":"RFC 4861 4.6 framing: message and every option a multiple of 8 octets, no zero length, options tile the message; each option kind present exactly as often as configured (1,1,2,1,1,1,1); total length = sum of the RFC option sizes","covers":1,"unwind":36}
    #[kani::proof]
    #[kani::unwind(36)]
    #[kani::stub(<crate::radv::icmppkt::NDOptions as std::default::Default>::default, crate::radv::icmppkt::NDOptions::verif_typed)]
    fn c17_all_options_framing() {
        let conf = top(Vec::new(), Vec::new(), None);
        let mut intf = quiet();
        let mut p0 = any_p();
        let mut p1 = any_p();
        p0.valid &= 0xffff_ffff;
        p0.pref &= 0xffff_ffff;
        p1.valid &= 0xffff_ffff;
        p1.pref &= 0xffff_ffff;
        intf.prefixes = prefix_vec();
        intf.prefixes.push(cfg_p(&p0));
        intf.prefixes.push(cfg_p(&p1));
        intf.rdnss = ConfigValue::Value(vec![Ipv6Addr::from(kani::any::<u128>()), Ipv6Addr::from(kani::any::<u128>())]);
        intf.rdnss_lifetime = ConfigValue::Value(Duration::from_secs(kani::any::<u32>() as u64));
        intf.dnssl = ConfigValue::Value(vec![String::from("a.bc"), String::from("de")]);
        intf.dnssl_lifetime = ConfigValue::Value(Duration::from_secs(kani::any::<u32>() as u64));
        intf.pref64 = Some(config::Pref64 { lifetime: Duration::from_secs(kani::any::<u16>() as u64), prefix: Ipv6Addr::from(kani::any::<u128>()), prefixlen: 64 });
        intf.captive_portal = ConfigValue::Value(String::from("http://portal.test/"));
        intf.hoplimit = kani::any();
        intf.managed = kani::any();
        intf.other = kani::any();
        let b = emit(&conf, &intf, Some(kani::any()), Some(kani::any()), Ipv6Addr::from(kani::any::<u128>()), Duration::from_secs(kani::any::<u16>() as u64));
        let n = check_framing(&b);
        independent! {
            n == 8 => "eight options",
            count_opt(&b, 1) == 1 && count_opt(&b, 5) == 1 => "one SLLAO, one MTU option",
            count_opt(&b, 3) == 2 => "two prefix options",
            count_opt(&b, 25) == 1 && count_opt(&b, 31) == 1 => "one RDNSS, one DNSSL option",
            count_opt(&b, 38) == 1 && count_opt(&b, 37) == 1 => "one PREF64, one captive-portal option",
            b.len() == 16 + 8 + 8 + 64 + 40 + 24 + 16 + 24 => "total length is the sum of the RFC option sizes",
        }
        kani::cover!(true, "reached");
        std::mem::forget(b);
        std::mem::forget(intf);
        std::mem::forget(conf);
    }
}
