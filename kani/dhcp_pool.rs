// Native replay of mirsym counterexamples against the REAL lease pool (in-memory SQLite).  Not a Kani harness:
// compiled only for `cargo test --features isomer_erbium_verif`, driven by /verif/lib/mir_replay.py.
// Script (VERIF_REPLAY_FILE), one item per line, times relative to "now":
//   row <address u32> <client u32> <start_rel i64> <expiry_rel i64>
//   client <u32> | req <u32> | pool <u32> ... | min <secs> | max <secs> | op allocate|metrics
// Output lines start with "REPLAY ".
#[cfg(test)]
mod replay {
    use super::super::*;

    fn client_bytes(c: u32) -> Vec<u8> {
        c.to_be_bytes().to_vec()
    }

    #[test]
    fn isomer_erbium_replay_pool() {
        let path = match std::env::var("VERIF_REPLAY_FILE") {
            Ok(p) => p,
            Err(_) => return,
        };
        let script = std::fs::read_to_string(path).expect("replay script");
        let mut pool = Pool::new_in_memory().expect("pool");
        let now = std::time::SystemTime::now()
            .duration_since(std::time::SystemTime::UNIX_EPOCH)
            .unwrap()
            .as_secs() as i64;
        let mut client = 0u32;
        let mut req: Option<std::net::Ipv4Addr> = None;
        let mut addrs = PoolAddresses::new();
        let (mut min, mut max) = (300u64, 86400u64);
        let mut op = "allocate".to_string();
        for line in script.lines() {
            let w: Vec<&str> = line.split_whitespace().collect();
            if w.is_empty() {
                continue;
            }
            match w[0] {
                "row" => {
                    let a: u32 = w[1].parse().unwrap();
                    let c: u32 = w[2].parse().unwrap();
                    let s: i64 = w[3].parse().unwrap();
                    let e: i64 = w[4].parse().unwrap();
                    pool.conn
                        .execute(
                            "INSERT INTO leases (address, clientid, start, expiry) VALUES (?1, ?2, ?3, ?4)",
                            rusqlite::params![std::net::Ipv4Addr::from(a).to_string(), client_bytes(c), (now + s) as u32, (now + e) as u32],
                        )
                        .expect("insert pre-state row");
                }
                "client" => client = w[1].parse().unwrap(),
                "req" => req = Some(std::net::Ipv4Addr::from(w[1].parse::<u32>().unwrap())),
                "pool" => {
                    for x in &w[1..] {
                        addrs.insert(std::net::Ipv4Addr::from(x.parse::<u32>().unwrap()));
                    }
                }
                "min" => min = w[1].parse().unwrap(),
                "max" => max = w[1].parse().unwrap(),
                "op" => op = w[1].to_string(),
                _ => panic!("bad replay line {}", line),
            }
        }
        println!("REPLAY now {}", now);
        if op == "metrics" {
            match pool.get_pool_metrics() {
                Ok((a, e)) => println!("REPLAY result ok {} {}", a, e),
                Err(e) => println!("REPLAY result err {:?}", e),
            }
        } else {
            let r = pool.allocate_address(
                &client_bytes(client),
                req,
                &addrs,
                std::time::Duration::from_secs(min),
                std::time::Duration::from_secs(max),
                &[],
            );
            match r {
                Ok(l) => println!("REPLAY result ok {} {} {} {:?}", u32::from(l.ip), l.expire.as_secs(), l.expire.subsec_nanos(), l.lease_type),
                Err(e) => println!(
                    "REPLAY result err {}",
                    match e {
                        Error::DbError(_) => "DbError",
                        Error::CorruptDatabase(_) => "CorruptDatabase",
                        Error::NoAssignableAddress => "NoAssignableAddress",
                        Error::RequestedAddressInUse => "RequestedAddressInUse",
                    }
                ),
            }
        }
        for l in pool.get_leases().expect("leases") {
            let mut c = [0u8; 4];
            c.copy_from_slice(&l.client_id[..4]);
            println!("REPLAY row {} {} {} {}", u32::from(l.ip), u32::from_be_bytes(c), l.start as i64 - now, l.expire as i64 - now);
        }
    }
}
