// Shared helpers, include!d inside a harness module `k`.
// Stub for std::hash::RandomState::new: fixed keys.  Only used where a HashMap/HashSet is *created*
// (never where one is filled with symbolic keys): without it, symbolic execution of thread-local key
// initialisation through getrandom costs ~10 min per harness.
#[allow(dead_code)]
pub fn fixed_random_state() -> std::hash::RandomState {
    // RandomState { k0: u64, k1: u64 }
    unsafe { std::mem::transmute::<[u64; 2], std::hash::RandomState>([0x0706050403020100, 0x0f0e0d0c0b0a0908]) }
}

// Stub for alloc::fmt::format (error-message construction only).
#[allow(dead_code)]
pub fn empty_format(_args: std::fmt::Arguments<'_>) -> String {
    String::new()
}
