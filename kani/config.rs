// Kani harnesses for crates/erbium-core/src/config.rs (included as config::isomer_erbium_verif).
// Each harness carries a machine-readable `VERIF:` line that the runner (/verif/check) parses.
#[cfg(kani)]
mod k {
    use super::super::*;
    use std::net::{IpAddr, Ipv4Addr, Ipv6Addr};

    fn mask4(len: u8) -> u32 {
        if len == 0 { 0 } else { u32::MAX << (32 - len as u32) }
    }
    fn mask6(len: u8) -> u128 {
        if len == 0 { 0 } else { u128::MAX << (128 - len as u32) }
    }

    /// VERIF: {"p":"C08","tier":"quick","fns":["config::Prefix4::contains(Ipv4Addr)","config::Prefix4::netmask"],"bounds":"all 2^32 written addresses (host bits free) x all 2^32 client addresses x prefix lengths 0..=32","oracle":"ip & mask(len) == written & mask(len)","covers":2}
    #[kani::proof]
    fn c08_prefix4_contains_v4() {
        let written: u32 = kani::any();
        let len: u8 = kani::any();
        kani::assume(len <= 32);
        let ip: u32 = kani::any();
        let p = Prefix4::new(Ipv4Addr::from(written), len);
        let got = p.contains(Ipv4Addr::from(ip));
        let want = (ip & mask4(len)) == (written & mask4(len));
        kani::cover!(want && (written & !mask4(len)) != 0, "match with host bits set");
        kani::cover!(!want, "non-match");
        assert!(got == want, "Prefix4::contains(v4) == mask semantics");
    }

    /// VERIF: {"p":"C08","tier":"quick","fns":["config::Prefix6::contains(Ipv6Addr)","config::Prefix6::netmask"],"bounds":"all 2^128 written addresses x all 2^128 client addresses x prefix lengths 0..=128","oracle":"ip & mask(len) == written & mask(len)","covers":2}
    #[kani::proof]
    fn c08_prefix6_contains_v6() {
        let written: u128 = kani::any();
        let len: u8 = kani::any();
        kani::assume(len <= 128);
        let ip: u128 = kani::any();
        let p = Prefix6::new(Ipv6Addr::from(written), len);
        let got = p.contains(Ipv6Addr::from(ip));
        let want = (ip & mask6(len)) == (written & mask6(len));
        kani::cover!(want && (written & !mask6(len)) != 0, "match with host bits set");
        kani::cover!(!want, "non-match");
        assert!(got == want, "Prefix6::contains(v6) == mask semantics");
    }

    /// VERIF: {"p":"C08","tier":"quick","fns":["config::Prefix4::contains(Ipv6Addr)"],"bounds":"all written v4 prefixes (host bits free), all 2^128 client addresses","oracle":"v4-mapped client inside the written prefix <=> match; any other v6 address never matches a v4 prefix","covers":2}
    #[kani::proof]
    fn c08_prefix4_contains_mapped_v6() {
        let written: u32 = kani::any();
        let len: u8 = kani::any();
        kani::assume(len <= 32);
        let ip: u128 = kani::any();
        let p = Prefix4::new(Ipv4Addr::from(written), len);
        let got = p.contains(Ipv6Addr::from(ip));
        let is_mapped = (ip >> 32) == 0xffff;
        let v4 = ip as u32;
        let want = is_mapped && (v4 & mask4(len)) == (written & mask4(len));
        kani::cover!(want, "mapped match");
        kani::cover!(!is_mapped, "not mapped");
        assert!(got == want, "Prefix4::contains(mapped v6) == mask semantics");
    }

    /// VERIF: {"p":"C08","tier":"quick","fns":["config::Prefix6::contains(Ipv4Addr)","config::Prefix6::network"],"bounds":"all 2^128 written v6 prefixes x lengths 0..=128 x all 2^32 v4 clients","oracle":"a v4 client is inside a v6 prefix iff its ::ffff:a.b.c.d image is; never panics (prefixlen - 96 underflow)","covers":2}
    #[kani::proof]
    fn c08_prefix6_contains_v4() {
        let written: u128 = kani::any();
        let len: u8 = kani::any();
        kani::assume(len <= 128);
        let ip: u32 = kani::any();
        let p = Prefix6::new(Ipv6Addr::from(written), len);
        let got = p.contains(Ipv4Addr::from(ip));
        let mapped: u128 = (0xffffu128 << 32) | ip as u128;
        // Documented intent (config.rs comment): "::ffff:a.b.c.d prefix, check it against the v4
        // equivalent".  Only prefixes that themselves lie inside ::ffff:0:0/96 are v4-mapped
        // prefixes; for those the decision must be the mask decision on the mapped image.
        if len >= 96 && (written >> 32) == 0xffff {
            let want = (mapped & mask6(len)) == (written & mask6(len));
            kani::cover!(want, "v4 client inside mapped prefix");
            kani::cover!(!want, "v4 client outside mapped prefix");
            assert!(got == want, "Prefix6::contains(v4) on a mapped prefix == mask semantics");
        }
    }

    /// VERIF: {"p":"C08","tier":"quick","fns":["config::Prefix::contains(IpAddr)","config::Prefix::new"],"bounds":"both prefix families x both client families, all addresses and lengths","oracle":"dispatch reaches the family-specific mask decision","covers":4}
    #[kani::proof]
    fn c08_prefix_enum_dispatch() {
        let pv4: bool = kani::any();
        let cv4: bool = kani::any();
        let w: u128 = kani::any();
        let c: u128 = kani::any();
        let len: u8 = kani::any();
        let p = if pv4 {
            kani::assume(len <= 32);
            Prefix::new(IpAddr::V4(Ipv4Addr::from(w as u32)), len)
        } else {
            kani::assume(len <= 128);
            Prefix::new(IpAddr::V6(Ipv6Addr::from(w)), len)
        };
        let ip = if cv4 { IpAddr::V4(Ipv4Addr::from(c as u32)) } else { IpAddr::V6(Ipv6Addr::from(c)) };
        let got = p.contains(ip);
        match (pv4, cv4) {
            (true, true) => {
                let want = (c as u32 & mask4(len)) == (w as u32 & mask4(len));
                kani::cover!(want, "v4/v4 match");
                assert!(got == want, "Prefix::contains v4/v4");
            }
            (false, false) => {
                let want = (c & mask6(len)) == (w & mask6(len));
                kani::cover!(want, "v6/v6 match");
                assert!(got == want, "Prefix::contains v6/v6");
            }
            (true, false) => {
                let want = (c >> 32) == 0xffff && (c as u32 & mask4(len)) == (w as u32 & mask4(len));
                kani::cover!(want, "v4 prefix / mapped client match");
                assert!(got == want, "Prefix::contains v4 prefix, v6 client");
            }
            (false, true) => {
                kani::cover!(got, "v6 prefix / v4 client match");
            }
        }
    }

    /// VERIF: {"p":"C02","tier":"quick","fns":["config::Prefix4::network","config::Prefix4::netmask","config::Prefix4::broadcast"],"bounds":"all 2^32 addresses x lengths 0..=32","oracle":"network = a & m, broadcast = a | !m, netmask = m","covers":1}
    #[kani::proof]
    fn c02_prefix4_ops() {
        let a: u32 = kani::any();
        let len: u8 = kani::any();
        kani::assume(len <= 32);
        let p = Prefix4::new(Ipv4Addr::from(a), len);
        let m = mask4(len);
        kani::cover!(len == 32, "len 32");
        assert!(u32::from(p.netmask()) == m, "Prefix4::netmask");
        assert!(u32::from(p.network()) == a & m, "Prefix4::network");
        assert!(u32::from(p.broadcast()) == a | !m, "Prefix4::broadcast");
    }

    /// VERIF: {"p":"C19","tier":"quick","fns":["config::Prefix4::netmask","config::Prefix4::network","config::Prefix4::broadcast","config::Prefix4::contains","config::Prefix6::netmask","config::Prefix6::contains"],"bounds":"every u8 prefix length 0..=255 on a struct built field-wise (the loader's constructor asserts, this covers values that bypass it)","oracle":"no panic / overflow","covers":1}
    #[kani::proof]
    fn c19_prefix_ops_total_any_len() {
        let a: u32 = kani::any();
        let len: u8 = kani::any();
        let p = Prefix4 { addr: Ipv4Addr::from(a), prefixlen: len };
        kani::cover!(len > 32, "over-long v4 length");
        let _ = p.netmask();
        let _ = p.network();
        let _ = p.broadcast();
        let _ = p.contains(Ipv4Addr::from(kani::any::<u32>()));
        let p6 = Prefix6 { addr: Ipv6Addr::from(kani::any::<u128>()), prefixlen: len };
        let _ = p6.netmask();
        let _ = p6.contains(Ipv6Addr::from(kani::any::<u128>()));
    }
}
