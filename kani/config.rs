// Kani harnesses for crates/erbium-core/src/config.rs (included as config::isomer_erbium_verif).
// Each harness carries a machine-readable `VERIF:` line that the runner (/verif/check) parses.
#[cfg(kani)]
mod k {
    use super::super::*;
    use std::net::{IpAddr, Ipv4Addr, Ipv6Addr};

    fn mask4(len: u8) -> u32 {
        if len == 0 { 0 } else { u32::MAX << (32 - len as u32) }
    }
    fn mask6(len: u8) -> u128 {
        if len == 0 { 0 } else { u128::MAX << (128 - len as u32) }
    }

    /// VERIF: {"p":"C08","tier":"quick","fns":["config::Prefix4::contains(Ipv4Addr)","config::Prefix4::netmask"],"bounds":"all 2^32 written addresses (host bits free) x all 2^32 client addresses x prefix lengths 0..=32","oracle":"ip & mask(len) == written & mask(len)","covers":2}
    #[kani::proof]
    fn c08_prefix4_contains_v4() {
        let written: u32 = kani::any();
        let len: u8 = kani::any();
        kani::assume(len <= 32);
        let ip: u32 = kani::any();
        let p = Prefix4::new(Ipv4Addr::from(written), len);
        let got = p.contains(Ipv4Addr::from(ip));
        let want = (ip & mask4(len)) == (written & mask4(len));
        kani::cover!(want && (written & !mask4(len)) != 0, "match with host bits set");
        kani::cover!(!want, "non-match");
        assert!(got == want, "Prefix4::contains(v4) == mask semantics");
    }

    /// VERIF: {"p":"C08","tier":"quick","fns":["config::Prefix6::contains(Ipv6Addr)","config::Prefix6::netmask"],"bounds":"all 2^128 written addresses x all 2^128 client addresses x prefix lengths 0..=128","oracle":"ip & mask(len) == written & mask(len)","covers":2}
    #[kani::proof]
    fn c08_prefix6_contains_v6() {
        let written: u128 = kani::any();
        let len: u8 = kani::any();
        kani::assume(len <= 128);
        let ip: u128 = kani::any();
        let p = Prefix6::new(Ipv6Addr::from(written), len);
        let got = p.contains(Ipv6Addr::from(ip));
        let want = (ip & mask6(len)) == (written & mask6(len));
        kani::cover!(want && (written & !mask6(len)) != 0, "match with host bits set");
        kani::cover!(!want, "non-match");
        assert!(got == want, "Prefix6::contains(v6) == mask semantics");
    }

    /// VERIF: {"p":"C08","tier":"quick","fns":["config::Prefix4::contains(Ipv6Addr)"],"bounds":"all written v4 prefixes (host bits free), all 2^128 client addresses","oracle":"v4-mapped client inside the written prefix <=> match; any other v6 address never matches a v4 prefix","covers":2}
    #[kani::proof]
    fn c08_prefix4_contains_mapped_v6() {
        let written: u32 = kani::any();
        let len: u8 = kani::any();
        kani::assume(len <= 32);
        let ip: u128 = kani::any();
        let p = Prefix4::new(Ipv4Addr::from(written), len);
        let got = p.contains(Ipv6Addr::from(ip));
        let is_mapped = (ip >> 32) == 0xffff;
        let v4 = ip as u32;
        let want = is_mapped && (v4 & mask4(len)) == (written & mask4(len));
        kani::cover!(want, "mapped match");
        kani::cover!(!is_mapped, "not mapped");
        assert!(got == want, "Prefix4::contains(mapped v6) == mask semantics");
    }

    /// VERIF: {"p":"C08","tier":"quick","fns":["config::Prefix6::contains(Ipv4Addr)","config::Prefix6::network"],"bounds":"all 2^128 written v6 prefixes x lengths 0..=128 x all 2^32 v4 clients","oracle":"a v4 client is inside a v6 prefix iff its ::ffff:a.b.c.d image is; never panics (prefixlen - 96 underflow)","covers":2}
    #[kani::proof]
    fn c08_prefix6_contains_v4() {
        let written: u128 = kani::any();
        let len: u8 = kani::any();
        kani::assume(len <= 128);
        let ip: u32 = kani::any();
        let p = Prefix6::new(Ipv6Addr::from(written), len);
        let got = p.contains(Ipv4Addr::from(ip));
        let mapped: u128 = (0xffffu128 << 32) | ip as u128;
        // Documented intent (config.rs comment): "::ffff:a.b.c.d prefix, check it against the v4
        // equivalent".  Only prefixes that themselves lie inside ::ffff:0:0/96 are v4-mapped
        // prefixes; for those the decision must be the mask decision on the mapped image.
        if len >= 96 && (written >> 32) == 0xffff {
            let want = (mapped & mask6(len)) == (written & mask6(len));
            kani::cover!(want, "v4 client inside mapped prefix");
            kani::cover!(!want, "v4 client outside mapped prefix");
            assert!(got == want, "Prefix6::contains(v4) on a mapped prefix == mask semantics");
        }
    }

    /// VERIF: {"p":"C08","tier":"quick","fns":["config::Prefix::contains(IpAddr)","config::Prefix::new"],"bounds":"both prefix families x both client families, all addresses and lengths","oracle":"dispatch reaches the family-specific mask decision","covers":4}
    #[kani::proof]
    fn c08_prefix_enum_dispatch() {
        let pv4: bool = kani::any();
        let cv4: bool = kani::any();
        let w: u128 = kani::any();
        let c: u128 = kani::any();
        let len: u8 = kani::any();
        let p = if pv4 {
            kani::assume(len <= 32);
            Prefix::new(IpAddr::V4(Ipv4Addr::from(w as u32)), len)
        } else {
            kani::assume(len <= 128);
            Prefix::new(IpAddr::V6(Ipv6Addr::from(w)), len)
        };
        let ip = if cv4 { IpAddr::V4(Ipv4Addr::from(c as u32)) } else { IpAddr::V6(Ipv6Addr::from(c)) };
        let got = p.contains(ip);
        match (pv4, cv4) {
            (true, true) => {
                let want = (c as u32 & mask4(len)) == (w as u32 & mask4(len));
                kani::cover!(want, "v4/v4 match");
                assert!(got == want, "Prefix::contains v4/v4");
            }
            (false, false) => {
                let want = (c & mask6(len)) == (w & mask6(len));
                kani::cover!(want, "v6/v6 match");
                assert!(got == want, "Prefix::contains v6/v6");
            }
            (true, false) => {
                let want = (c >> 32) == 0xffff && (c as u32 & mask4(len)) == (w as u32 & mask4(len));
                kani::cover!(want, "v4 prefix / mapped client match");
                assert!(got == want, "Prefix::contains v4 prefix, v6 client");
            }
            (false, true) => {
                kani::cover!(got, "v6 prefix / v4 client match");
            }
        }
    }

    /// VERIF: {"p":"C02","tier":"quick","fns":["config::Prefix4::network","config::Prefix4::netmask","config::Prefix4::broadcast"],"bounds":"all 2^32 addresses x lengths 0..=32","oracle":"network = a & m, broadcast = a | !m, netmask = m","covers":1}
    #[kani::proof]
    fn c02_prefix4_ops() {
        let a: u32 = kani::any();
        let len: u8 = kani::any();
        kani::assume(len <= 32);
        let p = Prefix4::new(Ipv4Addr::from(a), len);
        let m = mask4(len);
        kani::cover!(len == 32, "len 32");
        assert!(u32::from(p.netmask()) == m, "Prefix4::netmask");
        assert!(u32::from(p.network()) == a & m, "Prefix4::network");
        assert!(u32::from(p.broadcast()) == a | !m, "Prefix4::broadcast");
    }

    /// VERIF: {"p":"C19","tier":"quick","fns":["config::Prefix4::netmask","config::Prefix4::network","config::Prefix4::broadcast","config::Prefix4::contains","config::Prefix6::netmask","config::Prefix6::contains"],"bounds":"every u8 prefix length 0..=255 on a struct built field-wise (the loader's constructor asserts, this covers values that bypass it)","oracle":"no panic / overflow","covers":1}
    #[kani::proof]
    fn c19_prefix_ops_total_any_len() {
        let a: u32 = kani::any();
        let len: u8 = kani::any();
        let p = Prefix4 { addr: Ipv4Addr::from(a), prefixlen: len };
        kani::cover!(len > 32, "over-long v4 length");
        let _ = p.netmask();
        let _ = p.network();
        let _ = p.broadcast();
        let _ = p.contains(Ipv4Addr::from(kani::any::<u32>()));
        let p6 = Prefix6 { addr: Ipv6Addr::from(kani::any::<u128>()), prefixlen: len };
        let _ = p6.netmask();
        let _ = p6.contains(Ipv6Addr::from(kani::any::<u128>()));
    }

    // =====================================================================================================
    // C19: the leaf parsers of the loader (config.rs:130-529) are total and what they accept is safe to use.
    // Yaml values are built directly (the YAML text scanner is out of CBMC's reach); strings have a CONCRETE
    // length (one instance per length, const generics) and symbolic ASCII contents.
    // =====================================================================================================
    include!(concat!(env!("ISOMER_ERBIUM_VERIF_DIR"), "/_common.rs"));
    use yaml_rust::yaml::Yaml;

    // N symbolic ASCII octets as a String.  Every octet is assumed < 128 and ASCII is valid UTF-8, so the
    // validating constructor is skipped (std::str::from_utf8 alone costs ~30 s of solver time at N = 4).
    fn ascii<const N: usize>() -> (String, [u8; N]) {
        let b: [u8; N] = kani::any();
        let mut i = 0;
        while i < N {
            kani::assume(b[i] < 128);
            i += 1;
        }
        (unsafe { String::from_utf8_unchecked(b.to_vec()) }, b)
    }
    fn is_invalid_config<T>(r: &Result<T, Error>) -> bool {
        matches!(r, Err(Error::InvalidConfig(_)))
    }

    // The values a YAML document can put where a scalar is expected.  `k` is concrete at every call site
    // (one branch per kind) so that each instance has a concrete enum variant.
    const KIND_REAL: u8 = 0;
    const KIND_INT: u8 = 1;
    const KIND_STR: u8 = 2;
    const KIND_BOOL: u8 = 3;
    const KIND_ARR_NULL: u8 = 4; // [~]
    const KIND_ARR_MIXED: u8 = 5; // [<int>, ""]
    const KIND_HASH_EMPTY: u8 = 6; // {}
    const KIND_ALIAS: u8 = 7;
    const KIND_NULL: u8 = 8;
    const KIND_BAD: u8 = 9;
    const KIND_ARR_NESTED: u8 = 10; // [[true]]
    const KIND_ARR_STRS: u8 = 11; // ["a", "b"]
    const KIND_ARR_EMPTY: u8 = 12; // []
    const KIND_ARR_ARR_EMPTY: u8 = 13; // [[]]
    fn yaml_of_kind(k: u8) -> Yaml {
        match k {
            KIND_REAL => Yaml::Real(String::from("1.5")),
            KIND_INT => Yaml::Integer(kani::any()),
            KIND_STR => Yaml::String(String::from("x")),
            KIND_BOOL => Yaml::Boolean(kani::any()),
            KIND_ARR_NULL => Yaml::Array(vec![Yaml::Null]),
            KIND_ARR_MIXED => Yaml::Array(vec![Yaml::Integer(kani::any()), Yaml::String(String::new())]),
            KIND_HASH_EMPTY => Yaml::Hash(Default::default()),
            KIND_ALIAS => Yaml::Alias(kani::any()),
            KIND_NULL => Yaml::Null,
            KIND_BAD => Yaml::BadValue,
            KIND_ARR_NESTED => Yaml::Array(vec![Yaml::Array(vec![Yaml::Boolean(true)])]),
            KIND_ARR_STRS => Yaml::Array(vec![Yaml::String(String::from("a")), Yaml::String(String::from("b"))]),
            KIND_ARR_EMPTY => Yaml::Array(Vec::new()),
            _ => Yaml::Array(vec![Yaml::Array(Vec::new())]),
        }
    }

    fn type_to_name_on(k: u8) {
        let y = yaml_of_kind(k);
        let n = type_to_name(&y);
        std::mem::forget(n);
        std::mem::forget(y);
    }

    /// VERIF: {"p":"C19","tier":"quick","fns":["config::type_to_name"],"bounds":"one value of every Yaml variant, one after the other: Real, Integer(any i64), String, Boolean(any), Array of 1 and 2 elements, nested array, empty Hash, Alias(any), Null, BadValue - every collection NON-empty","oracle":"returns a name, no panic","stubs":["alloc::fmt::format -> empty string (message text only)","std::hash::RandomState::new -> fixed keys (creating the empty Hash)"],"covers":1,"unwind":4}
    #[kani::proof]
    #[kani::unwind(4)]
    #[kani::stub(alloc::fmt::format, empty_format)]
    #[kani::stub(std::hash::RandomState::new, fixed_random_state)]
    fn c19_type_to_name_nonempty_values() {
        type_to_name_on(KIND_REAL);
        type_to_name_on(KIND_INT);
        type_to_name_on(KIND_STR);
        type_to_name_on(KIND_BOOL);
        type_to_name_on(KIND_ARR_NULL);
        type_to_name_on(KIND_ARR_MIXED);
        type_to_name_on(KIND_HASH_EMPTY);
        type_to_name_on(KIND_ALIAS);
        type_to_name_on(KIND_NULL);
        type_to_name_on(KIND_BAD);
        type_to_name_on(KIND_ARR_NESTED);
        type_to_name_on(KIND_ARR_STRS);
        kani::cover!(true, "every call returned");
    }

    /// VERIF: {"p":"C19","tier":"quick","fns":["config::type_to_name"],"bounds":"the empty sequence `[]` (Yaml::Array(vec![])) and a sequence holding it `[[]]`","oracle":"returns a name, no panic (this is the function every typed parser calls to describe a wrongly typed value)","stubs":["alloc::fmt::format -> empty string (message text only)"],"covers":0,"unwind":4}
    #[kani::proof]
    #[kani::unwind(4)]
    #[kani::stub(alloc::fmt::format, empty_format)]
    fn c19_type_to_name_empty_array() {
        let nested: bool = kani::any();
        if nested {
            type_to_name_on(KIND_ARR_ARR_EMPTY)
        } else {
            type_to_name_on(KIND_ARR_EMPTY)
        }
    }

    // every typed scalar parser on one value of kind k: right type => Ok(Some), Null => Ok(None),
    // anything else => Err(InvalidConfig).  `deep`: also run the composed parsers (parse_duration and the
    // address parsers = parse_string(..).and_then(..)); CBMC only gets through them where parse_string
    // SUCCEEDS (kinds Null and String) - on its error path the and_then continuation is explored with an
    // unconstrained string and does not finish (measured: Integer / `[~]` time out at 120 s).
    fn scalar_parsers_on(k: u8, deep: bool) {
        let y = yaml_of_kind(k);
        let is_null = k == KIND_NULL;
        let r = parse_i64("k", &y);
        match &y {
            Yaml::Integer(i) => assert!(matches!(r, Ok(Some(v)) if v == *i), "parse_i64 returns the integer"),
            Yaml::Null => assert!(matches!(r, Ok(None)), "parse_i64: null is None"),
            _ => assert!(is_invalid_config(&r), "parse_i64 refuses a non-integer with InvalidConfig"),
        }
        std::mem::forget(r);
        let r = parse_num::<u8>("k", &y);
        match &y {
            Yaml::Integer(i) if (0..=255).contains(i) => assert!(matches!(r, Ok(Some(v)) if v as i64 == *i), "parse_num::<u8> in range"),
            Yaml::Null => assert!(matches!(r, Ok(None)), "parse_num: null is None"),
            _ => assert!(is_invalid_config(&r), "parse_num::<u8> refuses out-of-range / non-integer"),
        }
        std::mem::forget(r);
        let r = parse_num::<u32>("k", &y);
        match &y {
            Yaml::Integer(i) if (0..=u32::MAX as i64).contains(i) => assert!(matches!(r, Ok(Some(v)) if v as i64 == *i), "parse_num::<u32> in range"),
            Yaml::Null => assert!(matches!(r, Ok(None)), "parse_num: null is None"),
            _ => assert!(is_invalid_config(&r), "parse_num::<u32> refuses out-of-range / non-integer"),
        }
        std::mem::forget(r);
        let r = parse_string("k", &y);
        match &y {
            Yaml::String(_) => assert!(matches!(&r, Ok(Some(s)) if s.len() == 1), "parse_string returns the string"),
            Yaml::Null => assert!(matches!(r, Ok(None)), "parse_string: null is None"),
            _ => assert!(is_invalid_config(&r), "parse_string refuses a non-string with InvalidConfig"),
        }
        std::mem::forget(r);
        let r = parse_boolean("k", &y);
        match &y {
            Yaml::Boolean(b) => assert!(matches!(r, Ok(Some(v)) if v == *b), "parse_boolean returns the boolean"),
            Yaml::Null => assert!(matches!(r, Ok(None)), "parse_boolean: null is None"),
            _ => assert!(is_invalid_config(&r), "parse_boolean refuses a non-boolean with InvalidConfig"),
        }
        std::mem::forget(r);
        if deep {
            // k is Null or the string "x" here
            let r = parse_duration("k", &y);
            assert!(if is_null { matches!(r, Ok(None)) } else { is_invalid_config(&r) }, "parse_duration: null is None, x is refused");
            std::mem::forget(r);
            let r = parse_string_ip("k", &y);
            assert!(if is_null { matches!(r, Ok(None)) } else { is_invalid_config(&r) }, "parse_string_ip");
            std::mem::forget(r);
            let r = parse_string_ip4("k", &y);
            assert!(if is_null { matches!(r, Ok(None)) } else { is_invalid_config(&r) }, "parse_string_ip4");
            std::mem::forget(r);
            let r = parse_string_ip6("k", &y);
            assert!(if is_null { matches!(r, Ok(None)) } else { is_invalid_config(&r) }, "parse_string_ip6");
            std::mem::forget(r);
            if is_null {
                // on a string these go through str::split / str::contains (not reachable, see below)
                let r = parse_string_hwaddr("k", &y);
                assert!(matches!(r, Ok(None)), "parse_string_hwaddr: null is None");
                std::mem::forget(r);
                let r = parse_string_prefix("k", &y);
                assert!(matches!(r, Ok(None)), "parse_string_prefix: null is None");
                std::mem::forget(r);
                let r = parse_string_prefix4("k", &y);
                assert!(matches!(r, Ok(None)), "parse_string_prefix4: null is None");
                std::mem::forget(r);
                let r = parse_string_prefix6("k", &y);
                assert!(matches!(r, Ok(None)), "parse_string_prefix6: null is None");
                std::mem::forget(r);
                let r = parse_string_sockaddr("k", &y);
                assert!(matches!(r, Ok(None)), "parse_string_sockaddr: null is None");
                std::mem::forget(r);
            }
        }
        std::mem::forget(y);
    }

    /// VERIF: {"p":"C19","tier":"quick","fns":["config::parse_i64","config::parse_num::<u8>","config::parse_num::<u32>","config::parse_string","config::parse_boolean","config::type_to_name"],"bounds":"each primitive typed parser on, one after the other: Real, Integer(any i64), Boolean(any), Alias(any), BadValue","oracle":"right type => Ok(Some(value)); every wrong type (and out-of-range integer) => Err(InvalidConfig); never a panic","stubs":["alloc::fmt::format -> empty string (message text only)"],"covers":1,"unwind":8}
    #[kani::proof]
    #[kani::unwind(8)]
    #[kani::stub(alloc::fmt::format, empty_format)]
    fn c19_scalar_parsers_wrong_scalar() {
        scalar_parsers_on(KIND_REAL, false);
        scalar_parsers_on(KIND_INT, false);
        scalar_parsers_on(KIND_BOOL, false);
        scalar_parsers_on(KIND_ALIAS, false);
        scalar_parsers_on(KIND_BAD, false);
        kani::cover!(true, "every call returned");
    }

    /// VERIF: {"p":"C19","tier":"quick","fns":["config::parse_i64","config::parse_num","config::parse_string","config::parse_boolean","config::parse_duration","config::parse_string_ip","config::parse_string_ip4","config::parse_string_ip6","config::parse_string_hwaddr","config::parse_string_prefix","config::parse_string_prefix4","config::parse_string_prefix6","config::parse_string_sockaddr","config::str_ip","config::str_duration"],"bounds":"every typed parser (primitive and composed) on Null","oracle":"Ok(None) everywhere; never a panic","stubs":["alloc::fmt::format -> empty string (message text only)"],"covers":1,"unwind":8}
    #[kani::proof]
    #[kani::unwind(8)]
    #[kani::stub(alloc::fmt::format, empty_format)]
    fn c19_scalar_parsers_null() {
        scalar_parsers_on(KIND_NULL, true);
        kani::cover!(true, "every call returned");
    }

    /// VERIF: {"p":"C19","tier":"experimental","fns":["config::parse_i64","config::parse_num","config::parse_string","config::parse_boolean","config::parse_duration","config::parse_string_ip","config::parse_string_ip4","config::parse_string_ip6","config::str_ip","config::str_duration"],"bounds":"every typed parser except hwaddr/prefix/sockaddr (str::split, not reachable) on the string \"x\"","oracle":"Ok(Some) for parse_string, Err(InvalidConfig) for the others; never a panic","stubs":["alloc::fmt::format -> empty string (message text only)"],"covers":1,"unwind":8}
    #[kani::proof]
    #[kani::unwind(8)]
    #[kani::stub(alloc::fmt::format, empty_format)]
    fn c19_scalar_parsers_string() {
        scalar_parsers_on(KIND_STR, true);
        kani::cover!(true, "every call returned");
    }

    /// VERIF: {"p":"C19","tier":"experimental","fns":["config::parse_i64","config::parse_num::<u8>","config::parse_num::<u32>","config::parse_string","config::parse_boolean","config::type_to_name"],"bounds":"each primitive typed parser on the NON-empty sequence `[~]` and on the empty mapping where a scalar is expected","oracle":"Err(InvalidConfig); never a panic","stubs":["alloc::fmt::format -> empty string (message text only)","std::hash::RandomState::new -> fixed keys (creating the empty Hash)"],"covers":1,"unwind":8}
    #[kani::proof]
    #[kani::unwind(8)]
    #[kani::stub(alloc::fmt::format, empty_format)]
    #[kani::stub(std::hash::RandomState::new, fixed_random_state)]
    fn c19_scalar_parsers_wrong_collection() {
        scalar_parsers_on(KIND_ARR_NULL, false);
        scalar_parsers_on(KIND_HASH_EMPTY, false);
        kani::cover!(true, "every call returned");
    }

    /// VERIF: {"p":"C19","tier":"experimental","fns":["config::parse_i64","config::parse_num::<u8>","config::parse_num::<u32>","config::parse_string","config::parse_boolean","config::type_to_name"],"bounds":"each primitive typed parser on the NON-empty sequence `[\"a\",\"b\"]` where a scalar is expected","oracle":"Err(InvalidConfig); never a panic","stubs":["alloc::fmt::format -> empty string (message text only)"],"covers":1,"unwind":8}
    #[kani::proof]
    #[kani::unwind(8)]
    #[kani::stub(alloc::fmt::format, empty_format)]
    fn c19_scalar_parsers_wrong_sequence() {
        scalar_parsers_on(KIND_ARR_STRS, false);
        kani::cover!(true, "every call returned");
    }

    /// VERIF: {"p":"C19","tier":"quick","fns":["config::parse_i64","config::parse_num::<u8>","config::parse_num::<u32>","config::parse_string","config::parse_boolean","config::type_to_name"],"bounds":"each primitive typed parser on the empty sequence `[]` (e.g. `hop-limit: []`, `captive-portal: []`)","oracle":"Err(InvalidConfig), never a panic","stubs":["alloc::fmt::format -> empty string (message text only)"],"covers":0,"unwind":8}
    #[kani::proof]
    #[kani::unwind(8)]
    #[kani::stub(alloc::fmt::format, empty_format)]
    fn c19_scalar_parsers_empty_array() {
        scalar_parsers_on(KIND_ARR_EMPTY, false);
    }

    fn array_parser_on(k: u8) {
        let y = yaml_of_kind(k);
        let r = parse_array("k", &y, parse_string);
        match k {
            KIND_NULL => assert!(matches!(r, Ok(None)), "parse_array: null is None"),
            KIND_ARR_EMPTY => assert!(matches!(&r, Ok(Some(v)) if v.is_empty()), "parse_array: [] is an empty list"),
            _ => assert!(is_invalid_config(&r), "parse_array refuses non-arrays with InvalidConfig"),
        }
        std::mem::forget(r);
        let r = parse_array("k", &y, parse_num::<u16>);
        match k {
            KIND_NULL => assert!(matches!(r, Ok(None)), "parse_array: null is None"),
            KIND_ARR_EMPTY => assert!(matches!(&r, Ok(Some(v)) if v.is_empty()), "parse_array: [] is an empty list"),
            _ => assert!(is_invalid_config(&r), "parse_array(parse_num) refuses non-arrays with InvalidConfig"),
        }
        std::mem::forget(r);
        std::mem::forget(y);
    }

    /// VERIF: {"p":"C19","tier":"quick","fns":["config::parse_array","config::type_to_name"],"bounds":"parse_array (element parsers parse_string and parse_num::<u16>) on, one after the other: Real, Integer(any), String, Boolean(any), Null, the empty mapping and the EMPTY sequence `[]`. Non-empty sequences are NOT covered: the map/collect/drain/shrink_to_fit chain does not finish under CBMC even for one element (measured: `[~]`, `[\"a\",\"b\"]`, `[<int>, \"\"]`, `[[]]` all time out)","oracle":"Null => Ok(None); `[]` => Ok(Some([])); non-array => Err(InvalidConfig); never a panic","stubs":["alloc::fmt::format -> empty string (message text only)","std::hash::RandomState::new -> fixed keys (creating the empty Hash)"],"covers":1,"unwind":8}
    #[kani::proof]
    #[kani::unwind(8)]
    #[kani::stub(alloc::fmt::format, empty_format)]
    #[kani::stub(std::hash::RandomState::new, fixed_random_state)]
    fn c19_parse_array_wrong_type() {
        array_parser_on(KIND_REAL);
        array_parser_on(KIND_INT);
        array_parser_on(KIND_STR);
        array_parser_on(KIND_BOOL);
        array_parser_on(KIND_NULL);
        array_parser_on(KIND_HASH_EMPTY);
        array_parser_on(KIND_ARR_EMPTY);
        kani::cover!(true, "every call returned");
    }

    /// VERIF: {"p":"C19","tier":"quick","fns":["config::parse_num::<u8>","config::parse_num::<u16>","config::parse_num::<u32>","config::parse_num::<i32>","config::parse_i64"],"bounds":"Yaml::Integer(i) for all 2^64 i","oracle":"Ok(Some(i)) exactly when i fits the target type, Err(InvalidConfig) otherwise; never a panic or a silent truncation","stubs":["alloc::fmt::format -> empty string (message text only)"],"covers":2}
    #[kani::proof]
    #[kani::stub(alloc::fmt::format, empty_format)]
    fn c19_parse_num_all_i64() {
        let i: i64 = kani::any();
        let y = Yaml::Integer(i);
        kani::cover!(i < 0, "negative");
        kani::cover!(i > u32::MAX as i64, "huge");
        let r = parse_num::<u8>("k", &y);
        assert!(if (0..=u8::MAX as i64).contains(&i) { matches!(r, Ok(Some(v)) if v as i64 == i) } else { is_invalid_config(&r) }, "parse_num::<u8>");
        std::mem::forget(r);
        let r = parse_num::<u16>("k", &y);
        assert!(if (0..=u16::MAX as i64).contains(&i) { matches!(r, Ok(Some(v)) if v as i64 == i) } else { is_invalid_config(&r) }, "parse_num::<u16>");
        std::mem::forget(r);
        let r = parse_num::<u32>("k", &y);
        assert!(if (0..=u32::MAX as i64).contains(&i) { matches!(r, Ok(Some(v)) if v as i64 == i) } else { is_invalid_config(&r) }, "parse_num::<u32>");
        std::mem::forget(r);
        let r = parse_num::<i32>("k", &y);
        assert!(if (i32::MIN as i64..=i32::MAX as i64).contains(&i) { matches!(r, Ok(Some(v)) if v as i64 == i) } else { is_invalid_config(&r) }, "parse_num::<i32>");
        std::mem::forget(r);
    }

    /// VERIF: {"p":"C19","tier":"quick","fns":["config::parse_duration"],"bounds":"Yaml::Integer(i) for all 2^64 i (negative, zero, huge)","oracle":"never a panic; a non-negative integer is that many seconds; a negative integer is refused with InvalidConfig (not wrapped to 2^64+i seconds)","stubs":["alloc::fmt::format -> empty string (error message text is not the subject)"],"covers":3}
    #[kani::proof]
    #[kani::stub(alloc::fmt::format, empty_format)]
    fn c19_parse_duration_integer_all_i64() {
        let i: i64 = kani::any();
        let y = Yaml::Integer(i);
        let r = parse_duration("lifetime", &y);
        kani::cover!(i == i64::MAX, "largest integer");
        kani::cover!(i == 0, "zero");
        kani::cover!(i == -1, "negative");
        assert!(matches!(r, Ok(Some(_)) | Err(Error::InvalidConfig(_))), "integer durations: a value or InvalidConfig");
        if i >= 0 {
            assert!(matches!(&r, Ok(Some(d)) if d.as_secs() == i as u64 && d.subsec_nanos() == 0), "non-negative integer = seconds");
        } else {
            assert!(matches!(&r, Err(Error::InvalidConfig(_))), "a negative integer is refused, not wrapped to 2^64 - n seconds");
        }
    }

    // ---- duration strings ------------------------------------------------------------------------------
    fn is_unit(b: u8) -> bool {
        matches!(b, b's' | b'm' | b'h' | b'd' | b'w')
    }
    fn is_skipped(b: u8) -> bool {
        b == b'_' || b == b' ' || (9..=13).contains(&b) // '_' and ASCII White_Space
    }
    // Meaning of a duration string, written from the manual's examples ("1h 30m", "7d", "24h", "10m", "6h"):
    // a sum of <decimal number><unit> terms, a trailing bare number counts seconds, blanks and '_' are
    // separators without meaning.  None = not a duration (foreign character / unit without a number).
    fn ref_duration<const N: usize>(b: &[u8; N]) -> Option<u64> {
        // N <= 6 at every use: at most 99999 weeks, far below 2^64
        let mut total: u64 = 0;
        let mut cur: Option<u64> = None;
        let mut i = 0;
        while i < N {
            let c = b[i];
            if c.is_ascii_digit() {
                cur = Some(cur.unwrap_or(0) * 10 + (c - b'0') as u64);
            } else if is_unit(c) {
                let mult: u64 = match c {
                    b's' => 1,
                    b'm' => 60,
                    b'h' => 3600,
                    b'd' => 86400,
                    _ => 7 * 86400,
                };
                match cur.take() {
                    None => return None,
                    Some(n) => total += n * mult,
                }
            } else if !is_skipped(c) {
                return None;
            }
            i += 1;
        }
        Some(total + cur.unwrap_or(0))
    }

    // -> accepted?
    fn duration_total<const N: usize>() -> bool {
        let (s, _b) = ascii::<N>();
        let r = str_duration(Some(s));
        assert!(matches!(r, Ok(Some(_)) | Err(Error::InvalidConfig(_))), "str_duration: a duration or InvalidConfig");
        let ok = r.is_ok();
        std::mem::forget(r);
        ok
    }

    /// VERIF: {"p":"C19","tier":"thorough","fns":["config::str_duration"],"bounds":"every ASCII string of length 0,1,2,3,4 (all 128 values per octet; one instance per length, run one after the other)","oracle":"Ok(duration) or Err(InvalidConfig): never a panic (unwrap, arithmetic overflow)","stubs":["alloc::fmt::format -> empty string (message text only)"],"covers":1,"unwind":7}
    #[kani::proof]
    #[kani::unwind(7)]
    #[kani::stub(alloc::fmt::format, empty_format)]
    fn c19_str_duration_total_short() {
        let ok0 = duration_total::<0>();
        let _ = duration_total::<1>();
        let _ = duration_total::<2>();
        let _ = duration_total::<3>();
        let ok4 = duration_total::<4>();
        kani::cover!(ok0 && !ok4, "empty string accepted, a 4-character string refused");
    }

    // -> (value the reference assigns, or None when it refuses)
    fn duration_value<const N: usize>() -> Option<u64> {
        let (s, b) = ascii::<N>();
        let want = ref_duration(&b);
        // unit letters without a number in front are excluded HERE (c19_str_duration_total_short shows what
        // happens to them); everything else, including foreign characters, is in
        let mut num = false;
        let mut i = 0;
        while i < N {
            if b[i].is_ascii_digit() {
                num = true;
            } else if is_unit(b[i]) {
                kani::assume(num);
                num = false;
            } else if !is_skipped(b[i]) {
                break;
            }
            i += 1;
        }
        let r = str_duration(Some(s));
        match want {
            Some(w) => assert!(matches!(&r, Ok(Some(d)) if d.as_secs() == w && d.subsec_nanos() == 0), "str_duration value == sum of number x unit"),
            None => assert!(is_invalid_config(&r), "str_duration refuses foreign characters with InvalidConfig"),
        }
        std::mem::forget(r);
        want
    }

    /// VERIF: {"p":"C19","tier":"thorough","fns":["config::str_duration"],"bounds":"every ASCII string of length 0,1,2,3 in which each unit letter (s m h d w) that precedes the first foreign character has a digit between it and the previous unit letter","oracle":"value == sum of number x unit (+ trailing bare number as seconds), blanks and '_' ignored; a foreign character => Err(InvalidConfig); never a panic","stubs":["alloc::fmt::format -> empty string (message text only)"],"covers":3,"unwind":7}
    #[kani::proof]
    #[kani::unwind(7)]
    #[kani::stub(alloc::fmt::format, empty_format)]
    fn c19_str_duration_value_wellformed_short() {
        let _ = duration_value::<0>();
        let _ = duration_value::<1>();
        let w2 = duration_value::<2>();
        let w3 = duration_value::<3>();
        kani::cover!(w3 == Some(5400), "90m");
        kani::cover!(w3 == Some(604800 + 2), "1w2");
        kani::cover!(w2.is_none(), "refused");
    }

    /// VERIF: {"p":"C19","tier":"quick","fns":["config::str_duration"],"bounds":"every ASCII string of length 4 in which each unit letter that precedes the first foreign character has a digit between it and the previous unit letter","oracle":"as c19_str_duration_value_wellformed_short","stubs":["alloc::fmt::format -> empty string (message text only)"],"covers":2,"unwind":7}
    #[kani::proof]
    #[kani::unwind(7)]
    #[kani::stub(alloc::fmt::format, empty_format)]
    fn c19_str_duration_value_wellformed_len4() {
        let w4 = duration_value::<4>();
        kani::cover!(w4 == Some(3660), "1h1m / 61m ...");
        kani::cover!(w4 == Some(3 * 604800 + 2), "3w 2 / 3w2s");
    }

    /// VERIF: {"p":"C19","tier":"experimental","fns":["config::str_duration"],"bounds":"every ASCII string of length 5 in which each unit letter that precedes the first foreign character has a digit between it and the previous unit letter","oracle":"as c19_str_duration_value_wellformed_short","stubs":["alloc::fmt::format -> empty string (message text only)"],"covers":2,"unwind":9}
    #[kani::proof]
    #[kani::unwind(9)]
    #[kani::stub(alloc::fmt::format, empty_format)]
    fn c19_str_duration_value_wellformed_len5() {
        let w5 = duration_value::<5>();
        kani::cover!(w5 == Some(5400), "1h30m / 1h 30 ...");
        kani::cover!(w5 == Some(86400 + 7200), "1d 2h / 1d_2h");
    }

    // text -> Vec, then D symbolic decimal digits, the first one at most `first_max`
    fn push_text(out: &mut Vec<u8>, t: &str) {
        out.extend_from_slice(t.as_bytes());
    }
    fn push_digits<const D: usize>(out: &mut Vec<u8>, first_max: u8) {
        let d: [u8; D] = kani::any();
        let mut i = 0;
        while i < D {
            kani::assume(d[i] <= 9);
            kani::assume(i != 0 || d[i] <= first_max);
            out.push(b'0' + d[i]);
            i += 1;
        }
    }
    fn any_unit() -> u8 {
        let u: u8 = kani::any();
        kani::assume(is_unit(u));
        u
    }
    fn run_duration(v: Vec<u8>) {
        // decimal digits and the letters s m h d w only (ASCII): the validating constructor is skipped
        let s = unsafe { String::from_utf8_unchecked(v) };
        let r = str_duration(Some(s));
        assert!(matches!(r, Ok(Some(_)) | Err(Error::InvalidConfig(_))), "str_duration: a duration or InvalidConfig");
        std::mem::forget(r);
    }

    /// VERIF: {"p":"C19","tier":"quick","fns":["config::str_duration"],"bounds":"20-digit numbers around 2^64: the concrete digits 1844674407370955 + 4 symbolic digits (18446744073709550000..=18446744073709559999; 2^64-1 = ...1615 lies inside) + one symbolic unit letter, e.g. `lifetime: 18446744073709551615s`","oracle":"Ok or Err(InvalidConfig): a number that does not fit is refused, not a panic / silent wrap-around","stubs":["alloc::fmt::format -> empty string (message text only)"],"covers":1,"unwind":24}
    #[kani::proof]
    #[kani::unwind(24)]
    #[kani::stub(alloc::fmt::format, empty_format)]
    fn c19_str_duration_20_digits() {
        let mut v = Vec::with_capacity(21);
        push_text(&mut v, "1844674407370955");
        push_digits::<4>(&mut v, 9);
        v.push(any_unit());
        kani::cover!(v[16] == b'0' && v[17] == b'7' && v[20] == b's', "18446744073709550700s fits");
        run_duration(v);
    }

    /// VERIF: {"p":"C19","tier":"quick","fns":["config::str_duration"],"bounds":"numbers around 2^64/86400 and 2^64/604800 (both far below 2^64): `2135039823346DDu` and `305005689049DDu` with DD two symbolic digits and u a symbolic unit letter, e.g. `valid: 30500568904999w`","oracle":"Ok or Err(InvalidConfig): never a panic / silent wrap-around in number x unit","stubs":["alloc::fmt::format -> empty string (message text only)"],"covers":1,"unwind":19}
    #[kani::proof]
    #[kani::unwind(19)]
    #[kani::stub(alloc::fmt::format, empty_format)]
    fn c19_str_duration_unit_scaling() {
        let mut v = Vec::with_capacity(16);
        push_text(&mut v, "2135039823346");
        push_digits::<2>(&mut v, 9);
        v.push(any_unit());
        kani::cover!(v[15] == b'd' && v[13] == b'0' && v[14] == b'1', "213503982334601d = 2^64 - 25216 s fits");
        run_duration(v);
        let mut v = Vec::with_capacity(15);
        push_text(&mut v, "305005689049");
        push_digits::<2>(&mut v, 9);
        v.push(any_unit());
        run_duration(v);
    }

    /// VERIF: {"p":"C19","tier":"quick","fns":["config::str_duration"],"bounds":"two terms `15000000000000w155005689049DDw` with DD two symbolic digits: each term alone is about 9e18 s (< 2^64), the sum ranges over 30500568904900..=30500568904999 weeks, i.e. across 2^64 s = 30500568904943.04 weeks","oracle":"Ok or Err(InvalidConfig): a sum that does not fit is refused, not a panic (Duration += panics with 'overflow when adding durations' in every build profile)","stubs":["alloc::fmt::format -> empty string (message text only)"],"covers":1,"unwind":33}
    #[kani::proof]
    #[kani::unwind(33)]
    #[kani::stub(alloc::fmt::format, empty_format)]
    fn c19_str_duration_sum_of_terms() {
        let mut v = Vec::with_capacity(30);
        push_text(&mut v, "15000000000000w155005689049");
        push_digits::<2>(&mut v, 9);
        v.push(b'w');
        kani::cover!(v[27] == b'4' && v[28] == b'3', "15000000000000w15500568904943w = 2^64 - 25216 s fits");
        run_duration(v);
    }

    // ---- hardware addresses ----------------------------------------------------------------------------
    fn hexval(c: u8) -> Option<u8> {
        if c.is_ascii_digit() {
            Some(c - b'0')
        } else if (b'a'..=b'f').contains(&c) {
            Some(c - b'a' + 10)
        } else if (b'A'..=b'F').contains(&c) {
            Some(c - b'A' + 10)
        } else {
            None
        }
    }
    // -> accepted?
    fn hexbyte_on<const N: usize>() -> bool {
        let (s, b) = ascii::<N>();
        let bs: &[u8] = &b;
        let r = hexbyte(&s);
        let want = if bs.len() == 2 {
            match (hexval(bs[0]), hexval(bs[1])) {
                (Some(h), Some(l)) => Some(h * 16 + l),
                _ => None,
            }
        } else {
            None
        };
        match want {
            Some(w) => assert!(matches!(r, Ok(v) if v == w), "hexbyte value"),
            None => assert!(r.is_err(), "hexbyte refuses anything but two hex digits"),
        }
        want.is_some()
    }

    /// VERIF: {"p":"C19","tier":"quick","fns":["config::hexbyte","config::hexdigit"],"bounds":"every ASCII string of length 0,1,2,3 (one instance per length, run one after the other)","oracle":"Ok(16*h+l) exactly for two hex digits (either case), Err otherwise; never a panic","covers":2,"unwind":6}
    #[kani::proof]
    #[kani::unwind(6)]
    fn c19_hexbyte_total() {
        let ok0 = hexbyte_on::<0>();
        let ok1 = hexbyte_on::<1>();
        let ok2 = hexbyte_on::<2>();
        let ok3 = hexbyte_on::<3>();
        assert!(!ok0 && !ok1 && !ok3, "reference sanity");
        kani::cover!(ok2, "two hex digits");
        kani::cover!(!ok2, "two characters refused");
    }

    // ---- prefixes -----------------------------------------------------------------------------------------
    // NOT REACHABLE (measured): str_hwaddr, str_prefix, str_prefix4, str_prefix6, str_sockaddr (and dhcp's
    // parse_subnet / parse_routes).  They all start with str::split / str::contains on a char; CBMC cannot fold
    // the CharSearcher state, so the nest `Vec::extend` x `CharSearcher::next_match` x `memchr` x `memcmp` is
    // unrolled to the unwinding bound on every level: `String::from("10.0.0.0/").split('/').collect()` alone (fully
    // concrete, unwind 11/16) and str_hwaddr on "xx:xx" (unwind 7) exceed 240 s / 5 GB, with or without a naive
    // stub for core::slice::memchr::memchr.  What these parsers let through was therefore established by running
    // the real loader natively on YAML text (see the report); the harness below and c19_prefix_ops_total_any_len
    // cover what happens AFTER such a value has been accepted, on a struct built exactly the way str_prefix*
    // build it (field-wise, without Prefix6::new).

    /// VERIF: {"p":"C19","tier":"quick","fns":["config::Prefix6::contains(Ipv4Addr)","config::Prefix6::network","config::Prefix4::new"],"bounds":"Prefix6 with all 2^128 addresses x every prefix length the loader accepts (0..=128; str_prefix/str_prefix6 refuse longer ones - that refusal is in string code Kani cannot reach (str::split) and is established by reading and by the native demonstration recorded in known_findings.json 'fixed') x all 2^32 IPv4 clients","oracle":"no panic / underflow (`prefixlen - 96`, Prefix4::new's assert)","covers":2}
    #[kani::proof]
    fn c19_prefix6_contains_v4_total_any_len() {
        let a: u128 = kani::any();
        let len: u8 = kani::any();
        kani::assume(len <= 128);
        let p6 = Prefix6 { addr: Ipv6Addr::from(a), prefixlen: len };
        kani::cover!(len == 128 && a == 0xffff_0000_0001, "mapped host prefix");
        kani::cover!(len < 96, "shorter than the mapped /96");
        let _ = p6.contains(Ipv4Addr::from(kani::any::<u32>()));
    }
}
