// Kani harnesses for crates/erbium-core/src/dns/bucket.rs (C16).
#[cfg(kani)]
mod k {
    use super::super::*;

    static mut NOW: u32 = 0;
    struct VClock;
    impl Clock for VClock {
        fn now() -> u32 {
            unsafe { NOW }
        }
    }
    fn set_now(t: u32) {
        unsafe { NOW = t }
    }

    const B: u64 = GenericTokenBucket::MAX_TOKENS as u64;
    const R: u64 = GenericTokenBucket::TOKENS_PER_SECOND as u64;
    // Minimum cost charged by dns::should_ratelimit; extracted from the source by the runner.
    const MIN_COST: u32 = {
        let s = env!("VERIF_C16_MIN_COST").as_bytes();
        let mut v = 0u32;
        let mut i = 0;
        while i < s.len() {
            v = v * 10 + (s[i] - b'0') as u32;
            i += 1;
        }
        v
    };

    fn steps<const K: usize>() {
        // arbitrary reachable pre-state: the stored "empty at" stamp never lies in the future
        let t0: u32 = kani::any();
        kani::assume(t0 >= (B / R) as u32); // clock is seconds since 1970; now - B/R must not underflow
        let s0: u32 = kani::any();
        kani::assume(s0 <= t0);
        let mut b = GenericTokenBucket(s0);
        let mut t = t0;
        let mut granted: u64 = 0;
        let mut n_granted = 0u32;
        let mut i = 0;
        while i < K {
            let dt: u32 = kani::any();
            kani::assume(dt <= u32::MAX - t); // non-decreasing, no 2106 wrap
            t += dt;
            set_now(t);
            let cost: u32 = kani::any();
            if b.check::<VClock>(cost) {
                b.deplete::<VClock>(cost);
                granted += cost as u64;
                if cost > 0 {
                    n_granted += 1;
                }
            }
            assert!(b.0 <= t, "invariant: bucket stamp never in the future");
            i += 1;
        }
        kani::cover!(n_granted as usize == K, "every step granted a non-zero charge");
        kani::cover!(n_granted == 0, "nothing granted");
        assert!(
            granted <= B + R * (t - t0) as u64,
            "granted volume <= burst + rate * elapsed"
        );
    }

    // credit available at time t in state s, in tokens: R * (t - max(s, t - B/R)), within [0, B]
    fn credit(s: u32, t: u32) -> u64 {
        let floor = t as u64 - B / R;
        let base = if (s as u64) > floor { s as u64 } else { floor };
        R * (t as u64 - base)
    }

    /// VERIF: {"p":"C16","tier":"quick","fns":["dns::bucket::GenericTokenBucket::check","dns::bucket::GenericTokenBucket::deplete","dns::bucket::GenericTokenBucket::get_tokens_with_time"],"bounds":"ONE charge attempt from an arbitrary reachable state (stamp <= now), arbitrary u32 cost, arbitrary non-decreasing u32 clock >= B/R (no 2106 wrap); inductive step: telescoping over any number of attempts gives sum granted <= B + R*elapsed","oracle":"potential argument: credit' <= credit + R*dt - granted, 0 <= credit <= B, stamp <= now preserved; no overflow","stubs":["Clock = harness clock returning arbitrary non-decreasing seconds"],"covers":3}
    #[kani::proof]
    fn c16_bucket_step_potential() {
        let t0: u32 = kani::any();
        kani::assume(t0 as u64 >= B / R);
        let s0: u32 = kani::any();
        kani::assume(s0 <= t0);
        let dt: u32 = kani::any();
        kani::assume(dt <= u32::MAX - t0);
        let t1 = t0 + dt;
        let mut b = GenericTokenBucket(s0);
        set_now(t1);
        let cost: u32 = kani::any();
        let ok = b.check::<VClock>(cost);
        let mut granted = 0u64;
        if ok {
            b.deplete::<VClock>(cost);
            granted = cost as u64;
        }
        kani::cover!(ok && cost as u64 == B, "full burst granted");
        kani::cover!(!ok && cost > 0, "refused");
        kani::cover!(ok && cost > 0 && dt == 0, "grant without time passing");
        assert!(b.0 <= t1, "invariant: bucket stamp never in the future");
        assert!(credit(s0, t0) <= B, "credit bounded by burst");
        assert!(
            credit(b.0, t1) + granted <= credit(s0, t0) + R * dt as u64,
            "credit' + granted <= credit + rate * dt"
        );
    }

    /// VERIF: {"p":"C16","tier":"quick","fns":["dns::bucket::GenericTokenBucket::check","dns::bucket::GenericTokenBucket::deplete"],"bounds":"2 consecutive charge attempts, otherwise as the step lemma (direct, non-inductive cross-check of the telescoped bound)","oracle":"sum granted <= MAX_TOKENS + TOKENS_PER_SECOND*(t_last - t_first)","stubs":["Clock = harness clock returning arbitrary non-decreasing seconds"],"covers":2,"unwind":4}
    #[kani::proof]
    #[kani::unwind(4)]
    fn c16_bucket_volume_bound_k2() {
        steps::<2>();
    }

    /// VERIF: {"p":"C16","tier":"thorough","fns":["dns::bucket::GenericTokenBucket::check","dns::bucket::GenericTokenBucket::deplete"],"bounds":"3 consecutive charge attempts, otherwise as c16_bucket_volume_bound_k2","oracle":"sum granted <= MAX_TOKENS + TOKENS_PER_SECOND*(t_last - t_first)","stubs":["Clock = harness clock returning arbitrary non-decreasing seconds"],"covers":2,"unwind":5}
    #[kani::proof]
    #[kani::unwind(5)]
    fn c16_bucket_volume_bound_k3() {
        steps::<3>();
    }

    /// VERIF: {"p":"C16","tier":"quick","fns":["dns::bucket::GenericTokenBucket::check","dns::should_ratelimit (minimum cost constant, extracted from source)"],"bounds":"any reachable bucket state idle for >= MAX_TOKENS/TOKENS_PER_SECOND seconds, any u32 clock","oracle":"a charge of the minimum cost that should_ratelimit can ask for is granted to a quiet source","stubs":["Clock = harness clock"],"covers":1}
    #[kani::proof]
    fn c16_quiet_source_gets_refused_reply() {
        let now: u32 = kani::any();
        kani::assume(now as u64 >= B / R);
        let s0: u32 = kani::any();
        kani::assume(s0 <= now && (now - s0) as u64 >= B / R); // idle for at least the refill period
        let b = GenericTokenBucket(s0);
        set_now(now);
        kani::cover!(s0 > 0, "non-initial state");
        assert!(
            b.check::<VClock>(MIN_COST),
            "after an idle refill period the minimum charge is granted"
        );
    }

    /// VERIF: {"p":"C16","tier":"quick","fns":["dns::bucket::GenericTokenBucket::check","dns::bucket::GenericTokenBucket::deplete"],"bounds":"any bucket state not ahead of the clock by more than 2^16 s, any clock >= B/R below 2^31, two replies of any cost <= 131070 that BOTH passed check before either was charged (the check-then-deplete interleaving IpRateLimiter::check allows), charged at a later instant <= 60 s on","oracle":"the debt of every granted reply is recorded in full: the bucket's empty-since stamp ends at max(stamp, now - B/R) + ceil(c1/R) + ceil(c2/R) or later, so overdraft is carried forward and the long-run rate stays R whatever the interleaving","stubs":["Clock = harness clock"],"covers":2}
    #[kani::proof]
    fn c16_overdraft_is_carried_forward() {
        let s0: u32 = kani::any();
        let now: u32 = kani::any();
        let later: u32 = kani::any();
        let c1: u32 = kani::any();
        let c2: u32 = kani::any();
        kani::assume(now as u64 >= B / R && now < (1 << 31) && later >= now && later - now <= 60);
        kani::assume(s0 <= now + 65536);
        kani::assume(c1 <= 131070 && c2 <= 131070);
        let mut b = GenericTokenBucket(s0);
        set_now(now);
        kani::assume(b.check::<VClock>(c1) && b.check::<VClock>(c2));
        set_now(later);
        b.deplete::<VClock>(c1);
        b.deplete::<VClock>(c2);
        let base = std::cmp::max(s0 as u64, later as u64 - B / R);
        let debt = (c1 as u64).div_ceil(R) + (c2 as u64).div_ceil(R);
        kani::cover!(base + debt > later as u64, "overdrawn: the stamp lies in the future");
        kani::cover!(c1 > 0 && c2 > 0 && s0 > now - (B / R) as u32, "partly filled bucket");
        assert!(b.0 as u64 >= base + debt, "both charges recorded in full (overdraft carried forward)");
    }

    /// VERIF: {"p":"C16","tier":"quick","fns":["dns::bucket::GenericTokenBucket::new","dns::bucket::GenericTokenBucket::check"],"bounds":"fresh bucket, any u32 clock >= B/R","oracle":"the very first refused query from a source is answered","stubs":["Clock = harness clock"],"covers":1}
    #[kani::proof]
    fn c16_fresh_bucket_grants_min_cost() {
        let now: u32 = kani::any();
        kani::assume(now as u64 >= B / R);
        let b = GenericTokenBucket::new();
        set_now(now);
        kani::cover!(now > 1_700_000_000, "realistic clock");
        assert!(b.check::<VClock>(MIN_COST), "fresh bucket grants the minimum charge");
    }
}

// helpers for harnesses in other modules (private consts/fields are only reachable from here)
#[cfg(kani)]
impl super::GenericTokenBucket {
    pub fn verif_refill_period() -> u32 {
        Self::MAX_TOKENS / Self::TOKENS_PER_SECOND
    }
    // check() of a bucket whose stamp is `s0` at time `now`, with a local clock
    pub fn verif_idle_grants(s0: u32, now: u32, tokens: u32) -> bool {
        static mut T: u32 = 0;
        struct C;
        impl super::Clock for C {
            fn now() -> u32 {
                unsafe { T }
            }
        }
        unsafe { T = now };
        super::GenericTokenBucket(s0).check::<C>(tokens)
    }
}
