#!/usr/bin/env python3
"""Regenerates /verif/MANIFEST.json from the per-property table below (run after editing)."""
import json
import os
import subprocess

VERIF = os.path.dirname(os.path.dirname(os.path.abspath(__file__)))

K = "Kani 0.68 / CBMC 6.11 bounded model checking of the compiled crate code (symbolic inputs, CaDiCaL verdict, unwinding assertions on, kani::cover! vacuity witnesses, concrete-playback replay in dev and release-like profiles)"
M = "mirsym: symbolic execution of rustc MIR (nightly -Zunpretty=mir of the current tree) of the real functions into SMT (z3), SQL text translated to SMT over a bounded symbolic lease table; one inductive step from an arbitrary table; counterexamples replayed on the real Pool"
MS = "symbolic execution of rustc MIR of the real functions into SMT (z3) with SQL->SMT over a bounded symbolic lease table; inductive single step; native replay of counterexamples"
KB = "bounded model checking (Kani/CBMC) of the compiled crate code"

POOL_NOTE = ("Assumes: SQLite executes each statement and its meaning is the SQL->SMT translation of the SQL text found at the call site (schema: unique keys re-read from the DDL in the source); "
             "wall clock non-decreasing and now + max lease < 2^32 (year-2106 wrap outside the claim); lease table bounded as stated per obligation (every query touches the asker's rows and at most one "
             "candidate row per pool address); externals summarised by contract (list in evidence). Message-handling obligations (handle_pkt) replace the policy layer by an arbitrary outcome and the "
             "request-option accessors by the decoded value of their option. NOT decided: concurrent packets (tokio mutex not encoded), option decoding/policy evaluation themselves (C11/C12), durability (C18).")

CLAIMS = {
    "C01": dict(engine="mirsym", technique=MS, design="3/C01", note=POOL_NOTE,
                text="Solver-decided for ONE allocate_address step from every lease table the representation invariant admits (<= 2 rows quick / 3 thorough, all columns symbolic), every client, requested address, pool set of <= 2 (3) symbolic addresses, min/max lease and non-decreasing clock: a granted address is not held unexpired by another client, ends up as exactly one row owned by the asker and is a pool member; the invariant is re-established; a refusal leaves the table untouched. Induction over the step covers histories of any length, pool changes between messages and restarts. Plus handle_pkt (DISCOVER and REQUEST) from MIR on top of the pool model: yiaddr is the address whose row the pool wrote for the asking client, and the pool is asked on behalf of the client identifier."),
    "C02": dict(engine="kani+mirsym", technique=KB + " (prefix arithmetic); " + MS + " (pool membership of every grant; default-policy host range and reserved-address union from MIR with lazily generated symbolic sets)", design="3/C02",
                text="Solver-decided: Prefix4 / Ipv4Subnet network, netmask, broadcast and containment equal mask arithmetic for all addresses and prefix lengths, and Ipv4Subnet::new refuses every length > 32; the sub-policy build_default_config derives from an `addresses` prefix (closure executed from MIR; prefix, length 0..=32, receiving address symbolic, reserved addresses an arbitrary set) hands out exactly D = host addresses of the prefix minus the receiving address minus addresses reserved by configured policies - both inclusions, no overflow; get_all_used_addresses is exactly the union of every policy's address set at every depth (tree shapes of depth <= 2, 3 thorough; cached second call too); every address granted by allocate_address is a member of the address set handed down by the policy layer (all grant paths, inductive step as C01); the innermost applied policy's own set replaces the parent's (C11's pool claim).",
                note="NOT decided (YAML walker outside both engines): that apply-subnet / apply-range in parse_policy expand to the documented host set (the repaired off-by-one there is demonstrated natively only), single-address reservations end to end, draining a pool through real packets. " + POOL_NOTE),
    "C03": dict(engine="mirsym", technique="symbolic execution of rustc MIR into SMT (z3) of create_in_reply, whose async body is lifted verbatim into a synchronous fn on every run", design="3/C03",
                text="Solver-decided for upstream replies of bounded section shape (<= 3 records per section) with every record field, rcode and header bit symbolic and client queries with symbolic id/question: the reply assembled by create_in_reply carries the client's id and question, is marked as a response, and its rcode, answer, authority and additional sections are the upstream's record by record and in order.",
                note="Assumes the syntactic lifting (strip .await, add_edns -> no-op: it only fills the reply's own OPT options) preserves the body; derived Clone = structural copy. NOT decided: the upstream query (create_outquery), id matching and retry in outquery.rs (async sockets), the wire codec (C14, not claimed), TTL ageing in the cache (C06)."),
    "C04": dict(engine="mirsym", technique="symbolic execution of rustc MIR into SMT (z3) of the size-limited DNS serialiser with a symbolic size limit, and of the per-transport choice of limit (initialisers of the sent buffers lifted verbatim from run_udp / run_tcp), checked against an independent structural oracle", design="3/C04",
                text="Solver-decided for messages of bounded concrete shape (<= 5 records with rdata of 0..600 octets across the three sections, with and without OPT) with symbolic ids, flags, types, TTLs, rcode and a symbolic size limit over the whole range 512..65535: DNSPkt::serialise_with_size never exceeds the limit, drops whole records from the end only, rewrites the three section counts to the records actually present, sets TC exactly when a record was dropped, and the output length is header + question + kept records. Per transport, for every advertised payload size 0..65535: what run_udp sends is never larger than max(512, advertised); what run_tcp sends is complete whenever it fits in 65535 octets.",
                note="NOT decided: the socket calls themselves and that the lifted `let` initialiser is the buffer handed to send_msg / write (read, two lines below it); owner names other than the root in the size obligations (compression is covered by C14's obligations); messages with > 5 records. Summaries for byte vectors / iterators listed in the evidence."),
    "C05": dict(engine="kani+mirsym", technique=KB + " on parser skeletons (length/type fields enumerated over boundary values, contents symbolic); symbolic execution of rustc MIR into SMT (z3) of the DNS decoder, EDNS accessors and re-encoder on message skeletons", design="3/C05",
                text="Solver-decided panic-freedom (Kani's overflow, bounds, unwrap, assert checks + unwinding assertions) of: the pktparser cursor (any 3 operations, buffers <= 8 octets), dhcppkt::parse at every field-boundary truncation and on fully symbolic 241-octet headers, EDNS COOKIE/EDE accessors for option lengths 0..40, LLDP TLV / management-address / packet decoders and ICMPv6 option decoders on skeleton families; the lifted rate-limiter bucket indexing. (mirsym) PktParser::get_dns + get_cookie/get_extended_dns_error + DNSPkt::serialise on 11 DNS message skeletons (plain, OPT, COOKIE of 0/7/8/24 octets, short EDE, compressed answer, self/forward/out-of-range pointers, lying counts) and on every truncation point of two of them, contents symbolic: Ok or Err, no panic in decode, option access or re-encode.",
                note="NOT decided: arbitrary byte strings beyond the skeleton families and sizes stated per obligation; DHCP option decoding through parse_options (HashMap inserts: out of CBMC's reach); DNS messages outside the skeleton family (symbolic length fields); stack depth of recursive name compression; 'the service still answers the next request' (process liveness; socket loops such as lldp/mod.rs:24 buffer[14..]). Kani models the dev profile (overflow checks on)."),
    "C06": dict(engine="kani+mirsym", technique=KB + " (TTL kernels); symbolic execution of rustc MIR of the real cache functions into SMT (z3) with a bounded symbolic cache map; native replay", design="3/C06",
                text="Solver-decided: (mirsym, from MIR) CacheHandler::get_entry + calculate_expiry + CacheValue::expiry + clone_with_ttl_decrement_out_reply + DNSPkt::clone_with_ttl_decrement/get_expiry on replies of bounded section shape with all TTLs, both cache keys and both instants symbolic: lifetime = min TTL; a hit only for a key equal in name, type, DO and CD and only while elapsed <= min TTL; every served TTL = original - whole seconds elapsed (rustc's overflow assertions kept as panic obligations); an unexpired identical entry is served. (Kani) get_expiry and clone_with_ttl_decrement kernels on the compiled code.",
                note="Assumes: monotonic clock; HashMap::get = lookup by the crate's own derived CacheKey::eq over a bounded entry list (Hash/Eq consistency of the derive not re-checked); names abstracted to identities; tokio Instant/Duration arithmetic summarised. NOT decided: insertion/expiry sweep (HashMap::retain), the class-IN gate, key construction and lock interleavings in the async handle_query. Kani stub: derived <RData as Clone>::clone restricted to the variant the harness builds."),
    "C07": dict(technique="bounded model checking (Kani/CBMC) of the reply-source-address conversion only", design="3/C07",
                text="Solver-decided for all 2^32 / 2^128 addresses: the address the kernel reported as the query's destination is, byte for byte, the address placed in the reply's IP_PKTINFO/IPV6_PKTINFO control message (std_to_libc_in_addr / in6_addr, RecvMsg::local_ip, ControlMessage::convert_to_cmsg). This is ONE mechanism of C07 (src(resp)=dst(q) on IPv4-only and IPv6 listeners).",
                note="NOT decided here: exactly-one-reply, matching of answers to questions under reordering/duplication/loss, retransmission and SERVFAIL-on-silence. Those are tokio concurrency over sockets; Kani does not model concurrency and coroutine MIR is outside the MIR->SMT encoder. Trusted: Kani's model of libc structs, little-endian x86_64 target."),
    "C08": dict(engine="kani+mirsym", technique=KB + " of prefix containment and ACL evaluation; symbolic execution of rustc MIR into SMT (z3) of the lifted DNS ACL gate", design="3/C08",
                text="Solver-decided over all addresses and prefix lengths (host bits free): Prefix4/Prefix6/Prefix::contains for v4, v6 and v4-mapped clients equals mask semantics on the written prefix; require_permission / Acl::check on rule lists of bounded concrete shape (<= 3 rules, subnet lists of 0..2 prefixes, unix flag absent/true/false) with symbolic contents, network and unix-socket clients, all 4 operations: granted <=> the first matching rule has the permission bit; no match => NotAuthenticated; default_acls. (mirsym) the DNS entry point DnsAclHandler::handle_query (async body lifted verbatim): dns-recursion is checked exactly once for every query whatever RD/type/port, a refused client gets RefusedByAcl and never reaches routing, cache or upstream.",
                note="NOT decided: which permission each HTTP path asks for (hyper request types and a DhcpService holding sockets cannot be built under Kani; coroutine MIR outside the encoder). In the mirsym obligation require_permission's verdict is an arbitrary input (it is decided by the Kani harnesses). Rule lists bounded as stated per obligation."),
    "C09": dict(engine="mirsym", technique=MS, design="3/C09", note=POOL_NOTE + " Known finding F-C09-1 (known_findings.json) is reported, not raised.",
                text="Solver-decided on the same inductive step as C01: a client holding an unexpired lease inside the pool gets one of those addresses (the named one if it holds it); a request is refused only with NoAssignableAddress and only if every pool address is held, unexpired, by another client; handle_pkt hands the pool ciaddr if set, else the requested-address option (REQUEST) / the requested-address option (DISCOVER). The claims are checked separately with and without the pre-state condition of known finding F-C09-1, so any violation outside that condition is still raised."),
    "C10": dict(engine="mirsym", technique=MS, design="3/C10", note=POOL_NOTE,
                text="Solver-decided on the same inductive step: the lease duration returned by the pool lies within [min, max] for every symbolic min <= max; the stored row has start = reply time and expiry = start + advertised lease without wrap (so recorded_expiry - recorded_start = L and recorded_expiry >= t + L); no arithmetic panic (rustc's overflow assertions are kept as obligations) on any path, for any renewal rhythm (arbitrary pre-state row). Plus handle_pkt from MIR: every OFFER and every ACK carries option 51, its value equals recorded expiry - recorded start and lies within [min, max], also when a matching policy tries to override option 51."),
    "C11": dict(engine="mirsym", technique="symbolic execution of rustc MIR into SMT (z3) of the policy evaluator, compared with a reference model written from erbium.conf(5)", design="3/C11",
                text="Solver-decided on policy trees of bounded concrete shape (depth <= 2, width <= 3 quick; depth 3 thorough; conditions match-all / match-hardware-address / match-subnet / match-<option>(value|null); apply-<option>(value|null); own address pools) with all addresses, values and request fields symbolic: apply_policies + apply_policy + check_policy + check_policies + mutate_option(_default) + Ipv4Subnet arithmetic, executed from MIR, yield exactly Model(config, request): first matching sibling; AND of conditions; a condition-less policy applies iff a sub-policy does; outer then inner, inner overrides, null unsets; only requested options; own pool replaces the parent's; netmask/broadcast defaults of the matched subnet unless set or unset.",
                note="NOT decided: YAML -> Policy (the loader), the built-in base policy from top-level settings (build_default_config: HashSet construction in iterator closures, outside the encoder), option value typing/serialisation (values are opaque 4-octet strings), trees deeper than 3 or wider than 3. Documented-silent cases are left unconstrained by the reference."),
    "C12": dict(technique=KB + " of the DHCP codec kernels and the Ethernet/IPv4/UDP frame builder", design="3/C12",
                text="Solver-decided: get_broadcast_flag <=> flags & 0x8000 for all 65536 flag values; serialise_option output decodes (RFC 2132/3396 reference decoder in the harness) to the original value for lengths {0,1,2,7,255,256} (300/511 thorough); fixed-header parse(serialise(m)) = m for all header values (hlen 6 quick; 0 and 16 thorough); new_udp4 frames for payloads 0..2 (3,4,7 thorough): layout, lengths, addresses, ports, payload, verifying IPv4 and UDP checksums against an independent summation (thorough tier: frame harnesses need 4-8 min each).",
                note="NOT decided: decoding of option multisets through the real parse_options and encoding from the real map (HashMap: out of CBMC's reach) - the decoder side is a reference decoder; payloads > 7 octets; which destination recvdhcp chooses (async socket code; only the flag predicate is decided). UDP-checksum harnesses exceed 14 GB at unwind 12 and are reported inconclusive where they do."),
    "C13": dict(engine="mirsym", technique=MS, design="3/C13", note=POOL_NOTE,
                text="Solver-decided: (pool step) a successful allocation changes only the row of the granted address, a refused one changes nothing. (handle_pkt from MIR, every header field, message type 0..255/absent, server-id absent/any, one server id) only DISCOVER and REQUEST are answered; a REQUEST naming a server only if it names one of this server's ids; every unanswered message leaves the table untouched (no write executed); the reply echoes xid, flags, giaddr, chaddr with op = BOOTREPLY, is OFFER/ACK, carries a server identifier naming this server (also when a policy tries to override option 54), and the store changes only at the row of yiaddr."),
    "C15": dict(engine="kani+mirsym", technique=KB + " of the suffix relation and ordering kernels; symbolic execution of rustc MIR into SMT (z3) of the lifted route-selection loop with native replay", design="3/C15",
                text="Solver-decided: Domain::ends_with equals the whole-label, ASCII-case-insensitive suffix relation for 3-label names against suffixes of 0..4 labels with all octets symbolic (so every case mix); compare_longest_suffix orders longer suffixes first, antisymmetric, Equal only for identical suffixes. (mirsym) the selection loop and action dispatch of DnsRouteHandler::handle_query (async body lifted verbatim, executed from MIR together with ends_with and compare_longest_suffix): for 3 routes whose suffix lengths range over every ordering of 0..3 labels (16 shapes quick, all 64 thorough), all octets, actions and RD symbolic: outcome = action of the matching suffix with most labels; forge-nxdomain never goes upstream; forward only to that route's server and only with RD; no match = no route.",
                note="Assumes the syntactic lifting preserves the body (lock = identity, next handler = recording stub, config/message replaced by views holding exactly the fields read). NOT decided: which upstream socket actually receives the query, multi-octet labels beyond the Kani kernel's bounds, > 3 routes. Equal-length suffixes with different actions are documented-silent and left unconstrained."),
    "C16": dict(technique=KB + " of the token bucket with a symbolic clock (inductive potential-function step) and of the lifted cost expression", design="3/C16",
                text="Solver-decided: one charge attempt from an arbitrary reachable bucket state under an arbitrary non-decreasing clock never releases more than credit + rate*dt (telescopes to burst + rate*elapsed for histories of any length; cross-checked directly for 2-3 attempts); a source idle for the refill period is granted the minimum cost should_ratelimit charges (constant extracted from the source on every run).",
                note="NOT decided: the two-bucket hashing in IpRateLimiter::check (async, tokio locks, SipHash), the check-then-deplete race under concurrent packets, and the whole cookie sub-claim (HMAC-SHA-256 is not something a SAT back end inverts). Clock values < B/R seconds and the year-2106 wrap are outside the bound."),
    "C17": dict(technique=KB + " of build_announcement_pure + serialise_router_advertisement against a decoder written from RFC 4861/8106/8781/8910 in the harness", design="3/C17",
                text="Solver-decided for interface configurations of concrete shape with symbolic values (hop limit, M/O flags, router lifetime tri-state over 0..2^64-1 s, reachable/retrans over 0..2^64-1 s, link-layer address, MTU, one RDNSS list of <= 2 servers at interface or top level incl. $self6, PREF64 with every legal length and any lifetime, captive portal, null suppression): the octets produced decode under the RFC decoder to exactly the configured values, lengths are multiples of 8, reserved fields zero, unrepresentable values clamped never wrapped, no option emitted for an empty list.",
                note="NOT decided (CBMC does not get through enum tags / Strings read back from the heap for these variants; harnesses exist at tier experimental): Prefix Information options (flags, lifetimes, masking of bits beyond the length - repaired defect shown by reading), DNSSL encoding, all-options framing, 16 prefixes / 8 servers / 240-octet URLs; the async build_announcement wrapper (mtu/lifetime tri-state resolution) and YAML -> Interface (C19)."),
    "C19": dict(technique=KB + " of the configuration leaf parsers (typed scalar/array parsers, type_to_name, str_duration, parse_duration, hexbyte, radv/dhcp/dns leaf parsers on wrong-typed, empty and null values) and of accepted prefix values in the handlers", design="3/C19",
                text="Solver-decided: every typed scalar parser returns Ok or InvalidConfig (never panics) on every wrongly typed scalar, null, empty array and empty mapping; type_to_name is total; str_duration is total on every ASCII string of <= 4 characters and on 20-digit / unit-scaling / sum-of-terms overflow families, and returns the documented value on well-formed strings; parse_num/parse_duration over all i64; RA/DHCP/DNS section parsers on non-mapping and empty values; Prefix6::contains(IPv4 client) and Ipv4Subnet accessors are total for every prefix length the loader accepts.",
                note="NOT decided (measured out of CBMC's reach: str::split/contains on even concrete strings, LinkedHashMap insert of one key, Policy::default): str_prefix*/str_hwaddr/str_sockaddr/parse_subnet/parse_routes on strings, every mapping with keys (parse_policy, parse_interface, parse_prefix with keys, parse_pref64), manual examples loading, byte-level mutations of the example file, and serve(c, r) beyond the prefix-length paths named above. The loader repairs in those regions (prefix length bounds, route prefix, NAT64 length) are demonstrated natively."),
    "C20": dict(engine="mirsym", technique=MS, design="3/C20", note="Assumptions as C01. NOT decided: the JSON lease listing (serve_leases needs a DhcpService with sockets and goes through format!/{:?}); that update_metrics stores first->active, second->expired (async; read, not decided).",
                text="Solver-decided: get_pool_metrics returns Ok((|{expiry > now}|, |{expiry <= now}|)) for every lease table of <= 2 rows (4 thorough) including the empty one (SQLite's NULL-on-empty SUM is modelled), for every clock value."),
}

PENDING = {}

NOT_APPLICABLE = {
    "C18": "persistence across restart/upgrade/crash lives in SQLite's file format, journal and fsync behind FFI and the filesystem; neither Kani nor the MIR->SMT encoder executes it, and a model of SQLite durability would be an assumption rather than the code",
}

ALL = ["C%02d" % i for i in range(1, 21)]


def main():
    commits = subprocess.run(["git", "-C", "/repo", "log", "--format=%h %s", "004459e..HEAD"], text=True,
                             capture_output=True).stdout.splitlines()
    hook_commits = [c.split()[0] for c in commits if c.split(" ", 1)[1].startswith("verif hooks")]
    checks = []
    for pid in ALL:
        if pid not in CLAIMS:
            continue
        c = CLAIMS[pid]
        checks.append(dict(
            property_id=pid,
            quick_cmd=f"./check {pid} --tier quick",
            thorough_cmd=f"./check {pid} --tier thorough",
            evidence_file=f"/verif/evidence/{pid}.json",
            replay_cmd_template=f"./check {pid} --replay {{path}}",
            engine=c.get("engine", "kani"),
            level_claimed=dict(category="model_checking", text=c["text"], design_ref="DESIGN.md section " + c["design"]),
            level_note=c["note"],
            technique=c["technique"],
        ))
    na = []
    for pid in ALL:
        if pid in CLAIMS:
            continue
        reason = NOT_APPLICABLE.get(pid) or PENDING.get(pid) or "check not built yet in this round"
        na.append(dict(property_id=pid, reason=reason))
    man = dict(
        version=1,
        setup_cmd="./check --setup",
        hooks=dict(
            guard="cargo feature isomer_erbium_verif (erbium-core, erbium-net)",
            enable="cargo kani -p <crate> --features isomer_erbium_verif with ISOMER_ERBIUM_VERIF_DIR=/verif/kani (and VERIF_GEN_DIR for lifted sources): each source file ends in a cfg-guarded private module that include!s /verif/kani/<module>.rs, giving harnesses access to crate-private items; nothing is compiled with the feature off. The mirsym engine needs no hook for deciding (it reads the nightly MIR dump of the unmodified crate); its native replay test lives in /verif/kani/dhcp_pool.rs behind the same feature.",
            baseline_off_cmd="cd /repo && cargo test --workspace --no-fail-fast --offline",
            source_commits=hook_commits,
            add_only=True,
        ),
        engines=[
            dict(name="kani", path="/verif/kani", serves_properties=sorted(p for p, c in CLAIMS.items() if "kani" in c.get("engine", "kani")),
                 kind_free_text=K),
            dict(name="mirsym", path="/verif/lib/mirsym", serves_properties=sorted(p for p, c in CLAIMS.items() if "mirsym" in c.get("engine", "")),
                 kind_free_text=M),
        ],
        checks=checks,
        not_applicable=na,
        notes="Exit codes of ./check: 0 = all obligations discharged (KNOWN-FINDING lines for findings listed in known_findings.json), 1 = VIOLATION (replayed natively), 2 = inconclusive (bound, vacuity, unsupported construct, build error, non-reproducing counterexample, or nothing decided at all); a harness that only hits the solver time/memory cap is printed as UNDECIDED, recorded as inconclusive in the evidence and never counted as discharged. Scratch build output lives in /verif/.work (git-ignored).",
    )
    with open(os.path.join(VERIF, "MANIFEST.json"), "w") as f:
        json.dump(man, f, indent=1)
    print("wrote MANIFEST.json:", len(checks), "checks,", len(na), "not_applicable")


if __name__ == "__main__":
    main()
