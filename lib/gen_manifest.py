#!/usr/bin/env python3
"""Regenerates /verif/MANIFEST.json from the per-property table below (run after editing)."""
import json
import os
import subprocess

VERIF = os.path.dirname(os.path.dirname(os.path.abspath(__file__)))

K = "Kani 0.68 / CBMC 6.11 bounded model checking of the compiled crate code (symbolic inputs, CaDiCaL verdict, unwinding assertions on, kani::cover! vacuity witnesses, concrete-playback replay)"
M = "mirsym: symbolic execution of rustc MIR of the real functions into SMT (z3, cross-checked with cvc5), SQL text translated to SMT over a bounded symbolic lease table; one inductive step from an arbitrary table"

CLAIMS = {
    "C07": dict(
        technique="bounded model checking (Kani/CBMC) of the reply-source-address conversion only",
        text="Solver-decided for all 2^32 / 2^128 addresses: the address the kernel reported as the query's destination is, byte for byte, the address placed in the reply's IP_PKTINFO/IPV6_PKTINFO control message (std_to_libc_in_addr / in6_addr, RecvMsg::local_ip, ControlMessage::convert_to_cmsg). This is ONE mechanism of C07 (src(resp)=dst(q) on IPv4-only and IPv6 listeners).",
        note="NOT decided here: exactly-one-reply, matching of answers to questions under reordering/duplication/loss, retransmission and SERVFAIL-on-silence. Those are tokio concurrency over sockets; Kani does not model concurrency and the coroutine MIR is outside the MIR->SMT encoder. Trusted: Kani's model of libc structs, little-endian x86_64 target.",
        design="3/C07"),
    "C08": dict(
        technique="bounded model checking (Kani/CBMC) of prefix containment and ACL evaluation",
        text="Solver-decided over all addresses and prefix lengths (host bits free): Prefix4/Prefix6/Prefix::contains for v4, v6 and v4-mapped clients equals mask semantics on the written prefix; Acl::check / require_permission on rule lists of bounded concrete shape with symbolic contents: granted <=> first matching rule has the permission bit.",
        note="NOT decided: which permission each HTTP path asks for (hyper request types and a DhcpService holding sockets cannot be built under Kani), the async DNS ACL entry point under tokio locks. Rule lists bounded as stated per obligation.",
        design="3/C08"),
    "C16": dict(
        technique="bounded model checking (Kani/CBMC) of the token bucket with a symbolic clock, inductive potential-function step",
        text="Solver-decided: one charge attempt from an arbitrary reachable bucket state under an arbitrary non-decreasing clock never releases more than credit + rate*dt (telescopes to burst + rate*elapsed for histories of any length; cross-checked directly for 2-3 attempts); a source idle for the refill period is granted the minimum cost that should_ratelimit charges (constant extracted from the source on every run).",
        note="NOT decided: the two-bucket hashing in IpRateLimiter::check (async, tokio locks, SipHash), the check-then-deplete race under concurrent packets, and the whole cookie sub-claim (HMAC-SHA-256 is not something a SAT back end inverts). Clock values < B/R seconds and the year-2106 wrap are outside the bound.",
        design="3/C16"),
}

PENDING = {}

NOT_APPLICABLE = {
    "C18": "persistence across restart/upgrade/crash lives in SQLite's file format, journal and fsync behind FFI and the filesystem; neither Kani nor the MIR->SMT encoder executes it, and a model of SQLite durability would be an assumption rather than the code",
}

ALL = ["C%02d" % i for i in range(1, 21)]


def main():
    commits = subprocess.run(["git", "-C", "/repo", "log", "--format=%h %s", "004459e..HEAD"], text=True,
                             capture_output=True).stdout.splitlines()
    hook_commits = [c.split()[0] for c in commits if c.split(" ", 1)[1].startswith("verif hooks")]
    checks = []
    for pid in ALL:
        if pid not in CLAIMS:
            continue
        c = CLAIMS[pid]
        checks.append(dict(
            property_id=pid,
            quick_cmd=f"./check {pid} --tier quick",
            thorough_cmd=f"./check {pid} --tier thorough",
            evidence_file=f"/verif/evidence/{pid}.json",
            replay_cmd_template=f"./check {pid} --replay {{path}}",
            engine=c.get("engine", "kani"),
            level_claimed=dict(category="model_checking", text=c["text"], design_ref="DESIGN.md section " + c["design"]),
            level_note=c["note"],
            technique=c["technique"],
        ))
    na = []
    for pid in ALL:
        if pid in CLAIMS:
            continue
        reason = NOT_APPLICABLE.get(pid) or PENDING.get(pid) or "check not built yet in this round (planned, see DESIGN.md section 3)"
        na.append(dict(property_id=pid, reason=reason))
    man = dict(
        version=1,
        setup_cmd="./check --setup",
        hooks=dict(
            guard="cargo feature isomer_erbium_verif (erbium-core, erbium-net)",
            enable="cargo kani -p <crate> --features isomer_erbium_verif with ISOMER_ERBIUM_VERIF_DIR=/verif/kani: each source file ends in a cfg-guarded private module that include!s /verif/kani/<module>.rs, giving harnesses access to crate-private items; nothing is compiled with the feature off",
            baseline_off_cmd="cd /repo && cargo test --workspace --no-fail-fast --offline",
            source_commits=hook_commits,
            add_only=True,
        ),
        engines=[
            dict(name="kani", path="/verif/kani", serves_properties=sorted(p for p, c in CLAIMS.items() if c.get("engine", "kani") in ("kani", "kani+mirsym")),
                 kind_free_text=K),
            dict(name="mirsym", path="/verif/lib/mirsym", serves_properties=sorted(p for p, c in CLAIMS.items() if "mirsym" in c.get("engine", "")),
                 kind_free_text=M),
        ],
        checks=checks,
        not_applicable=na,
        notes="Exit codes of ./check: 0 = all obligations discharged (KNOWN-FINDING lines for findings listed in known_findings.json), 1 = VIOLATION (replayed natively), 2 = inconclusive (timeout, memory, bound, vacuity, unsupported construct, build error). Scratch build output lives in /verif/.work (git-ignored).",
    )
    with open(os.path.join(VERIF, "MANIFEST.json"), "w") as f:
        json.dump(man, f, indent=1)
    print("wrote MANIFEST.json:", len(checks), "checks,", len(na), "not_applicable")


if __name__ == "__main__":
    main()
