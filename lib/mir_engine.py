"""Engine M glue: dump MIR of /repo's current tree, run the mirsym obligations of a property, shape the results for
the runner (/verif/check)."""
import glob
import hashlib
import json
import os
import re
import shutil
import subprocess
import time

import common
from common import REPO, WORK

SUFFIX = os.environ.get("VERIF_KANI_TARGET_SUFFIX", "")
MIR_DIR = os.path.join(WORK, "mir" + SUFFIX)
POOL_PROPS = {"C01", "C02", "C09", "C10", "C13", "C20"}
MIR_PROPS = POOL_PROPS | {"C06", "C15", "C08", "C03", "C04", "C14", "C05", "C11", "C19", "C17", "C12", "C16"}


def source_hash():
    h = hashlib.sha256()
    import lift
    for path in sorted(glob.glob(os.path.join(REPO, "crates", "*", "src", "**", "*.rs"), recursive=True) +
                       glob.glob(os.path.join(REPO, "crates", "*", "Cargo.toml")) + [os.path.join(REPO, "Cargo.lock")] +
                       glob.glob(os.path.join(common.KANI_DIR, "*.rs")) + glob.glob(os.path.join(lift.GEN_DIR, "*.rs"))):
        h.update(path.encode())
        h.update(open(path, "rb").read())
    return h.hexdigest()[:16]


def dump_mir(force=False):
    """textual MIR of erbium-core (dev profile semantics: overflow checks on), regenerated when the source changed"""
    os.makedirs(MIR_DIR, exist_ok=True)
    import fcntl
    lockf = open(os.path.join(MIR_DIR, ".lock"), "w")
    fcntl.flock(lockf, fcntl.LOCK_EX)      # one dump at a time (concurrent checks share the cache); released when the process ends
    common.extract_env()      # regenerates the lifted sources first
    key = source_hash()
    out = os.path.join(MIR_DIR, f"core-{key}.mir")
    if os.path.exists(out) and os.path.getsize(out) > 100000 and not force:
        return out, 0.0, True
    for old in glob.glob(os.path.join(MIR_DIR, "core-*.mir")):
        if time.time() - os.path.getmtime(old) > 3600:      # keep recent dumps: another check may be about to read one
            os.remove(old)
    tdir = os.path.join(WORK, "mir-target" + SUFFIX)
    for fp in glob.glob(os.path.join(tdir, "debug", ".fingerprint", "erbium-core-*")):
        shutil.rmtree(fp, ignore_errors=True)
    env = dict(os.environ)
    env.update({k: v for k, v in common.extract_env().items() if not k.endswith("_ERR") and not k.startswith("_")})
    env.setdefault("VERIF_C16_MIN_COST", "0")
    env["ISOMER_ERBIUM_VERIF_DIR"] = common.KANI_DIR
    env["CARGO_NET_OFFLINE"] = "true"
    env["CARGO_TARGET_DIR"] = tdir
    env.pop("RUSTUP_TOOLCHAIN", None)
    # feature on + cfg isomer_erbium_mir: the dump also contains the lifted synchronous copies of async-inline logic
    cmd = ["cargo", "+nightly", "rustc", "--offline", "-p", "erbium-core", "--lib", "--features", "isomer_erbium_verif", "--",
           "--cfg", "isomer_erbium_mir", "-Zunpretty=mir", "-C", "debug-assertions=off", "-C", "overflow-checks=on"]
    t0 = time.time()
    with open(out + ".tmp", "w") as f, open(os.path.join(MIR_DIR, "dump.log"), "w") as log:
        p = subprocess.run(cmd, cwd=REPO, env=env, stdout=f, stderr=log, timeout=1800)
    if p.returncode != 0 or os.path.getsize(out + ".tmp") < 100000:
        raise RuntimeError("MIR dump failed: see " + os.path.join(MIR_DIR, "dump.log"))
    # erbium-net (Ipv4Subnet arithmetic used by the DHCP policy code): appended to the same dump
    for fp in glob.glob(os.path.join(tdir, "debug", ".fingerprint", "erbium-net-*")):
        shutil.rmtree(fp, ignore_errors=True)
    cmd2 = ["cargo", "+nightly", "rustc", "--offline", "-p", "erbium-net", "--lib", "--", "-Zunpretty=mir",
            "-C", "debug-assertions=off", "-C", "overflow-checks=on"]
    with open(out + ".tmp", "a") as f, open(os.path.join(MIR_DIR, "dump-net.log"), "w") as log:
        f.write("\n// ---- erbium-net ----\n")
        f.flush()
        p = subprocess.run(cmd2, cwd=REPO, env=env, stdout=f, stderr=log, timeout=1800)
    if p.returncode != 0:
        raise RuntimeError("MIR dump of erbium-net failed: see " + os.path.join(MIR_DIR, "dump-net.log"))
    os.rename(out + ".tmp", out)
    return out, time.time() - t0, False


def setup():
    try:
        path, t, cached = dump_mir()
        print(f"setup mirsym: MIR dump {'cached' if cached else 'built in %.0fs' % t}: {path}")
    except Exception as e:  # noqa
        print("setup mirsym: MIR dump failed:", e)
        return 1
    return 0


def _load():
    from mirsym import mirparse, enums
    path, t, cached = dump_mir()
    text = open(path).read()
    prog = mirparse.Program(text)
    prog.text = text
    en = enums.scan(REPO)
    return prog, en, path, t


def run_jobs(jobs, workers=None):
    """jobs: list of (name, thunk) where thunk() -> obligation dict (JSON-able). Runs them in forked worker processes."""
    import multiprocessing as mp
    import traceback
    workers = workers or min(8, max(1, len(jobs)))
    if len(jobs) <= 1 or os.environ.get("VERIF_MIR_SERIAL"):
        return [t() for _, t in jobs]
    ctx = mp.get_context("fork")
    q = ctx.Queue()

    def work(i, thunk):
        try:
            q.put((i, thunk()))
        except Exception as e:  # noqa
            q.put((i, dict(name=jobs[i][0], engine="mirsym", functions=[], bounds="", oracle="", stubs=[], tier="",
                           verdict="inconclusive", reason="worker crashed: %s %s" % (e, traceback.format_exc()[-300:]),
                           queries=0, solver_time_s=0, failed=[])))
    results = [None] * len(jobs)
    pending = list(range(len(jobs)))
    running = {}
    done = 0
    while done < len(jobs):
        while pending and len(running) < workers:
            i = pending.pop(0)
            pr = ctx.Process(target=work, args=(i, jobs[i][1]))
            pr.start()
            running[i] = pr
        i, res = q.get()
        results[i] = res
        running.pop(i).join()
        done += 1
    return results


def fmt_ip(v):
    return "%d.%d.%d.%d" % ((v >> 24) & 255, (v >> 16) & 255, (v >> 8) & 255, v & 255)


# obligations of one property that also decide part of another: (source property, obligation-name prefix, claim filter or None)
INCLUDE = {
    # "TTLs only ever reduced by the time the reply spent in the cache" + "parse / re-serialise with name compression" (C03's anchors)
    "C03": [("C06", "c06_cache_lookup", None), ("C14", "c14_roundtrip", None)],
    # "every response parses as a DNS message": the encoder's output is accepted by the decoder and by the reference decoder
    # "id-mismatched or truncated UDP replies retried over TCP" (C07's anchor) is the same lifted decision
    "C07": [("C03", "c03_upstream_reply_accepted_by_id", None)],
    # re-encoding what was decoded must not crash either: the encoder side of the codec layouts
    "C05": [("C14", "c14_roundtrip", ("encoding then decoding never panics",))],
    "C04": [("C14", "c14_roundtrip", ("encoding then decoding never panics", "the decoder accepts what the encoder produced", "independent RFC 1035 decoder"))],
    # YAML -> Interface: null suppresses, values recorded as configured (the loader half of "exactly the configured values")
    "C17": [("C19", "c19_radv_interface", ("`", "a configured", "an absent", "dns-search lifetime", "dns-servers lifetime", "an accepted hop-limit", "managed flag", "other flag", "reachable is", "retransmit is"))],
    # apply-range / apply-subnet / apply-address expand to exactly the documented address set
    # the suffix lists the router selects from are what the loader produced from the file (C15's order independence starts there)
    "C15": [("C19", "c19_dns_route", None)],
    # "an accepted configuration never makes a request handler panic": the per-request expansion of `addresses` prefixes
    "C19": [("C02", "c02_default_policy", ("building the default policy for an accepted",))],
    "C02": [("C11", "c11_policy", ("a policy list applies exactly", "address pool =")), ("C19", "c19_dhcp_policy", ("apply-range hands out", "apply-subnet hands out", "apply-address hands out", "a policy with apply-range"))],
}


def run_property(pid, tier, seed, logdir):
    os.environ.setdefault("VERIF_MIR_EXPLORE_S", "240" if tier == "quick" else "1800")
    os.environ.setdefault("VERIF_Z3_TIMEOUT_MS", "60000" if tier == "quick" else "300000")
    obligations = _run_property(pid, tier, seed, logdir)
    for src, prefix, only in INCLUDE.get(pid, []):
        for o in _run_property(src, tier, seed, logdir):
            if not o["name"].startswith(prefix):
                continue
            o = dict(o)
            o["name"] = pid.lower() + o["name"][len(src):]
            o["shared_with"] = src
            failed = []
            for f in o.get("failed", []):
                if only is None or f["description"].startswith(only):
                    f = dict(f)
                    f["check"] = o["name"]
                    failed.append(f)
            o["failed"] = failed
            if o["verdict"] == "fail" and not failed:
                o["verdict"] = "pass"
            obligations.append(o)
    return obligations


def _run_property(pid, tier, seed, logdir):
    if pid not in MIR_PROPS:
        return []
    from mirsym import props_pool
    from mirsym.values import Unsupported
    from mirsym.interp import Unwind
    obligations = []
    t_load = time.time()
    try:
        prog, en, mir_path, dump_s = _load()
    except Exception as e:  # noqa
        return [dict(name=f"{pid.lower()}_mir_dump", engine="mirsym", functions=[], bounds="", oracle="", stubs=[], tier=tier,
                     verdict="inconclusive", reason=f"MIR dump failed: {e}", queries=0, solver_time_s=0, failed=[])]
    common_stubs = ["summaries (externals abstracted by their documented contract) - the ones used are listed per obligation",
                    "SQLite executes each statement successfully; semantics of the statement = SQL->SMT translation of the SQL text found at the call site",
                    "SystemTime::now: arbitrary non-decreasing seconds, below 2^32 - 4 days (year-2106 wrap of `as u32` outside the claim)",
                    "lease table: arbitrary rows satisfying PRIMARY KEY(address), 0 <= start <= expiry < 2^32; TEXT address column holds canonical dotted quads (ToString/parse are mutually inverse)",
                    "client identifier / raw options: opaque blobs compared only by equality",
                    "calculate_hash abstracted; sort_unstable over the hashed order = any permutation"]
    if pid == "C06":
        from mirsym import props_cache, enums as _en
        structs = _en.scan_structs(REPO)
        shapes = [(1, 0, 0), (0, 1, 0), (0, 0, 1), (1, 1, 1), (0, 0, 0)] if tier == "quick" else \
                 [(1, 0, 0), (0, 1, 0), (0, 0, 1), (1, 1, 1), (0, 0, 0), (2, 0, 1), (1, 2, 0), (2, 1, 1)]
        for shape in shapes:
            name = "c06_cache_lookup_sections_%d_%d_%d" % shape
            t0 = time.time()
            try:
                failed, ex, npaths, kinds = props_cache.obligation(prog, en, structs, shape)
                for f in failed:
                    f["check"] = name
                    f["counterexample"]["shape"] = list(shape)
                obligations.append(dict(
                    name=name, engine="mirsym", functions=sorted(f.split("::")[-1] for f in ex.encoded_fns),
                    bounds="cached reply with %d answer + %d authority + %d additional records (all TTLs symbolic over 0..2^32-1), one stored entry, stored and looked-up key symbolic in all four fields, birth and lookup instants symbolic (monotonic clock), lifetime computed by the real calculate_expiry" % shape,
                    oracle="lifetime = min TTL; hit only for an identical key and only while elapsed <= min TTL; every served TTL = original - whole seconds elapsed, nothing else changes; an unexpired identical entry is served; no arithmetic panic",
                    stubs=["HashMap::get = lookup over the bounded entry list using the crate's own derived CacheKey::eq", "Domain names abstracted to identities (equality only)",
                           "tokio Instant/Duration arithmetic summarised (seconds + nanoseconds with carry, Instant - Instant saturating)",
                           "logging disabled, prometheus counters no-ops", "derived Clone = structural copy"] + sorted(ex.used_summaries),
                    tier=tier, **_vr(failed, ex), queries=ex.queries, solver_time_s=round(ex.solver_time, 2),
                    failed=_dedup(failed), paths=npaths, path_kinds=kinds, wall_s=round(time.time() - t0, 1)))
            except Exception as e:  # noqa: anything the executor cannot handle is undecided, never a verdict
                obligations.append(dict(name=name, engine="mirsym", functions=[], bounds="", oracle="", stubs=[], tier=tier,
                                        verdict="inconclusive", reason=f"outside the encoder's subset: {e}", queries=0, solver_time_s=0, failed=[]))
        # the async wrapper (lifted): key construction, class gate, insert condition
        from mirsym import props_lifted
        t0 = time.time()
        try:
            failed, ex, npaths, kinds = props_lifted.cache_wrapper_obligation(prog, en, structs)
            for f in failed:
                f["check"] = "c06_cache_wrapper_key_and_gate"
            obligations.append(dict(name="c06_cache_wrapper_key_and_gate", engine="mirsym", functions=sorted(f.split("::")[-1] for f in ex.encoded_fns),
                                    bounds="CacheHandler::handle_query (async body lifted verbatim) for every query: name identity, type, class, DO, CD symbolic; cache lookup outcome hit/miss; upstream lifetime symbolic",
                                    oracle="only class IN consults the cache; lookup and insert keys = (name, type, DO, CD) of the query; hit => upstream not asked; miss => asked once; stored only with positive lifetime",
                                    stubs=["async body lifted verbatim (lib/lift.py)", "get_entry / calculate_expiry / insert_cache_entry / next handler / locks = summaries (decided separately by c06_cache_lookup_*)"] + sorted(ex.used_summaries),
                                    tier=tier, **_vr(failed, ex), queries=ex.queries, solver_time_s=round(ex.solver_time, 2),
                                    failed=_dedup(failed), paths=npaths, path_kinds=kinds, wall_s=round(time.time() - t0, 1)))
        except Exception as e:  # noqa: anything the executor cannot handle is undecided, never a verdict
            obligations.append(dict(name="c06_cache_wrapper_key_and_gate", engine="mirsym", functions=[], bounds="", oracle="", stubs=[], tier=tier,
                                    verdict="inconclusive", reason=f"outside the encoder's subset: {e}", queries=0, solver_time_s=0, failed=[]))
        return obligations
    if pid == "C16":
        from mirsym import props_cookie, enums as _en
        structs = _en.scan_structs(REPO)
        jobs = []
        kstubs = ["HMAC-SHA-256 = uninterpreted function of (key, message): which key and which octets enter the MAC is decided, the MAC itself is not executed; that distinct inputs give distinct MACs is the cryptographic assumption the property rests on",
                  "system random generator = fresh arbitrary octets per call; clock / refresh time not modelled",
                  "NetAddr::ip() = the client address of the message"]

        def kjob(name, thunk, bounds, oracle):
            def job():
                t0 = time.time()
                try:
                    failed, ex, npaths, kinds = thunk()
                    for f in failed:
                        f["check"] = name
                    return dict(name=name, engine="mirsym", functions=sorted(f.split("::")[-1] for f in ex.encoded_fns), bounds=bounds, oracle=oracle, stubs=kstubs + sorted(ex.used_summaries),
                                tier=tier, **_vr(failed, ex), queries=ex.queries, solver_time_s=round(ex.solver_time, 2), failed=_dedup(failed), paths=npaths,
                                path_kinds={str(k): v for k, v in kinds.items()}, wall_s=round(time.time() - t0, 1))
                except Exception as e:  # noqa: anything the executor cannot handle is undecided, never a verdict
                    return dict(name=name, engine="mirsym", functions=[], bounds=bounds, oracle=oracle, stubs=kstubs, tier=tier, verdict="inconclusive",
                                reason=f"outside the encoder's subset: {e}", queries=0, solver_time_s=0, failed=[])
            return (name, job)
        jobs.append(kjob("c16_cookie_key_set_is_two_random_keys", (lambda: props_cookie.keys_obligation(prog, en, structs)), "CookieKeys::new + rotate from MIR",
                         "a fresh key set holds two independently drawn random keys (previous drawn before current), never the all-zero default"))
        cases = [(False, False, 32), (True, True, 32), (True, False, 32), (False, False, None), (False, False, -1), (False, False, 8), (False, False, 16)]
        if tier == "thorough":
            cases += [(False, True, 32), (False, False, 31), (False, False, 24), (True, True, 8)]
        for l6, r6, sl in cases:
            name = "c16_cookie_validation_%s_%s_%s" % ("v6" if l6 else "v4", "v6" if r6 else "v4", "no_option" if sl == -1 else "client_only" if sl is None else "server%d" % sl)
            jobs.append(kjob(name, (lambda l6=l6, r6=r6, sl=sl: props_cookie.validate_obligation(prog, en, structs, l6, r6, sl)),
                             "DnsMessage::validate_cookie_keys + validate_cookie_key + calculate_cookie + EdnsData::get_cookie from MIR: server address IPv%d, client address IPv%d, %s; both keys, the client cookie, the server cookie and both addresses symbolic"
                             % (6 if l6 else 4, 6 if r6 else 4, "no COOKIE option" if sl == -1 else "client cookie only" if sl is None else "server cookie of %d octets" % sl),
                             "the verdict is Good exactly when the server cookie equals HMAC(current key, client cookie || server address || client address) or the same under the previous key; never Good without a 32-octet server cookie"))
        obligations.extend(run_jobs(jobs))
        return obligations
    if pid == "C12":
        from mirsym import props_dhcpwire, enums as _en
        structs = _en.scan_structs(REPO)
        jobs = []
        for sh in props_dhcpwire.shapes(tier):
            def job(sh=sh):
                t0 = time.time()
                name = "c12_message_roundtrip_" + sh.name
                bounds = ("Dhcp::serialise then dhcppkt::parse from MIR on a message with hardware-address length %d, sname %d / file %d NUL-free octets and the options (code, value length) %s: "
                          "every header field, address and option octet symbolic (values longer than 48 octets: first and last 3 octets symbolic, the rest a fixed pattern)" % (sh.hlen, sh.sname, sh.file, sh.options))
                oracle = ("decode(encode(m)) = m field by field and option by option; the octets in between read per RFC 2131 figure 1 (offsets, network byte order, zero padding, magic cookie) and "
                          "RFC 2132 / RFC 3396 (code, one-octet length, value; > 255 octets split in order; empty value = one empty instance; end option last)")
                try:
                    failed, ex, npaths, kinds = props_dhcpwire.obligation(prog, en, structs, sh)
                    for f in failed:
                        f["check"] = name
                    return dict(name=name, engine="mirsym", functions=sorted(f.split("::")[-1] for f in ex.encoded_fns), bounds=bounds, oracle=oracle,
                                stubs=["option table (HashMap<DhcpOption, Vec<u8>>) = map with concrete option codes, iterated in insertion order (the reference decoder accepts any order)",
                                       "HashMap::entry(..).or_default() = get-or-insert on that map"] + sorted(ex.used_summaries),
                                tier=tier, **_vr(failed, ex), queries=ex.queries, solver_time_s=round(ex.solver_time, 2), failed=_dedup(failed), paths=npaths,
                                path_kinds={str(k): v for k, v in kinds.items()}, wall_s=round(time.time() - t0, 1))
                except Exception as e:  # noqa: anything the executor cannot handle is undecided, never a verdict
                    return dict(name=name, engine="mirsym", functions=[], bounds=bounds, oracle=oracle, stubs=[], tier=tier, verdict="inconclusive",
                                reason=f"outside the encoder's subset: {e}", queries=0, solver_time_s=0, failed=[])
            jobs.append(("c12_message_roundtrip_" + sh.name, job))
        obligations.extend(run_jobs(jobs))
        return obligations
    if pid == "C17":
        from mirsym import props_radv, enums as _en
        structs = _en.scan_structs(REPO)
        jobs = []
        for sh in props_radv.shapes(tier):
            def job(sh=sh):
                t0 = time.time()
                name = "c17_ra_" + sh.name
                bounds = ("RaAdvService::build_announcement_pure + icmppkt::serialise_router_advertisement from MIR for the interface shape '%s' (link-layer address %s, MTU %s, %d prefixes, "
                          "interface dns-servers %s, top-level dns-servers %s, interface dns-search %s, top-level dns-search %s, NAT64 prefix length %s, captive portal %s / top level %s, lifetime %s): "
                          "hop limit, flags, every lifetime/timer over 0..2^64-1 s, prefix bits, prefix lengths 0..=128, L/A flags, addresses, MTU, link-layer address symbolic; domain and URL text concrete"
                          % (sh.name, sh.ll, sh.mtu, sh.prefixes, sh.rdnss, sh.rdnss_top, sh.dnssl, sh.dnssl_top, sh.pref64, sh.portal, sh.portal_top, sh.lifetime))
                oracle = "decoder written from RFC 4861 4.2/4.6, RFC 8106 5, RFC 8781 4, RFC 8910 2.3 applied to the produced octets == the configured values (clamped where a field cannot hold them); lengths multiples of 8; reserved fields and prefix bits beyond the length zero; exactly the configured options"
                try:
                    failed, ex, npaths, kinds = props_radv.obligation(prog, en, structs, sh)
                    for f in failed:
                        f["check"] = name
                    return dict(name=name, engine="mirsym", functions=sorted(f.split("::")[-1] for f in ex.encoded_fns), bounds=bounds, oracle=oracle,
                                stubs=["Ipv6Addr = 128-bit value (octets / from / eq summarised)", "T::try_from(x).unwrap_or(d) = if x fits then x else d (one value, no fork)",
                                       "domain and URL strings concrete (str::split, len, as_bytes on concrete text)"] + sorted(ex.used_summaries),
                                tier=tier, **_vr(failed, ex), queries=ex.queries, solver_time_s=round(ex.solver_time, 2), failed=_dedup(failed), paths=npaths,
                                path_kinds={str(k): v for k, v in kinds.items()}, wall_s=round(time.time() - t0, 1))
                except Exception as e:  # noqa: anything the executor cannot handle is undecided, never a verdict
                    return dict(name=name, engine="mirsym", functions=[], bounds=bounds, oracle=oracle, stubs=[], tier=tier, verdict="inconclusive",
                                reason=f"outside the encoder's subset: {e}", queries=0, solver_time_s=0, failed=[])
            jobs.append(("c17_ra_" + sh.name, job))
        obligations.extend(run_jobs(jobs))
        return obligations
    if pid == "C19":
        from mirsym import props_config, enums as _en
        structs = _en.scan_structs(REPO)
        jobs = []
        cstubs = ["yaml_rust::Yaml values built directly (the YAML text scanner of the yaml-rust crate is not executed); LinkedHashMap = ordered list of (key, value); variant order read from the crate source",
                  "integers = arbitrary i64; addresses = canonical dotted-quad text of an arbitrary 32-bit value (str::parse and ToString mutually inverse), prefixes = such text + '/<concrete length>'",
                  "format! / error texts = constant text; Duration * u32 and / u32 as in std (overflow = panic)"]

        def cjob(name, thunk, bounds, oracle):
            def job():
                t0 = time.time()
                try:
                    failed, ex, npaths, kinds = thunk()
                    for f in failed:
                        f["check"] = name
                    return dict(name=name, engine="mirsym", functions=sorted(f.split("::")[-1] for f in ex.encoded_fns), bounds=bounds, oracle=oracle,
                                stubs=cstubs + sorted(ex.used_summaries), tier=tier, **_vr(failed, ex), queries=ex.queries, solver_time_s=round(ex.solver_time, 2),
                                failed=_dedup(failed), paths=npaths, path_kinds={str(k): v for k, v in kinds.items()}, wall_s=round(time.time() - t0, 1))
                except Exception as e:  # noqa: anything the executor cannot handle is undecided, never a verdict
                    return dict(name=name, engine="mirsym", functions=[], bounds=bounds, oracle=oracle, stubs=cstubs, tier=tier, verdict="inconclusive",
                                reason=f"outside the encoder's subset: {e}", queries=0, solver_time_s=0, failed=[])
            return (name, job)
        for sname, keys, nulls in props_config.interface_shapes(tier):
            jobs.append(cjob("c19_radv_interface_" + sname, (lambda keys=keys, nulls=nulls: props_config.interface_obligation(prog, en, structs, keys, nulls)),
                             "radv::config::parse_interface (+ parse_duration, parse_num, parse_boolean, parse_dnssl, parse_rdnss, parse_array, parse_pref64, ConfigValue::from_option) from MIR on an interface "
                             "section with the keys %s in this order (null: %s); every integer value symbolic over all of i64, booleans symbolic" % (keys, list(nulls)),
                             "Ok or Err, never a panic/overflow; accepted intervals within their documented bounds (max 4..=1800 s, min >= 3 s, min <= 3/4 max); null => 'do not send', value => recorded as configured, absent => not specified"))
        spans = [("range", 3), ("range_rev", 2), ("address", 0), ("subnet", 30), ("subnet", 31), ("subnet", 32), ("subnet", 33), ("routes", 24), ("routes", -1), ("routes", 40), ("routes", 0)]
        if tier == "thorough":
            spans += [("range", 8), ("subnet", 28), ("subnet", 29), ("subnet", 40)]
        for kind, span in spans:
            jobs.append(cjob("c19_dhcp_policy_%s_%s" % (kind, span if span >= 0 else "none"), (lambda kind=kind, span=span: props_config.policy_obligation(prog, en, structs, kind, span)),
                             "dhcp::config::Config::parse_policy (+ parse_subnet, parse_string_ip4, str_ip*) from MIR on a policy with %s; addresses symbolic over all 2^32 values" % (
                                 {"range": "apply-range {start, end} with end - start <= %d (end = 255.255.255.255 included)" % span, "range_rev": "apply-range {end, start} with end - start <= %d" % span,
                                  "address": "apply-address", "subnet": "apply-subnet <any address>/%d" % span,
                                  "routes": "apply-routes [{prefix: <any address>%s, next-hop: <any address>}]" % ("/%d" % span if span >= 0 else " (no /length)")}[kind]),
                             "Ok or Err, never a panic/overflow; apply-range = [start, end] both ends included; apply-subnet = every address strictly between network and broadcast; prefix lengths > 32 refused"))
        for i, (sfx, kind) in enumerate(props_config.dns_route_cases(tier)):
            jobs.append(cjob("c19_dns_route_suffixes_%d" % i, (lambda sfx=sfx, kind=kind: props_config.dns_route_obligation(prog, en, structs, sfx, kind)),
                             "dns::config::parse_dns_route (+ parse_array, parse_string, Domain::from_str) from MIR on {domain-suffixes: %s, type: %s} (concrete text)" % (sfx, kind),
                             "Ok(route) listing exactly the written suffixes in the written order, label by label, with the written type; never a panic"))
        by_parser = {}
        for fname, fam, plen in props_config.prefix_string_cases(tier):
            by_parser.setdefault((fname, fam), []).append(plen)
        for (fname, fam), lens in by_parser.items():
            def pthunk(fname=fname, fam=fam, lens=lens):
                allf, exs, paths, kinds_ = [], None, 0, {}
                for plen in lens:
                    f, ex, np_, kd = props_config.prefix_string_obligation(prog, en, structs, fname, fam, plen)
                    allf += f
                    paths += np_
                    for kk, vv in kd.items():
                        kinds_["/%d %s" % (plen, kk)] = vv
                    if exs is None:
                        exs = ex
                    else:
                        exs.queries += ex.queries
                        exs.solver_time += ex.solver_time
                        exs.encoded_fns |= ex.encoded_fns
                        exs.used_summaries |= ex.used_summaries
                        exs.undecided_paths = getattr(exs, "undecided_paths", []) + getattr(ex, "undecided_paths", [])
                return allf, exs, paths, kinds_
            jobs.append(cjob("c19_prefix_string_%s_v%d" % (fname, fam), pthunk,
                             "config::%s from MIR on the text '<address>/<length>' with lengths %s: %s" % (
                                 fname, lens, "IPv4 address symbolic over all 2^32 values" if fam == 4 else "IPv6 address one of three concrete texts (2001:db8::, ::ffff:192.0.2.0, ::)"),
                             "Ok(prefix) only for lengths the address family allows (IPv4 <= 32, IPv6 <= 128) and of the parser's family, carrying the written address and length; otherwise InvalidConfig; never a panic"))
        obligations.extend(run_jobs(jobs))
        return obligations
    if pid == "C11":
        from mirsym import props_policy, enums as _en
        structs = _en.scan_structs(REPO)
        jobs = []
        for shp in props_policy.shapes(tier):
            name, mk, pl, ro = shp[:4]
            hl = shp[4] if len(shp) > 4 else 6

            def job(name=name, mk=mk, pl=pl, ro=ro, hl=hl):
                t0 = time.time()
                oname = "c11_policy_" + name
                bounds = ("apply_policies on the policy tree shape '%s' (which conditions / applications / sub-policies exist is concrete; hardware addresses, subnet addresses, option values, "
                          "the request's hardware address, receiving address and option values are symbolic), parameter request list %s, request options %s" % (name, pl, sorted(ro)))
                oracle = props_policy.__doc__.split("erbium.conf(5):")[1].strip()
                try:
                    failed, ex, npaths, kinds = props_policy.obligation(prog, en, structs, mk, pl, ro, hl)
                    for f in failed:
                        f["check"] = oname
                    return dict(name=oname, engine="mirsym", functions=sorted(f.split("::")[-1] for f in ex.encoded_fns), bounds=bounds, oracle=oracle,
                                stubs=["option values = opaque 4-octet byte strings (DhcpOptionTypeValue::Unknown; as_bytes executed from MIR)", "option tables (HashMap<DhcpOption, _>) = maps with concrete option codes",
                                       "parameter request list = concrete list of codes", "logging disabled"] + sorted(ex.used_summaries),
                                tier=tier, **_vr(failed, ex), queries=ex.queries, solver_time_s=round(ex.solver_time, 2), failed=_dedup(failed),
                                paths=npaths, path_kinds=kinds, wall_s=round(time.time() - t0, 1))
                except Exception as e:  # noqa: anything the executor cannot handle is undecided, never a verdict
                    return dict(name=oname, engine="mirsym", functions=[], bounds=bounds, oracle=oracle, stubs=[], tier=tier, verdict="inconclusive",
                                reason=f"outside the encoder's subset: {e}", queries=0, solver_time_s=0, failed=[])
            jobs.append(("c11_policy_" + name, job))
        obligations.extend(run_jobs(jobs))
        # falls through to the handler obligations below (order in which handle_discover / handle_request apply the two policy lists)
    if pid in ("C04", "C14", "C05"):
        from mirsym import props_dns, enums as _en
        structs = _en.scan_structs(REPO)
        codec_stubs = ["byte vectors, linked lists and iterators summarised as concrete-length sequences of symbolic octets (list in evidence)",
                       "derived Clone = structural copy", "error-message formatting = constant text"]
        jobs = []

        def wrap(name, thunk, bounds, oracle):
            def job():
                t0 = time.time()
                try:
                    failed, ex, npaths, kinds = thunk()
                    for f in failed:
                        f["check"] = name
                    return dict(name=name, engine="mirsym", functions=sorted(f.split("::")[-1] for f in ex.encoded_fns), bounds=bounds, oracle=oracle,
                                stubs=codec_stubs + sorted(ex.used_summaries), tier=tier, **_vr(failed, ex), queries=ex.queries,
                                solver_time_s=round(ex.solver_time, 2), failed=_dedup(failed), paths=npaths, path_kinds={str(k): v for k, v in kinds.items()},
                                wall_s=round(time.time() - t0, 1))
                except Exception as e:  # noqa: anything the executor cannot handle is undecided, never a verdict
                    return dict(name=name, engine="mirsym", functions=[], bounds=bounds, oracle=oracle, stubs=codec_stubs, tier=tier, verdict="inconclusive",
                                reason=f"outside the encoder's subset: {e}", queries=0, solver_time_s=0, failed=[])
            return (name, job)
        if pid == "C05":
            kinds = ["plain", "opt", "cookie0", "cookie7", "cookie8", "cookie24", "ede1", "answer_ptr", "ptr_self", "ptr_past_end", "count_lies"]
            for k in kinds:
                jobs.append(wrap("c05_dns_decode_encode_" + k, (lambda k=k: props_dns.decode_encode_obligation(prog, en, structs, k)),
                                 "PktParser::get_dns on the DNS message skeleton '%s' (counts, label lengths, pointers, option lengths concrete; ids, flags, name octets, TTLs, OPT class/extended-rcode/version/flags, option payloads symbolic), then get_cookie / get_extended_dns_error on its EDNS options and DNSPkt::serialise of the decoded message" % k,
                                 "Ok or Err from the decoder, and no panic (overflow, bounds, unwrap, assert) anywhere in decode, option access or re-encode"))

            def cuts(k):
                n = len(props_dns.skeleton(k))
                allf, exs, paths, kinds_ = [], None, 0, {}
                for cut in range(n):
                    f, ex, np_, kd = props_dns.decode_encode_obligation(prog, en, structs, k, cut)
                    allf += f
                    paths += np_
                    for kk, vv in kd.items():
                        kinds_[kk] = kinds_.get(kk, 0) + vv
                    if exs is None:
                        exs = ex
                    else:
                        exs.queries += ex.queries
                        exs.solver_time += ex.solver_time
                        exs.encoded_fns |= ex.encoded_fns
                        exs.used_summaries |= ex.used_summaries
                return allf, exs, paths, kinds_
            for k in (["opt", "answer_ptr"] if tier == "quick" else ["opt", "answer_ptr", "cookie8", "count_lies"]):
                jobs.append(wrap("c05_dns_truncations_of_" + k, (lambda k=k: cuts(k)),
                                 "every truncation point 0..len-1 of the skeleton '%s' (contents symbolic)" % k, "decoder returns Err or Ok, never panics"))
        elif pid == "C04":
            shapes = [(((200, 200, 200), (), ()), False, False), (((300,), (300,), (4,)), True, False), (((), (250, 250), (40,)), True, False),
                      (((100,), (), ()), False, True), (((500,), (), ()), True, False)]
            if tier == "thorough":
                shapes += [(((120, 120, 120, 120, 120), (), ()), True, False), (((0, 0, 490), (1,), (2,)), True, False), (((255, 255), (255,), (255,)), False, False),
                           (((600,), (600,), (600,)), True, False)]
            for i, (shape, ed, sf) in enumerate(shapes):
                jobs.append(wrap("c04_size_limit_shape%d" % i, (lambda shape=shape, ed=ed, sf=sf: props_dns.size_obligation(prog, en, structs, shape, ed, sf)),
                                 "DNSPkt::serialise_with_size on a message with answer/authority/additional rdata lengths %s (root owner names, 3-octet question label), %s OPT record, size limit symbolic over 512..65535, ids/TTLs/types/rcode symbolic%s" % (shape, "with" if ed else "without", ", all header flags symbolic" if sf else ""),
                                 "independent structural oracle: output length <= limit; whole records dropped from the end only; header counts = records present; TC set exactly when a record was dropped; length = header + question + kept records; id/flag octets"))
            # the limit each transport applies (dns/mod.rs run_udp / run_tcp), measured against the property's limit
            tshapes = [(((200, 200, 200), (), ()), False), (((300,), (300,), (4,)), True), (((500,), (), ()), True), (((40,), (), ()), False)]
            if tier == "thorough":
                tshapes += [(((120, 120, 120, 120, 120), (), ()), True), (((255, 255), (255,), (255,)), False), (((1300,), (), ()), True)]
            for via in ("udp", "tcp"):
                for i, (shape, ed) in enumerate(tshapes):
                    jobs.append(wrap("c04_%s_limit_shape%d" % (via, i), (lambda shape=shape, ed=ed, via=via: props_dns.size_obligation(prog, en, structs, shape, ed, False, via)),
                                     "the octets run_%s sends for a reply with answer/authority/additional rdata lengths %s, %s OPT record, to a query advertising any payload size 0..65535: the initialiser of the "
                                     "sent buffer is lifted verbatim from run_%s (lib/lift.py) and executed from MIR together with prepare_to_send / serialise_with_size" % (via, shape, "with" if ed else "without", via),
                                     ("UDP: length <= max(512, advertised size); " if via == "udp" else "TCP: length <= 65535 and complete (no record dropped, TC clear) whenever the whole reply fits in 65535 octets; ") +
                                     "whole records dropped from the end only, header counts = records present, TC set exactly when a record was dropped"))
        else:
            L = lambda *x: tuple(x)  # noqa
            layouts = [
                (L(("x", 2)), [(0, L(("x", 2)), 4)], False, True),
                (L(("a", 1), ("b", 2)), [(0, L(("b", 2)), 3), (1, L(("c", 1), ("b", 2)), 0), (2, L(), 2)], True, False),
                (L(("a", 1), ("b", 1)), [(0, L(("a", 1), ("b", 1)), 1), (0, L(("d", 1), ("a", 1), ("b", 1)), 1)], False, False),
                (L(), [(0, L(("p", 1)), 2), (0, L(("q", 1)), 2)], True, False),
            ]
            layouts += [
                (L(("a", 1)), [(0, L(), 16400), (0, L(("n", 1), ("m", 1)), 1), (0, L(("n", 1), ("m", 1)), 1)], False, False),
                (L(("a", 1)), [(0, L(), 16360), (0, L(("n", 1), ("m", 1)), 1), (0, L(("n", 1), ("m", 1)), 1), (0, L(("k", 1), ("m", 1)), 1)], False, False),
            ]
            # names inside typed record data take part in compression (offsets are those of the final message, after RDLENGTH)
            layouts += [
                (L(("a", 1), ("b", 1)), [(0, L(("a", 1), ("b", 1)), ("ns", L(("n", 1), ("b", 1)))), (2, L(("n", 1), ("b", 1)), 4)], False, False),
                (L(("a", 1)), [(0, L(("a", 1)), ("afsdb", L(("h", 1), ("z", 1)))), (2, L(("h", 1), ("z", 1)), 4), (0, L(("a", 1)), ("mx", L(("h", 1), ("z", 1))))], False, False),
                (L(("a", 1)), [(1, L(("a", 1)), ("soa", L(("m", 1), ("a", 1)), L(("r", 1), ("m", 1), ("a", 1)))), (2, L(("r", 1), ("m", 1), ("a", 1)), 1)], True, False),
            ]
            layouts.append((L(("a", 1)), [(0, L(("a", 1)), ("rp", L(("x", 1), ("a", 1)), L(("y", 1), ("x", 1), ("a", 1)))), (0, L(("y", 1), ("x", 1), ("a", 1)), ("ptr", L(("x", 1), ("a", 1))))], False, False))
            # names first written beyond 0x2000 (14-bit pointer offsets that need the upper bits)
            layouts.append((L(("a", 1)), [(0, L(), 8200), (0, L(("n", 1), ("m", 1)), 1), (0, L(("n", 1), ("m", 1)), 1), (0, L(("k", 1), ("m", 1)), 1)], False, False))
            if tier == "thorough":
                layouts += [
                    (L(("a", 1)), [(0, L(), 12400), (0, L(("n", 1), ("m", 1)), ("cname", L(("c", 1), ("m", 1)))), (0, L(("c", 1), ("m", 1)), 1)], False, False),
                    (L(("a", 1)), [(0, L(("a", 1)), ("rt", L(("h", 1), ("z", 1)))), (2, L(("h", 1), ("z", 1)), 4)], True, True),
                ]
            # a chain of names each extending the previous one by a label: the encoder emits one pointer hop per level
            chain = [tuple(("=%s" % chr(ord("a") + k), 1) for k in range(d, -1, -1)) for d in range(13)]
            layouts.append((chain[0], [(0, chain[d], 1) for d in range(1, 13)], False, False))
            # names first written just below / exactly at / just above offset 0x4000 (= 30 + filler length) and used again
            for fill in ((16352, 16353, 16354) if tier == "quick" else range(16348, 16359)):
                if fill != 16360:
                    layouts.append((L(("a", 1)), [(0, L(), fill), (0, L(("n", 1), ("m", 1)), 1), (0, L(("n", 1), ("m", 1)), 1), (0, L(("k", 1), ("m", 1)), 1)], False, False))
            if tier == "thorough":
                layouts += [
                    (L(("a", 1), ("b", 1), ("c", 1)), [(0, L(("b", 1), ("c", 1)), 2), (1, L(("c", 1)), 2), (2, L(("z", 1), ("a", 1), ("b", 1), ("c", 1)), 2)], True, False),
                    (L(("a", 3)), [(0, L(("a", 3)), 300), (0, L(("b", 3)), 300), (1, L(("a", 3)), 0)], True, True),
                    (L(("a", 1), ("b", 1)), [(0, L(("e", 1), ("b", 1)), 1), (0, L(("f", 1), ("b", 1)), 1), (0, L(("e", 1), ("b", 1)), 1)], False, False),
                ]
            for i, (ql, recs, ed, sf) in enumerate(layouts):
                jobs.append(wrap("c14_roundtrip_layout%d" % i, (lambda ql=ql, recs=recs, ed=ed, sf=sf: props_dns.roundtrip_obligation(prog, en, structs, (ql, recs), ed, sf)),
                                 "DNSPkt::serialise then PktParser::get_dns on a message with question labels %s and records (section, owner labels, rdata length) %s - equal label tags share their symbolic octets (forcing compression), different tags are independent symbolic octets (both equal and unequal are explored); %s EDNS; ids, TTLs, types, classes, rcode (12 bit with EDNS) symbolic%s" % (ql, recs, "with" if ed else "without", ", all header flags symbolic" if sf else ""),
                                 "decode(encode(m)) = m field by field; independent RFC 1035 reference decoder: every compression pointer targets an earlier offset below 16384 and every name expands to the original; no panic"))
        obligations.extend(run_jobs(jobs))
        return obligations
    if pid in ("C15", "C08", "C03"):
        from mirsym import props_lifted, enums as _en
        import itertools
        structs = _en.scan_structs(REPO)
        lift_stub = ["async fn body lifted verbatim into a synchronous fn by lib/lift.py (rewrites: strip `.await`, rename self, map `super::`)",
                     "tokio RwLock read = identity (single task)", "next handler in the chain = recording stub", "logging disabled"]
        if pid == "C03":
            lift_stub = [lift_stub[0], "add_edns (NSID / server cookie via HMAC: fills only the reply's own OPT options) = no-op", "derived Clone = structural copy",
                         "record names abstracted to identities"]
        jobs = []
        if pid == "C03":
            shapes = [(1, 1, 1), (2, 0, 1), (0, 1, 0), (0, 0, 0)] if tier == "quick" else [(1, 1, 1), (2, 0, 1), (0, 1, 0), (0, 0, 0), (2, 2, 2), (0, 3, 1), (3, 0, 0)]
            for sh in shapes:
                jobs.append(("c03_reply_sections_%d_%d_%d" % sh, (lambda sh=sh: props_lifted.reply_obligation(prog, en, structs, sh)),
                             "upstream reply with %d answer + %d authority + %d additional records (owner, type, TTL, data of every record symbolic and distinct per record), symbolic rcode and header bits; client query with symbolic id, question, with/without EDNS" % sh,
                             "reply id and question = the client's; QR set; rcode, answer, authority and additional sections = the upstream's, record by record and in order"))
            jobs.append(("c03_upstream_reply_accepted_by_id", (lambda: props_lifted.accept_reply_obligation(prog, en, structs)),
                         "the statements of OutQuery::handle_query_internal that choose the reply (lifted verbatim; the UDP and TCP exchanges are shims returning arbitrary replies): query id, both replies' ids and TC bits symbolic, client protocol UDP or TCP",
                         "a UDP reply is used only if its id equals the query's and it is not truncated; otherwise it is discarded and the query repeated once over TCP; TCP clients are resolved over TCP only"))
            jobs.append(("c03_outquery_carries_the_question", (lambda: props_lifted.outquery_obligation(prog, en, structs)),
                         "create_outquery (dns/outquery.rs) for every client question (name identity, type, class symbolic), DNSSEC-OK bit and chosen id",
                         "the upstream query carries the client's question under the chosen id as a standard recursive query (QR clear, opcode QUERY, RD set, no records), DO passed on"))
        elif pid == "C08":
            jobs.append(("c08_dns_acl_gate", lambda: props_lifted.dnsacl_obligation(prog, en, structs),
                         "every query: RD symbolic, qtype symbolic over all 65536 types, source port absent/any, ACL verdict arbitrary (require_permission itself is decided by the Kani harnesses c08_acl_*)",
                         "dns-recursion permission checked exactly once for every query; a refused client gets RefusedByAcl and never reaches routing/cache/upstream; the query is passed on only after a grant"))
        else:
            if tier == "quick":
                shapes = sorted(set(itertools.permutations((0, 1, 2))) | set(itertools.permutations((1, 2, 3))) | {(1, 1, 1), (2, 2, 1), (0, 0, 1), (3, 1, 1)})
            else:
                shapes = list(itertools.product(range(4), repeat=3))
            for sh in shapes:
                jobs.append(("c15_router_suffix_lengths_%d_%d_%d" % sh, (lambda sh=sh: props_lifted.router_obligation(prog, en, structs, sh)),
                             "3 routes x 1 suffix with %d, %d, %d labels (1-octet labels, all octets symbolic = every case mix), each route forward(to its own server) or forge-nxdomain (both), 3-label symbolic query name, RD symbolic; together the shapes cover every order of nested/sibling suffixes" % sh,
                             "outcome = action of the matching suffix with most labels: forge-nxdomain => Blocked and nothing sent upstream; forward => sent to that route's server iff RD else NotAuthoritative; no match => NoRouteConfigured; ties between different actions of equal length left unconstrained"))
            jobs.append(("c15_router_multi_suffix_route", lambda: props_lifted.router_obligation(prog, en, structs, (1, 0), multi=True),
                         "route 0 with two suffixes (1 and 2 labels) + catch-all route (empty suffix); symbolic octets, actions, RD", "as above"))
        for name, job, bounds, oracle in jobs:
            t0 = time.time()
            try:
                failed, ex, npaths, kinds = job()
                for f in failed:
                    f["check"] = name
                obligations.append(dict(name=name, engine="mirsym", functions=sorted(f.split("::")[-1] for f in ex.encoded_fns), bounds=bounds, oracle=oracle,
                                        stubs=lift_stub + sorted(ex.used_summaries), tier=tier, **_vr(failed, ex),
                                        queries=ex.queries, solver_time_s=round(ex.solver_time, 2), failed=_dedup(failed), paths=npaths, path_kinds=kinds,
                                        wall_s=round(time.time() - t0, 1)))
            except Exception as e:  # noqa: anything the executor cannot handle is undecided, never a verdict
                obligations.append(dict(name=name, engine="mirsym", functions=[], bounds=bounds, oracle=oracle, stubs=lift_stub, tier=tier,
                                        verdict="inconclusive", reason=f"outside the encoder's subset: {e}", queries=0, solver_time_s=0, failed=[]))
        return obligations
    if pid in POOL_PROPS or pid == "C11":
        from mirsym import sqlmodel
        try:
            ddl, keys = sqlmodel.extract_schema(prog.text)
            common_stubs.append("lease-table schema read from the DDL in the current source: unique keys %s" % keys)
        except Unsupported as e:
            return [dict(name=f"{pid.lower()}_schema", engine="mirsym", functions=[], bounds="", oracle="", stubs=common_stubs, tier=tier,
                         verdict="inconclusive", reason=f"lease-table schema outside the SQL model: {e}", queries=0, solver_time_s=0, failed=[])]
    if pid == "C20":
        for n in ([1, 3] if tier == "quick" else [1, 2, 3, 4, 5]):
            name = f"c20_gauges_table_of_{n - 1}_rows_or_fewer"
            t0 = time.time()
            try:
                results, ex = props_pool.metrics_obligation(prog, en, n)
                failed = []
                for cname, model, env, val in results:
                    if model is not None:
                        d = props_pool.describe(model, dict(env, client=_z(0), pool=[], min=_z(0, 64), max=_z(0, 64)), None)
                        failed.append(dict(check=name, description=cname, location="dhcp/pool.rs get_pool_metrics", kind="violation",
                                           counterexample=d))
                obligations.append(dict(
                    name=name, engine="mirsym", functions=sorted(f.split("::")[-1] for f in ex.encoded_fns),
                    bounds=f"lease table with at most {n - 1} rows (every subset present, all column values symbolic), symbolic clock",
                    oracle="Ok((a, e)) with a = |{expiry > now}| and e = |{expiry <= now}| for EVERY table including the empty one",
                    stubs=common_stubs + sorted(ex.used_summaries), tier=tier, **_vr(failed, ex),
                    queries=ex.queries, solver_time_s=round(ex.solver_time, 2), failed=_dedup(failed), paths=len(results),
                    wall_s=round(time.time() - t0, 1), sql=sorted(set(s for r in results for s in r[2].get("sql", [])))))
            except Exception as e:  # noqa: anything the executor cannot handle is undecided, never a verdict
                obligations.append(dict(name=name, engine="mirsym", functions=[], bounds="", oracle="", stubs=common_stubs, tier=tier,
                                        verdict="inconclusive", reason=f"outside the encoder's subset: {e}", queries=0, solver_time_s=0, failed=[]))
        from mirsym import props_json
        jobs = []
        for nch in (0, 1, 2):
            def job(nch=nch):
                t0 = time.time()
                name = "c20_listing_hostname_%d_chars" % nch
                bounds = ("the closure of http::serve_leases that renders a lease's host name (lifted verbatim by lib/lift.py) + http::json_string from MIR on host names of exactly %d characters, "
                          "each an arbitrary Unicode scalar value (strings modelled as code-point sequences)" % nch)
                oracle = "the fragment is `, \"host-name\": ` followed by a JSON string per RFC 8259 section 7 (no raw control character, quote or backslash; only the JSON escapes); no panic"
                try:
                    failed, ex, npaths, kinds = props_json.obligation(prog, en, nch)
                    for f in failed:
                        f["check"] = name
                    return dict(name=name, engine="mirsym", functions=sorted(f.split("::")[-1] for f in ex.encoded_fns), bounds=bounds, oracle=oracle,
                                stubs=["String / &str = sequence of code points (with_capacity, push, push_str, chars, as_str, concat summarised); UTF-8 encoding itself not modelled",
                                       "format! not modelled: a fragment built with it is undecided"] + sorted(ex.used_summaries),
                                tier=tier, **_vr(failed, ex), queries=ex.queries, solver_time_s=round(ex.solver_time, 2), failed=_dedup(failed), paths=npaths,
                                path_kinds={str(k): v for k, v in kinds.items()}, wall_s=round(time.time() - t0, 1))
                except Exception as e:  # noqa: anything the executor cannot handle is undecided, never a verdict
                    return dict(name=name, engine="mirsym", functions=[], bounds=bounds, oracle=oracle, stubs=[], tier=tier, verdict="inconclusive",
                                reason=f"outside the encoder's subset: {e}", queries=0, solver_time_s=0, failed=[])
            jobs.append(("c20_listing_hostname_%d_chars" % nch, job))
        from mirsym import props_listing
        for nrows in ([2] if tier == "quick" else [1, 2, 3]):
            def ljob(nrows=nrows):
                t0 = time.time()
                name = "c20_listing_entries_table_of_%d_rows_or_fewer" % nrows
                bounds = "Pool::get_leases (prepare_cached, query_map, the row-mapping closure, collect) from MIR on every lease table of <= %d rows the invariant admits; every column symbolic; the options column NULL or not" % nrows
                oracle = "Ok(list) with exactly one entry per stored row carrying that row's address, client identifier, start and expiry; never Err, never a panic"
                try:
                    failed, ex, npaths, kinds = props_listing.obligation(prog, en, nrows)
                    for f in failed:
                        f["check"] = name
                    return dict(name=name, engine="mirsym", functions=sorted(f.split("::")[-1] for f in ex.encoded_fns), bounds=bounds, oracle=oracle,
                                stubs=common_stubs + ["prepare_cached / query_map = the plain SELECT found at the call site evaluated over the symbolic table (rows in table order); Row::get typed as rusqlite: NULL is not a BLOB, NULL is None for Option"] + sorted(ex.used_summaries),
                                tier=tier, **_vr(failed, ex), queries=ex.queries, solver_time_s=round(ex.solver_time, 2), failed=_dedup(failed), paths=npaths,
                                path_kinds={str(k): v for k, v in kinds.items()}, wall_s=round(time.time() - t0, 1))
                except Exception as e:  # noqa: anything the executor cannot handle is undecided, never a verdict
                    return dict(name=name, engine="mirsym", functions=[], bounds=bounds, oracle=oracle, stubs=[], tier=tier, verdict="inconclusive",
                                reason=f"outside the encoder's subset: {e}", queries=0, solver_time_s=0, failed=[])
            jobs.append(("c20_listing_entries_table_of_%d_rows_or_fewer" % nrows, ljob))
        obligations.extend(run_jobs(jobs))
        return _with_replay(pid, obligations, logdir)
    po = props_pool.PoolObligations(prog, en, tier, None)
    from mirsym.interp import Exec
    from mirsym.summaries import S
    import z3
    ORACLE = {"C01": "granted address not held unexpired by another client; exactly one row for it, owned by the asker; pool membership; invariant preserved; refusal leaves the table unchanged",
              "C02": "granted address is a member of the pool set passed by the policy layer",
              "C09": "client holding an unexpired in-pool lease gets one of those (the named one if it holds it); refused only with NoAssignableAddress and only if every pool address is held unexpired by another client",
              "C10": "min <= advertised <= max; stored start = reply time, expiry = start + advertised (no wrap); no arithmetic panic on any path",
              "C13": "a successful step changes only the row of the granted address; a refused step changes nothing"}

    def pool_job(step, name):
        t0 = time.time()
        # loops: one iteration per pool address (free-address scan) and one per stored row of the client (binding walk), plus slack
        ex = Exec(prog, S, en, max_unroll=max(step.pool_size, step.n_rows) + 3)
        try:
            fn = po.find("allocate_address", 7)
            paths = ex.explore(lambda e: e.call_fn(fn, props_pool.setup_step(e, step)))
            failed, nclaims, sigs = [], 0, {}
            for outcome, val, pc, env in paths:
                if outcome == "panic":
                    sig = "panic"
                else:
                    lf = props_pool.lease_fields(val)
                    sig = "ok:" + lf[4] if lf[0] == "ok" else "err:" + lf[1]
                sigs[sig] = sigs.get(sig, 0) + 1
                for claim in props_pool.claims_for_path(pid, outcome, val, env):
                    cname, formula = claim[0], claim[1]
                    excuses = claim[2] if len(claim) > 2 else []
                    if outcome == "panic" and pid != "C10":
                        continue
                    nclaims += 1
                    soft = props_pool.replayable(env)
                    model = props_pool.check(ex, pc, formula, cname, extra=[z3.Not(e) for _, e in excuses], prefer=soft)
                    if model is not None:
                        failed.append(dict(check=name, description=f"{cname} [{sig}]", location="dhcp/pool.rs allocate_address", kind="violation",
                                           counterexample=props_pool.describe(model, env, dict(outcome=sig))))
                    for fid, e in excuses:
                        model = props_pool.check(ex, pc, formula, cname, extra=[e], prefer=soft)
                        if model is not None:
                            failed.append(dict(check=name, description=f"{cname} [{sig}] {{{fid}}}", location="dhcp/pool.rs allocate_address", kind="violation",
                                               counterexample=props_pool.describe(model, env, dict(outcome=sig))))
            return dict(
                name=name, engine="mirsym", functions=sorted(f.split("::")[-1] for f in ex.encoded_fns),
                bounds=f"ONE allocate_address step from an arbitrary lease table of <= {step.n_rows - 1} rows (all columns symbolic, invariant assumed), "
                       f"pool of {step.pool_size} symbolic distinct addresses, {'symbolic requested address' if step.with_request else 'no requested address'}, "
                       f"symbolic client, symbolic min<=max lease (<= 366 d), symbolic non-decreasing clock; loops unrolled {max(step.pool_size, step.n_rows) + 3}x with unwinding check; inductive over histories",
                oracle=ORACLE[pid], stubs=common_stubs + sorted(ex.used_summaries), tier=tier, **_vr(failed, ex),
                queries=ex.queries, solver_time_s=round(ex.solver_time, 2), failed=_dedup(failed), paths=len(paths), path_kinds=sigs,
                claims_checked=nclaims, wall_s=round(time.time() - t0, 1), sql=sorted(set(s for p in paths for s in p[3].get("sql", [])))[:8])
        except Exception as e:  # noqa: anything the executor cannot handle is undecided, never a verdict
            return dict(name=name, engine="mirsym", functions=[], bounds="", oracle="", stubs=common_stubs, tier=tier, verdict="inconclusive",
                        reason=f"outside the encoder's subset: {e}", queries=ex.queries, solver_time_s=round(ex.solver_time, 2), failed=[])
    jobs = []
    for step in (po.shapes() if pid != "C11" else []):
        name = f"{pid.lower()}_step_rows{step.n_rows - 1}_pool{step.pool_size}_{'req' if step.with_request else 'noreq'}"
        jobs.append((name, (lambda step=step, name=name: pool_job(step, name))))

    # ---- message handling on top of the pool model (dhcp/mod.rs handle_pkt) ------------------------------------
    HANDLER = {
        "C13": [("other", None), ("request", None), ("discover", None), ("request", 54), ("discover", 54)],
        "C10": [("request", None), ("discover", None), ("request", 51), ("discover", 51)],
        "C01": [("request", None), ("discover", None)],
        "C09": [("request", None), ("discover", None)],
        "C11": [("request", None), ("discover", None)],
    }
    CLAIM_FILTER = {
        "C13": ("only DISCOVER", "a REQUEST naming", "a message that is not answered", "reply echoes", "the lease store changes only", "reply message type",
                "reply carries a server identifier", "server identifier names", "message handling never panics"),
        "C10": ("every OFFER and ACK", "advertised lease time"),
        "C01": ("the lease store changes only", "pool is asked on behalf"),
        "C09": ("address named to the pool", "a named address is handed", "pool is asked on behalf"),
        "C11": ("top-level defaults (the generated base policy) are applied first",),
    }

    def handler_job(kind, pset, name):
        from mirsym import props_dhcp, enums as _en
        t0 = time.time()
        try:
            structs = _en.scan_structs(REPO)
            failed, ex, npaths, kinds = props_dhcp.obligation(prog, en, structs, kind, pset, n_rows=2 if tier == "quick" else 3, only=CLAIM_FILTER[pid])
            failed = [f for f in failed if f["description"].startswith(CLAIM_FILTER[pid])]
            for f in failed:
                f["check"] = name
            return dict(
                name=name, engine="mirsym", functions=sorted(f.split("::")[-1] for f in ex.encoded_fns),
                bounds=("handle_pkt on a %s message with every header field symbolic, server-id option absent/any value, requested-address option absent/any, one server id, "
                        "lease table of <= %d rows + pool of 1 symbolic address (pool model as C01), policy layer replaced by an arbitrary outcome (matched or not, address set granted or not, "
                        "symbolic min<=max lease%s)") % ({"other": "non-DISCOVER/REQUEST or untyped", "request": "REQUEST", "discover": "DISCOVER"}[kind], 1 if tier == "quick" else 2,
                                                         ", a matching policy overriding option %d with any value or null" % pset if pset else ""),
                oracle="; ".join(CLAIM_FILTER[pid]),
                stubs=common_stubs + ["apply_policies / build_default_config = arbitrary policy outcome (havoc)", "DhcpOptions accessors (get_messagetype, get_serverid, get_address_request, get_client_id) = the decoded value of their option (arbitrary)",
                                      "request option re-serialisation (raw options blob) = no-op", "response option table = map with concrete option codes"] + sorted(ex.used_summaries),
                tier=tier, **_vr(failed, ex), queries=ex.queries, solver_time_s=round(ex.solver_time, 2), failed=_dedup(failed),
                paths=npaths, path_kinds=kinds, wall_s=round(time.time() - t0, 1))
        except Exception as e:  # noqa: anything the executor cannot handle is undecided, never a verdict
            return dict(name=name, engine="mirsym", functions=[], bounds="", oracle="", stubs=common_stubs, tier=tier, verdict="inconclusive",
                        reason=f"outside the encoder's subset: {e}", queries=0, solver_time_s=0, failed=[])
    if pid == "C02":
        from mirsym import props_addrset, enums as _en2
        structs2 = _en2.scan_structs(REPO)

        def aset_job(name, thunk, bounds, oracle):
            t0 = time.time()
            try:
                failed, ex, npaths, kinds = thunk()
                for f in failed:
                    f["check"] = name
                return dict(name=name, engine="mirsym", functions=sorted(f.split("::")[-1] for f in ex.encoded_fns), bounds=bounds, oracle=oracle,
                            stubs=["HashSet<Ipv4Addr> = explicit list of symbolic members / uninterpreted membership predicate / difference / lazily generated (range -> map -> filter) set; "
                                   "membership is decided through the generator with the real closures executed from MIR",
                                   "Mutex<RefCell<_>> (address cache) = plain cell (single thread)"] + sorted(ex.used_summaries),
                            tier=tier, **_vr(failed, ex), queries=ex.queries, solver_time_s=round(ex.solver_time, 2), failed=_dedup(failed),
                            paths=npaths, path_kinds=kinds, wall_s=round(time.time() - t0, 1))
            except Exception as e:  # noqa: anything the executor cannot handle is undecided, never a verdict
                return dict(name=name, engine="mirsym", functions=[], bounds=bounds, oracle=oracle, stubs=[], tier=tier, verdict="inconclusive",
                            reason=f"outside the encoder's subset: {e}", queries=0, solver_time_s=0, failed=[])
        D = ("D = { ip | network < ip < broadcast, ip != receiving address, ip not in the union of the address sets of configured policies } "
             "(erbium.conf(5) `addresses`: all addresses of the subnet except the network address, the broadcast address, the local interface address and any address given in a policy)")
        for direction in ("sound", "complete"):
            name = "c02_default_policy_" + direction
            jobs.append((name, (lambda direction=direction, name=name: aset_job(
                name, lambda: props_addrset.default_policy_obligation(prog, en, structs2, direction, list(range(0, 33))),
                "the closure of build_default_config that turns one IPv4 `addresses` prefix into a sub-policy, executed from MIR: prefix address and receiving address symbolic (all 2^32), "
                "prefix length symbolic over every length the loader accepts (0..=32), addresses used by configured policies = an arbitrary set (uninterpreted predicate); "
                "the range/map/filter/collect/difference pipeline is evaluated for an arbitrary generator value (sound) / for an arbitrary address of D via its offset (complete)",
                ("every generated address is in D; no panic or overflow; the sub-policy matches exactly the configured subnet. " if direction == "sound" else "every address of D is generated. ") + D))))
        for sname, mk in props_addrset.tree_shapes(tier):
            for twice in (False, True):
                name = "c02_used_addresses_" + sname + ("_cached" if twice else "")
                jobs.append((name, (lambda mk=mk, twice=twice, name=name, sname=sname: aset_job(
                    name, lambda: props_addrset.used_addresses_obligation(prog, en, structs2, mk, twice),
                    "dhcp::config::Config::get_all_used_addresses + Policy::get_all_used_addresses on the policy tree shape '%s' (which policies have an address set, of how many addresses, and the nesting are concrete; "
                    "the addresses are symbolic)%s" % (sname, "; called twice (second call served from the per-policy cache)" if twice else ""),
                    "membership of an arbitrary address in the result == membership in the union of the address sets of every policy at every depth"))))
    for kind, pset in HANDLER.get(pid, []):
        name = f"{pid.lower()}_handle_pkt_{kind}" + (f"_policy_sets_{pset}" if pset else "")
        jobs.append((name, (lambda kind=kind, pset=pset, name=name: handler_job(kind, pset, name))))
    obligations.extend(run_jobs(jobs))
    return _with_replay(pid, obligations, logdir)


def _vr(failed, ex):
    """verdict of an obligation: a solver-decided violation on any path is a failure; paths the encoder could not execute
    (unsupported construct, unwinding bound) leave an otherwise clean obligation undecided"""
    und = getattr(ex, "undecided_paths", [])
    if failed:
        return dict(verdict="fail", reason=("; %d path(s) outside the encoder's subset: %s" % (len(und), und[0]) if und else ""))
    if und:
        return dict(verdict="inconclusive", reason="outside the encoder's subset on %d path(s): %s" % (len(und), und[0]))
    return dict(verdict="pass", reason="")


def _z(v, w=32):
    import z3
    return z3.BitVecVal(v, w)


def _dedup(failed):
    seen, out = set(), []
    for f in failed:
        if f["description"] in seen:
            continue
        seen.add(f["description"])
        out.append(f)
    return out


def _with_replay(pid, obligations, logdir):
    """native replay of every counterexample against the real Pool (in-memory SQLite) is attached lazily by the runner"""
    return obligations


def replay_violation(pid, o, new_failed, logdir):
    import mir_replay
    for f in new_failed:
        if f.get("counterexample"):
            return mir_replay.replay_cex(pid, o["name"], f["description"], f["counterexample"], logdir)
    return None, None, "no counterexample attached"


def replay(pid, path, logdir):
    import mir_replay
    return mir_replay.replay_file(pid, path, logdir)
