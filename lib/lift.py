"""Source lifting: regenerate, on every run, synchronous copies of logic that lives inline in async fns.

Kani cannot execute the tokio/socket stack these functions statically reach (kani-compiler ICE in
intrinsics.rs:243 during reachability) and refuses to stub async fns.  The decision logic itself (route
selection loop, ACL gate, bucket index arithmetic, rate-limit cost) is plain sequential code.  For each
target the body text is taken verbatim from /repo's current source, `.await` is stripped, `self` is renamed,
and the result is written as a synchronous fn with a hand-written signature over shim types that the harness
provides (lock = identity, next handler = recording stub).  The rewrite is purely syntactic and listed in
the evidence; if a target cannot be found the obligation is inconclusive.
"""
import os
import re

from common import REPO, WORK

GEN_DIR = os.path.join(WORK, "gen" + os.environ.get("VERIF_KANI_TARGET_SUFFIX", ""))


class _atomic:
    """write-if-changed through a temporary file and rename: concurrent checks regenerate the same files and a compiler may be
    reading them"""

    def __init__(self, path):
        self.path = path

    def __enter__(self):
        import io
        self.buf = io.StringIO()
        return self.buf

    def __exit__(self, *exc):
        new = self.buf.getvalue()
        try:
            if open(self.path).read() == new:
                return False
        except OSError:
            pass
        tmp = "%s.%d.tmp" % (self.path, os.getpid())
        with open(tmp, "w") as f:
            f.write(new)
        os.replace(tmp, self.path)
        return False



def find_fn_body(src, fn_regex):
    """Return (body_text_without_outer_braces, line_number) of the first fn whose header matches fn_regex."""
    m = re.search(fn_regex, src)
    if not m:
        return None, None
    i = src.index("{", m.end() - 1) if src[m.end() - 1] != "{" else m.end() - 1
    # the header regex must end just before the body's opening brace
    depth = 0
    j = i
    in_str = False
    in_char = False
    in_line_comment = False
    in_block_comment = 0
    while j < len(src):
        c = src[j]
        nxt = src[j + 1] if j + 1 < len(src) else ""
        if in_line_comment:
            if c == "\n":
                in_line_comment = False
        elif in_block_comment:
            if c == "*" and nxt == "/":
                in_block_comment -= 1
                j += 1
            elif c == "/" and nxt == "*":
                in_block_comment += 1
                j += 1
        elif in_str:
            if c == "\\":
                j += 1
            elif c == '"':
                in_str = False
        else:
            if c == "/" and nxt == "/":
                in_line_comment = True
            elif c == "/" and nxt == "*":
                in_block_comment = 1
                j += 1
            elif c == '"':
                in_str = True
            elif c == "'" and re.match(r"'(\\.|[^\\'])'", src[j:j + 4]):
                j += len(re.match(r"'(\\.|[^\\'])'", src[j:j + 4]).group(0)) - 1
            elif c == "{":
                depth += 1
            elif c == "}":
                depth -= 1
                if depth == 0:
                    return src[i + 1:j], src[:m.start()].count("\n") + 1
        j += 1
    return None, None


TARGETS = [
    dict(
        name="router_handle_query", file="crates/erbium-core/src/dns/router.rs",
        header=r"pub\s+async\s+fn\s+handle_query\s*\(\s*&self\s*,\s*msg\s*:\s*&super::DnsMessage\s*\)\s*->\s*Result<dnspkt::DNSPkt,\s*Error>\s*\{",
        signature="pub fn lifted_router_handle_query(self_: &RouterShim, msg: &MsgShim) -> Result<dnspkt::DNSPkt, Error>",
        rewrites=[(r"\.await\b", ""), (r"\bself\.", "self_."), (r"\bsuper::", "crate::dns::")],
    ),
    dict(
        name="dnsacl_handle_query", file="crates/erbium-core/src/dns/acl.rs",
        header=r"pub\s+async\s+fn\s+handle_query\s*\(\s*&self\s*,\s*msg\s*:\s*&DnsMessage\s*\)\s*->\s*Result<dnspkt::DNSPkt,\s*Error>\s*\{",
        signature="pub fn lifted_dnsacl_handle_query(self_: &AclShim, msg: &DnsMessage) -> Result<dnspkt::DNSPkt, Error>",
        rewrites=[(r"\.await\b", ""), (r"\bself\.", "self_."), (r"\bsuper::", "crate::dns::")],
    ),
    dict(
        name="ratelimiter_check", file="crates/erbium-core/src/dns/mod.rs",
        header=r"async\s+fn\s+check\s*\(\s*&self\s*,\s*ip\s*:\s*std::net::IpAddr\s*,\s*bytes\s*:\s*usize\s*\)\s*->\s*bool\s*\{",
        signature="pub fn lifted_ratelimiter_check(self_: &LimiterShim, ip: std::net::IpAddr, bytes: usize) -> bool",
        rewrites=[(r"\.await\b", ""), (r"\bself\.", "self_."), (r"\bSelf::hash_ip\b", "LimiterShim::hash_ip"),
                  (r"bucket::RealTimeClock", "HarnessClock")],
    ),
    dict(
        name="should_ratelimit", file="crates/erbium-core/src/dns/mod.rs",
        header=r"async\s+fn\s+should_ratelimit\s*\(\s*msg\s*:\s*&DnsMessage\s*,\s*in_reply\s*:\s*&dnspkt::DNSPkt\s*,\s*in_reply_serialised\s*:\s*&\[u8\]\s*,\s*rate_limiter\s*:\s*&IpRateLimiter\s*,?\s*\)\s*->\s*bool\s*\{",
        signature="pub fn lifted_should_ratelimit(msg: &MsgShim, in_reply: &dnspkt::DNSPkt, in_reply_serialised: &SerShim, rate_limiter: &RecordingLimiter) -> bool",
        rewrites=[(r"\.await\b", ""), (r"log::trace!\([^;]*\);", "")],
    ),
    dict(
        name="create_in_reply", file="crates/erbium-core/src/dns/mod.rs",
        header=r"async\s+fn\s+create_in_reply\s*\(\s*msg\s*:\s*&DnsMessage\s*,\s*outr\s*:\s*&dnspkt::DNSPkt\s*\)\s*->\s*dnspkt::DNSPkt\s*\{",
        signature="pub fn lifted_create_in_reply(msg: &DnsMessage, outr: &dnspkt::DNSPkt) -> dnspkt::DNSPkt",
        rewrites=[(r"\.await\b", ""), (r"\bSelf::add_edns\b", "add_edns_shim")],
    ),
    dict(
        name="http_serve_request", file="crates/erbium-core/src/http.rs",
        header=r"async\s+fn\s+serve_request\s*<[^{]*\{",
        signature="pub fn lifted_http_serve_request(method: &hyper::Method, path: &str, acls: &[acl::Acl], client: &acl::Attributes) -> HttpOutcome",
        rewrites=[(r"let\s+client\s*=\s*acl::Attributes\s*\{[^}]*\};", ""),
                  (r"match\s*\(\s*req\.method\(\)\s*,\s*req\.uri\(\)\.path\(\)\s*\)", "match (method, path)"),
                  (r"require_http_permission\(\s*&conf\.read\(\)\.await\.acls\s*,\s*&client\s*,", "verif_require(acls, client,"),
                  (r"\bOk\(ret\)", "HttpOutcome::Denied"),
                  ("BALANCED:Ok(Response::new(", "HttpOutcome::Root"),
                  ("BALANCED:Ok(Response::builder()", "HttpOutcome::NotFound"),
                  (r"dhcp\.update_metrics\(\)\.await;", ""),
                  (r"serve_metrics\(req\)\.await", "HttpOutcome::Metrics"),
                  (r"serve_leases\(req,\s*&dhcp\)\.await", "HttpOutcome::Leases")],
        must_not_contain=r"\.await|\breq\b|\bdhcp\b|\bconf\b",
    ),
    dict(
        name="cache_handle_query", file="crates/erbium-core/src/dns/cache/mod.rs",
        header=r"pub\s+async\s+fn\s+handle_query\s*\(\s*&self\s*,\s*msg\s*:\s*&super::DnsMessage\s*,\s*addr\s*:\s*std::net::SocketAddr\s*,?\s*\)\s*->\s*Result<dnspkt::DNSPkt,\s*Error>\s*\{",
        signature="pub fn lifted_cache_handle_query(self_: &CacheShim, msg: &crate::dns::DnsMessage, addr: std::net::SocketAddr) -> Result<dnspkt::DNSPkt, Error>",
        rewrites=[(r"\.await\b", ""), (r"\bself\.", "self_."), (r"\bSelf::get_entry\b", "CacheShim::get_entry"),
                  (r"\bsuper::", "crate::dns::"), (r"log::trace!\([^;]*\);", ""),
                  (r"DNS_CACHE\.with_label_values\([^;]*\);", ""), (r"Instant::now\(\)", "harness_now()"),
                  (r"match &out_result \{.*?\};", "")],
    ),
]


# expressions lifted out of async fns that cannot be executed as a whole (socket I/O, tokio::spawn): the initialiser of one
# `let` binding, taken verbatim, becomes the body of a synchronous fn over the same variable names
EXPR_TARGETS = [
    dict(
        name="udp_reply_bytes", file="crates/erbium-core/src/dns/mod.rs",
        header=r"async\s+fn\s+run_udp\s*\([^{]*\{", binding="in_reply_bytes",
        signature="pub fn lifted_udp_reply_bytes(in_reply: &dnspkt::DNSPkt, msg: &DnsMessage) -> Vec<u8>",
        rewrites=[(r"\bSelf::", "DnsListenerHandler::")],
    ),
    dict(
        name="reply_destination", file="crates/erbium-core/src/dhcp/mod.rs",
        header=r"async\s+fn\s+recvdhcp\s*\([^{]*\{", binding="dst",
        signature="pub fn lifted_reply_destination(request: &DHCPRequest, reply: &dhcppkt::Dhcp, ip4: erbium_net::nix::sys::socket::SockaddrIn) -> erbium_net::nix::sys::socket::SockaddrIn",
        rewrites=[],
    ),
    dict(
        name="tcp_reply_bytes", file="crates/erbium-core/src/dns/mod.rs",
        header=r"async\s+fn\s+run_tcp\s*\([^{]*\{", binding="serialised",
        signature="pub fn lifted_tcp_reply_bytes(in_reply: &dnspkt::DNSPkt, msg: &DnsMessage) -> Vec<u8>",
        rewrites=[(r"\bSelf::", "DnsListenerHandler::")],
    ),
]


# statement blocks lifted out of async fns: the text between two anchors inside the fn body, verbatim, becomes the body of a
# synchronous fn (prologue/epilogue hand-written)
BLOCK_TARGETS = [
    dict(
        name="outquery_adapt_timeout", file="crates/erbium-core/src/dns/outquery.rs",
        header=r"async\s+fn\s+send_udp\s*\([^{]*\{",
        start=r"if\s+attempts\.len\(\)\s*>\s*1\s*\{", end=r"Ok\(pkt\)",
        signature="pub fn lifted_outquery_adapt_timeout(n_attempts: usize, dur: Duration, initial_timeout: Duration, timeout_cell: &mut Duration)",
        prologue="", epilogue="",
        rewrites=[(r"attempts\.len\(\)", "n_attempts"), (r"DNS_TIMEOUT\.write\(\)\.await", "timeout_cell")],
    ),
    dict(
        # C07: the timer arm of send_udp's select loop: give up after a bounded number of transmissions, otherwise back off
        name="outquery_retry_arm", file="crates/erbium-core/src/dns/outquery.rs",
        header=r"async\s+fn\s+send_udp\s*\([^{]*\{",
        start=r"if\s+attempts\.len\(\)\s*[<>=!]+\s*\d+\s*\{\s*return\s+Err\(Error::Timeout\)", end=r"\}\s*,?\s*\}\s*\}\s*\Z",
        signature="pub fn lifted_outquery_retry_arm(n_attempts: usize, timeout_in: Duration, jitter_source: &JitterShim) -> Result<Duration, Error>",
        prologue="let mut timeout = timeout_in;\n    ", epilogue="Ok(timeout)",
        rewrites=[(r"attempts\.len\(\)", "n_attempts"), (r"OUT_QUERY_RETRY\s*\.with_label_values\([^;]*\);", ""),
                  (r"rand::rng\(\)\.random_range\(", "jitter_source.random_range(")],
    ),
    dict(
        # C07: registration of an upstream TCP query in the per-upstream id -> waiter map (the statements of send_tcp_query before the write)
        name="tcp_register_waiter", file="crates/erbium-core/src/dns/outquery.rs",
        header=r"async\s+fn\s+send_tcp_query\s*\([^{]*\{",
        start=r"\A\s*", end=r"if\s+let\s+Some\(ref\s+mut\s+tcp_sock\)\s*=\s*self\.tcp",
        signature="pub fn lifted_tcp_register_waiter(self_: &mut TcpShim, msg: TcpMsgShim) -> Result<(), Error>",
        prologue="", epilogue="Ok(())",
        rewrites=[(r"\bself\.", "self_.")],
    ),
    dict(
        name="outquery_accept_reply", file="crates/erbium-core/src/dns/outquery.rs",
        header=r"async\s+fn\s+handle_query_internal\s*\([^{]*\{",
        start=r"let\s+out_reply\s*;", end=r"if\s+out_reply\.qid\s*!=\s*id",
        signature="pub fn lifted_outquery_accept_reply(msg: &ProtoShim, addr: std::net::SocketAddr, id: u16, oq: dnspkt::DNSPkt) -> Result<dnspkt::DNSPkt, Error>",
        prologue="", epilogue="Ok(out_reply)",
        rewrites=[(r"self\.send_udp\(addr,\s*&oq\)\.await", "udp_shim(addr, &oq)"),
                  (r"TcpNameserver::send_query_to\(&addr,\s*oq\)\.await", "tcp_shim(&addr, oq)"),
                  (r"OUT_QUERY_RETRY\s*\.with_label_values\([^;]*\);", "")],
        allow_await_before_rewrite=True,
    ),
    dict(
        name="send_msg_cmsgs", file="crates/erbium-net/src/socket.rs",
        header=r"pub\s+async\s+fn\s+send_msg\s*<[^{]*\{",
        start=r"let\s+mut\s+cmsgs\s*:", end=r"match\s+nix::sys::socket::sendmsg\s*\(",
        signature="pub fn lifted_send_msg_cmsgs(cmsg: &ControlMessage) -> (libc::in_pktinfo, libc::in6_pktinfo, usize, bool)",
        prologue="",
        epilogue="let n = cmsgs.len();\n    let first_is_v4 = matches!(cmsgs.first(), Some(nix::sys::socket::ControlMessage::Ipv4PacketInfo(_)));\n    std::mem::forget(cmsgs);\n    (in_pktinfo, in6_pktinfo, n, first_is_v4)",
        rewrites=[],
    ),
]


# closures lifted out of async fns: `.map(|h| <expr>)` following an anchor; <expr> becomes the body of a fn taking h
CLOSURE_TARGETS = [
    dict(
        name="hostname_fragment", file="crates/erbium-core/src/http.rs",
        header=r"async\s+fn\s+serve_leases\s*<[^{]*\{",
        anchor=r"\.and_then\(\|o\|\s*o\.get_hostname\(\)\)\s*\.map\(\|h\|\s*",
        signature="pub fn lifted_hostname_fragment(h: String) -> String",
    ),
]


def _balanced_until_close(text, i):
    """text[i:] up to the parenthesis that closes the one opened just before i (strings skipped)"""
    depth = 1
    j = i
    while j < len(text):
        c = text[j]
        if c == '"':
            j += 1
            while j < len(text) and text[j] != '"':
                j += 2 if text[j] == "\\" else 1
        elif c in "([{":
            depth += 1
        elif c in ")]}":
            depth -= 1
            if depth == 0:
                return text[i:j]
        j += 1
    return None


def generate_closures(status, notes):
    for t in CLOSURE_TARGETS:
        out = os.path.join(GEN_DIR, t["name"] + ".rs")
        expr, line = None, None
        try:
            src = open(os.path.join(REPO, t["file"])).read()
            body, line = find_fn_body(src, t["header"])
            if body is not None:
                ms = list(re.finditer(t["anchor"], body))
                if len(ms) == 1:
                    expr = _balanced_until_close(body, ms[0].end())
                    if expr is not None and ".await" in expr:
                        expr = None
        except Exception:  # noqa
            expr = None
        if expr is None:
            status[t["name"]] = f"closure after /{t['anchor']}/ not found exactly once in {t['file']}"
            with _atomic(out) as f:
                f.write("// extraction failed\n#[allow(unused_variables)]\n%s {\n    panic!(\"lifting failed: closure not found in source\")\n}\n" % t["signature"])
            continue
        with _atomic(out) as f:
            f.write("// GENERATED on every run by /verif/lib/lift.py: body of the closure after /%s/ in %s (fn at line %d), verbatim\n" % (t["anchor"], t["file"], line))
            f.write("#[allow(unused_variables, unused_mut, clippy::all)]\n")
            f.write(t["signature"] + " {\n    " + expr.strip().rstrip(",") + "\n}\n")
        status[t["name"]] = None
        notes.append(f"lifted the closure body after /{t['anchor']}/ of {t['file']} fn at line {line}")


def generate_blocks(status, notes):
    for t in BLOCK_TARGETS:
        out = os.path.join(GEN_DIR, t["name"] + ".rs")
        block, line = None, None
        try:
            src = open(os.path.join(REPO, t["file"])).read()
            body, line = find_fn_body(src, t["header"])
            if body is not None:
                a = list(re.finditer(t["start"], body))
                b = list(re.finditer(t["end"], body))
                if len(a) == 1 and len(b) == 1 and a[0].start() < b[0].start():
                    block = body[a[0].start():b[0].start()]
                    for pat, rep in t["rewrites"]:
                        block = re.sub(pat, rep, block, flags=re.S)
                    if ".await" in block:
                        block = None
        except Exception:  # noqa
            block = None
        if block is None:
            status[t["name"]] = f"block between /{t['start']}/ and /{t['end']}/ not found exactly once in {t['file']}"
            with _atomic(out) as f:
                f.write("// extraction failed\n#[allow(unused_variables)]\n%s {\n    panic!(\"lifting failed: block not found in source\")\n}\n" % t["signature"])
            continue
        with _atomic(out) as f:
            f.write("// GENERATED on every run by /verif/lib/lift.py: statements of %s (fn at line %d) from /%s/ up to /%s/, verbatim\n" % (t["file"], line, t["start"], t["end"]))
            f.write("#[allow(unused_variables, unused_mut, clippy::all)]\n")
            f.write(t["signature"] + " {\n    " + t["prologue"] + block + "\n    " + t["epilogue"] + "\n}\n")
        status[t["name"]] = None
        notes.append(f"lifted the statements between /{t['start']}/ and /{t['end']}/ of {t['file']} fn at line {line}")


def generate_exprs(status, notes):
    for t in EXPR_TARGETS:
        out = os.path.join(GEN_DIR, t["name"] + ".rs")
        expr, line = None, None
        try:
            src = open(os.path.join(REPO, t["file"])).read()
            body, line = find_fn_body(src, t["header"])
            if body is not None:
                ms = list(re.finditer(r"\blet\s+(?:mut\s+)?%s\s*(?::[^=;]+)?=\s*(.*?);" % re.escape(t["binding"]), body, flags=re.S))
                if len(ms) == 1 and ".await" not in ms[0].group(1):
                    expr = ms[0].group(1)
        except Exception:  # noqa
            expr = None
        if expr is None:
            status[t["name"]] = f"`let {t['binding']} = ..;` not found exactly once (or it awaits) in {t['header'][:30]}.. of {t['file']}"
            with _atomic(out) as f:
                f.write("// extraction failed\n#[allow(unused_variables)]\n%s {\n    panic!(\"lifting failed: binding not found in source\")\n}\n" % t["signature"])
            continue
        for pat, rep in t["rewrites"]:
            expr = re.sub(pat, rep, expr, flags=re.S)
        with _atomic(out) as f:
            f.write("// GENERATED on every run by /verif/lib/lift.py: initialiser of `let %s` in %s (fn at line %d), verbatim except: %s\n" % (
                t["binding"], t["file"], line, "; ".join(f"s/{p}/{r}/" for p, r in t["rewrites"])))
            f.write("#[allow(unused_variables, unused_mut, clippy::all)]\n")
            f.write(t["signature"] + " {\n    " + expr + "\n}\n")
        status[t["name"]] = None
        notes.append(f"lifted the initialiser of `let {t['binding']}` from {t['file']} fn at line {line}")


def replace_balanced(text, start_token, replacement):
    """replace every `<start_token> ... <matching close paren of the FIRST paren in start_token>` by `replacement`"""
    out, i = [], 0
    while True:
        k = text.find(start_token, i)
        if k < 0:
            out.append(text[i:])
            return "".join(out)
        p0 = text.index("(", k)
        depth, j = 0, p0
        while j < len(text):
            c = text[j]
            if c == '"':
                j += 1
                while j < len(text) and text[j] != '"':
                    j += 2 if text[j] == "\\" else 1
            elif c == "(":
                depth += 1
            elif c == ")":
                depth -= 1
                if depth == 0:
                    break
            j += 1
        out.append(text[i:k])
        out.append(replacement)
        i = j + 1


def generate():
    """Write one file per target into GEN_DIR. Returns {name: error or None} and the list of evidence notes."""
    os.makedirs(GEN_DIR, exist_ok=True)
    status, notes = {}, []
    generate_exprs(status, notes)
    generate_blocks(status, notes)
    generate_closures(status, notes)
    for t in TARGETS:
        out = os.path.join(GEN_DIR, t["name"] + ".rs")
        try:
            src = open(os.path.join(REPO, t["file"])).read()
            body, line = find_fn_body(src, t["header"])
        except Exception as e:  # noqa
            body, line = None, None
        if body is None:
            status[t["name"]] = f"function header not found in {t['file']} (signature changed?)"
            with _atomic(out) as f:
                f.write("// extraction failed: target not found\n%s {\n    panic!(\"lifting failed: target not found in source\")\n}\n"
                        % t["signature"].replace("self_", "_self_").replace("msg:", "_msg:"))
            continue
        for pat, rep in t["rewrites"]:
            if pat.startswith("BALANCED:"):
                body = replace_balanced(body, pat[len("BALANCED:"):], rep)
            else:
                body = re.sub(pat, rep, body, flags=re.S)
        if t.get("must_not_contain") and re.search(t["must_not_contain"], body):
            status[t["name"]] = f"lifted body of {t['name']} still contains /{t['must_not_contain']}/ (source changed shape)"
        with _atomic(out) as f:
            f.write("// GENERATED on every run by /verif/lib/lift.py from %s:%d - body verbatim except: %s\n" % (
                t["file"], line, "; ".join(f"s/{p}/{r}/" for p, r in t["rewrites"])))
            f.write("#[allow(unused_variables, unused_mut, clippy::all)]\n")
            f.write(t["signature"] + " {" + body + "}\n")
        status.setdefault(t["name"], None)
        notes.append(f"lifted {t['name']} from {t['file']}:{line} (rewrites: {[p for p, _ in t['rewrites']]})")
    return status, notes
