#!/bin/bash
# collect_mut.sh <PID> [tag]: copy the sub-agent's mutations into seeded/, confirm them, run detection (quick tier)
P=$1; TAG=${2:--$P}
for i in 1 2 3; do
  if [ -d /tmp/wt/$P/MUTATIONS/m$i ]; then
    mkdir -p /verif/seeded/$P-m$i
    cp /tmp/wt/$P/MUTATIONS/m$i/{patch.diff,demo.diff,notes.md} /verif/seeded/$P-m$i/ 2>/dev/null
  fi
done
git -C /repo worktree remove --force /tmp/wt/$P 2>/dev/null
cd /verif
VERIF_DETECT_TAG=$TAG python3 lib/seeded.py confirm $P-m1 $P-m2 $P-m3
VERIF_DETECT_TAG=$TAG python3 lib/seeded.py detect $P-m1 $P-m2 $P-m3
git -C /repo worktree remove --force /tmp/wt/detect$TAG 2>/dev/null
rm -rf /verif/.work/*-detect$TAG /verif/.work/detect-evidence$TAG /verif/.work/detect-replays$TAG /verif/.work/gen-detect$TAG
