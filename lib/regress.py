#!/usr/bin/env python3
"""Re-introduce each repaired defect and make sure its check reports it again.

For every `fix:` commit of /repo that known_findings.json records as "fixed: property=<id> <commit> ...", the reverse of
that commit is applied on top of /repo HEAD in a scratch worktree (never in /repo itself) and the registered check of the
property is run against it (evidence and replays of these runs go to .work, not to /verif/evidence).  Expected: exit 1.
Results are written to /verif/seeded/regressions.json.

  regress.py [commit ...] [-t]      (default: all fixed entries; -t = thorough tier)
"""
import json
import os
import re
import subprocess
import sys
import time

VERIF = os.path.dirname(os.path.dirname(os.path.abspath(__file__)))
REPO = "/repo"
TAG = os.environ.get("VERIF_DETECT_TAG", "-regress")
WT = "/tmp/wt/regress" + TAG
OUT = os.path.join(VERIF, "seeded", "regressions.json")


def sh(cmd, cwd=None, timeout=4 * 3600, env=None):
    e = dict(os.environ)
    e["CARGO_NET_OFFLINE"] = "true"
    if env:
        e.update(env)
    p = subprocess.run(cmd, shell=True, cwd=cwd, text=True, capture_output=True, timeout=timeout, env=e)
    return p.returncode, p.stdout + p.stderr


def main():
    args = sys.argv[1:]
    tier = "quick"
    if "-t" in args:
        tier = "thorough"
        args.remove("-t")
    known = json.load(open(os.path.join(VERIF, "known_findings.json")))
    entries = []
    for line in known["fixed"]:
        m = re.match(r"fixed: property=(C\d+) ([0-9a-f]{7,}) (.*)$", line)
        if m:
            entries.append((m.group(2), m.group(1), m.group(3)))
    if args:
        entries = [e for e in entries if e[0] in args]
    results = json.load(open(OUT)) if os.path.exists(OUT) else {}
    if not os.path.isdir(WT):
        os.makedirs(os.path.dirname(WT), exist_ok=True)
        rc, out = sh(f"git -C {REPO} worktree add --detach {WT} HEAD")
        assert rc == 0, out
    env = dict(VERIF_REPO=WT, VERIF_KANI_TARGET_SUFFIX="-detect" + TAG,
               VERIF_EVIDENCE_DIR=os.path.join(VERIF, ".work", "detect-evidence" + TAG),
               VERIF_REPLAY_DIR=os.path.join(VERIF, ".work", "detect-replays" + TAG))
    os.makedirs(env["VERIF_EVIDENCE_DIR"], exist_ok=True)
    for commit, pid, what in entries:
        sh("git reset -q --hard && git checkout -q --detach $(git -C /repo rev-parse HEAD) && git reset -q --hard && git clean -fdq", cwd=WT)
        subject = sh(f"git -C {REPO} log --format=%s -1 {commit}")[1].strip()
        rc, out = sh(f"git -C {REPO} diff {commit} {commit}~1 -- crates | git apply -3 -", cwd=WT)
        rec = dict(property=pid, fix=subject, what=what[:200], tier=tier, repo_head=sh(f"git -C {REPO} rev-parse --short HEAD")[1].strip())
        if rc != 0 or "with conflicts" in out:
            rec.update(applies=False, note="the reverse of this commit no longer applies on HEAD (later fixes rewrote the same lines)")
            print(commit, pid, "reverse patch does not apply", flush=True)
        else:
            t0 = time.time()
            rc, out = sh(f"./check {pid} --tier {tier}", cwd=VERIF, env=env)
            violated = re.findall(r"^violated: (.*)$", out, re.M)
            rec.update(applies=True, exit=rc, detected=(rc == 1), violated=[v[:300] for v in violated[:4]], wall_s=round(time.time() - t0))
            print(commit, pid, "exit", rc, "|", (violated[0][:160] if violated else out.strip().splitlines()[-1][:160]), flush=True)
        results[commit] = rec
        sh("git reset -q --hard && git clean -fdq", cwd=WT)
        json.dump(results, open(OUT, "w"), indent=1)
    sh(f"git -C {REPO} worktree remove --force {WT}")


if __name__ == "__main__":
    main()
