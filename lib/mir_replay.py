"""Native replay of mirsym counterexamples: pre-load the model's lease table into the real Pool (in-memory SQLite,
timestamps shifted to the real clock), run the real allocate_address / get_pool_metrics, and re-evaluate the
violated claim on what the real code returned."""
import json
import os
import re
import subprocess

import z3

import common
from common import REPO, WORK, KANI_DIR


def run_native(script_lines, logdir, tag, test="isomer_erbium_replay_pool"):
    os.makedirs(logdir, exist_ok=True)
    spath = os.path.join(logdir, f"{tag}.replay-script.txt")
    open(spath, "w").write("\n".join(script_lines) + "\n")
    env = dict(os.environ)
    env.update({k: v for k, v in common.extract_env().items() if not k.endswith("_ERR") and not k.startswith("_")})
    env.setdefault("VERIF_C16_MIN_COST", "0")
    env["ISOMER_ERBIUM_VERIF_DIR"] = KANI_DIR
    env["CARGO_NET_OFFLINE"] = "true"
    env["CARGO_TARGET_DIR"] = os.path.join(WORK, "replay-target" + os.environ.get("VERIF_KANI_TARGET_SUFFIX", ""))
    env["VERIF_REPLAY_FILE"] = spath
    env.pop("RUSTUP_TOOLCHAIN", None)
    cmd = ["cargo", "test", "--offline", "-p", "erbium-core", "--features", "isomer_erbium_verif", "--lib",
           test, "--", "--nocapture", "--test-threads", "1"]
    p = subprocess.run(cmd, cwd=REPO, env=env, text=True, capture_output=True, timeout=3600)
    out = p.stdout + p.stderr
    open(os.path.join(logdir, f"{tag}.replay.log"), "w").write(out)
    lines = [m.group(1) for m in (re.search(r"REPLAY (.*)$", l) for l in out.splitlines()) if m]
    if not any(l.startswith("result") for l in lines):
        return None, out[-400:]
    return lines, ""


def script_of(cex, op="allocate"):
    t = cex["clock"][0] if cex.get("clock") else 0
    lines = [f"client {cex['client']}"]
    for r in cex["rows"]:
        lines.append(f"row {r['address']} {r['client']} {r['start'] - t} {r['expiry'] - t}")
    if cex.get("requested") is not None:
        lines.append(f"req {cex['requested']}")
    if cex.get("pool"):
        lines.append("pool " + " ".join(str(p) for p in cex["pool"]))
    lines.append(f"min {cex.get('min_lease', 300)}")
    lines.append(f"max {cex.get('max_lease', 86400)}")
    lines.append(f"op {op}")
    return lines


def concrete_check(pid, cex, lines, claim_name):
    """re-evaluate the claims of `pid` on the real outcome; returns (violated_names, note)"""
    from mirsym import props_pool, sqlmodel
    from mirsym.values import Adt, BV, Tup
    now = 0
    res = None
    post_rows = []
    for l in lines:
        w = l.split()
        if w[0] == "now":
            now = int(w[1])
        elif w[0] == "result":
            res = w[1:]
        elif w[0] == "row":
            post_rows.append((int(w[1]), int(w[2]), int(w[3]), int(w[4])))
    bv = lambda v, w=64: z3.BitVecVal(v, w)  # noqa
    t = cex["clock"][0] if cex.get("clock") else 0

    def mkrow(a, c, s, e):
        return sqlmodel.Row(z3.BoolVal(True), bv(a, 32), bv(c, 32), bv(now + s), bv(now + e))
    absent = sqlmodel.Row(z3.BoolVal(False), bv(0, 32), bv(0, 32), bv(0), bv(0))
    pre = [mkrow(r["address"], r["client"], r["start"] - t, r["expiry"] - t) for r in cex["rows"]]
    n = max(len(pre), len(post_rows)) + 1
    pre_by_addr = {r["address"]: i for i, r in enumerate(cex["rows"])}
    # align post rows with pre slots by address
    post = [absent] * n
    pre = pre + [absent] * (n - len(pre))
    free = [i for i in range(n) if i >= len(cex["rows"])]
    for (a, c, s, e) in post_rows:
        i = pre_by_addr.get(a)
        if i is None:
            i = free.pop(0)
        post[i] = mkrow(a, c, s, e)
    env = dict(pre=pre, table=post, client=bv(cex["client"], 32), pool=[bv(p, 32) for p in cex.get("pool", [])],
               requested=(bv(cex["requested"], 32) if cex.get("requested") is not None else None),
               clock_reads=[bv(now), bv(now)], min=bv(cex.get("min_lease", 300)), max=bv(cex.get("max_lease", 86400)),
               writes=0 if [(r["address"], r["client"], r["start"] - t, r["expiry"] - t) for r in cex["rows"]] == [tuple(x) for x in post_rows] else 1)
    if pid == "C20":
        act = sum(1 for r in cex["rows"] if r["expiry"] - t > 0)
        exp = sum(1 for r in cex["rows"] if r["expiry"] - t <= 0)
        if res[0] == "ok":
            bad = []
            if int(res[1]) != act:
                bad.append("first gauge value = number of leases whose expiry lies in the future")
            if int(res[2]) != exp:
                bad.append("second gauge value = number of leases whose expiry has passed")
            return bad, f"real result {res}, expected ({act}, {exp})"
        return ["gauges are reported for every lease table, including the empty one"], f"real result {res}"
    if res[0] == "ok":
        lt = res[4]
        val = Adt("Result", "Ok", [Adt("Lease", None, [Adt("Ipv4Addr", None, [BV(bv(int(res[1]), 32))]),
                                                        Adt("Duration", None, [BV(bv(int(res[2]))), BV(bv(int(res[3]), 32))]),
                                                        Adt("LeaseType", lt, [])])])
        sig = "ok:" + lt
    else:
        val = Adt("Result", "Err", [Adt("pool::Error", res[1], [])])
        sig = "err:" + res[1]
    violated = []
    for claim in props_pool.claims_for_path(pid, "return", val, env):
        name, formula = claim[0], claim[1]
        v = z3.simplify(formula)
        if z3.is_false(v):
            violated.append(name)
        elif not z3.is_true(v):
            s = z3.Solver()
            s.add(z3.Not(formula))
            if s.check() == z3.sat:
                violated.append(name)
    return violated, f"real outcome {sig} {res}"


def replay_cache(pid, name, desc, cex, logdir, rpath):
    """cache counterexample: ttls per section (shape from the obligation), elapsed time, key equality"""
    shape = cex.get("shape", [len(cex["ttls"]), 0, 0])
    ttls = list(cex["ttls"])
    parts = []
    for n in shape:
        parts.append(",".join(str(t) for t in ttls[:n]))
        ttls = ttls[n:]
    bs, bn = cex["birth"]
    ns, nn = cex["now"]
    tot = (ns * 10**9 + nn) - (bs * 10**9 + bn)
    es, en = divmod(max(tot, 0), 10**9)
    same = cex.get("keys_equal") == "True"
    script = ["ttls " + ";".join(parts), f"elapsed {es} {en}", f"same {1 if same else 0}"]
    json.dump(dict(property=pid, obligation=name, claim=desc, counterexample=cex, script=script, kind="cache",
                   how="/verif/check %s --replay %s" % (pid, rpath)), open(rpath, "w"), indent=1)
    lines, errtxt = run_native(script, logdir, name, test="isomer_erbium_replay_cache")
    if lines is None:
        return None, rpath, "native replay did not run: " + errtxt.replace("\n", " ")[-200:]
    res = [l for l in lines if l.startswith("result")][0].split()
    life = [l for l in lines if l.startswith("lifetime")][0].split()
    allt = cex["ttls"]
    minttl = min(allt) if allt else 0
    within = (es < minttl) or (es == minttl and en == 0)
    bad = []
    if (int(life[1]), int(life[2])) != (minttl, 0):
        bad.append("lifetime != min TTL")
    if res[1] == "panic":
        bad.append("panic")
    elif res[1] == "hit":
        if not same:
            bad.append("hit for a different key")
        if not within:
            bad.append("served past its TTL")
        got = [int(x) for part in res[2].split(";") for x in part.split(",") if x]
        if got != [t - es for t in allt]:
            bad.append(f"served TTLs {got} != original - {es}")
    elif res[1] == "miss" and same and within:
        bad.append("unexpired identical entry not served")
    note = f"real cache code: lifetime {life[1:]}, result {res[1:]}"
    if bad:
        return True, rpath, "reproduced: " + "; ".join(bad) + " (" + note + ")"
    return False, rpath, "real code satisfies the claims (" + note + ")"


def replay_router(pid, name, desc, cex, logdir, rpath):
    def dom(labels):
        return ".".join(str(b) for b in labels) if labels else "-"
    script = []
    for i, r in enumerate(cex["routes"]):
        script.append("route %s %d %s" % ("nx" if r["action"] == "forge-nxdomain" else "fwd", 100 + i, " ".join(dom(s) for s in r["suffixes"])))
    script.append("query %s %d" % (dom(cex["query"]), 1 if cex["rd"] == "True" else 0))
    json.dump(dict(property=pid, obligation=name, claim=desc, counterexample=cex, script=script, kind="router",
                   how="/verif/check %s --replay %s" % (pid, rpath)), open(rpath, "w"), indent=1)
    lines, errtxt = run_native(script, logdir, name, test="isomer_erbium_replay_router")
    if lines is None:
        return None, rpath, "native replay did not run: " + errtxt.replace("\n", " ")[-200:]
    res = [l for l in lines if l.startswith("result")][0].split()[1:]
    low = lambda b: b + 32 if 65 <= b <= 90 else b  # noqa
    q = cex["query"]
    best = None
    for i, r in enumerate(cex["routes"]):
        for s in r["suffixes"]:
            if len(s) <= len(q) and all(low(a) == low(b) for a, b in zip(s, q[len(q) - len(s):])):
                act = ("nx", None) if r["action"] == "forge-nxdomain" else ("fwd", 100 + i)
                if best is None or len(s) > best[0]:
                    best = (len(s), act, False)
                elif len(s) == best[0] and act != best[1]:
                    best = (best[0], best[1], True)
    rd = cex["rd"] == "True"
    if best is None:
        want = ["NoRouteConfigured"]
    elif best[2]:
        want = None
    elif best[1][0] == "nx":
        want = ["Blocked"]
    else:
        want = ["forwarded", str(best[1][1])] if rd else ["NotAuthoritative"]
    note = f"real (lifted) router code answered {res}, the longest matching suffix requires {want}"
    if want is not None and res != want:
        return True, rpath, "reproduced: " + note
    return False, rpath, note


def replay_cex(pid, name, desc, cex, logdir):
    """-> (reproduced bool|None, replay path, note)"""
    rdir = os.path.join(common.REPLAY_DIR, pid)
    os.makedirs(rdir, exist_ok=True)
    rpath = os.path.join(rdir, name + ".json")
    if "routes" in cex:
        return replay_router(pid, name, desc, cex, logdir, rpath)
    if "kind" in cex and "msgtype" in cex:
        json.dump(dict(property=pid, obligation=name, claim=desc, counterexample=cex,
                       how="re-run: /verif/check %s --only %s" % (pid, name)), open(rpath, "w"), indent=1)
        return None, rpath, "counterexample is a DHCP message + policy outcome for handle_pkt (see file); no native replay driver for handler-level obligations"
    if "layout" in cex or ("shape" in cex and "size" in cex):
        json.dump(dict(property=pid, obligation=name, claim=desc, counterexample=cex,
                       how="re-run: /verif/check %s --only %s" % (pid, name)), open(rpath, "w"), indent=1)
        return None, rpath, "counterexample is a DNS message shape + size limit (see file); no native replay driver for codec obligations"
    if "acl_verdict" in cex:
        json.dump(dict(property=pid, obligation=name, claim=desc, counterexample=cex,
                       how="re-run: /verif/check %s --only %s" % (pid, name)), open(rpath, "w"), indent=1)
        return None, rpath, "counterexample is a path through the lifted ACL gate (arbitrary ACL verdict); no native replay"
    if "ttls" in cex:
        return replay_cache(pid, name, desc, cex, logdir, rpath)
    if "client" not in cex:
        json.dump(dict(property=pid, obligation=name, claim=desc, counterexample=cex,
                       how="re-run: /verif/check %s --only %s" % (pid, name)), open(rpath, "w"), indent=1)
        return None, rpath, "counterexample is the solver's assignment for this obligation's symbolic inputs (see file); no native replay driver for this obligation"
    op = "metrics" if pid == "C20" else "allocate"
    json.dump(dict(property=pid, obligation=name, claim=desc, counterexample=cex, script=script_of(cex, op),
                   how="/verif/check %s --replay %s" % (pid, rpath)), open(rpath, "w"), indent=1)
    lines, errtxt = run_native(script_of(cex, op), logdir, name)
    if lines is None:
        return None, rpath, "native replay did not run: " + errtxt.replace("\n", " ")[-200:]
    violated, note = concrete_check(pid, cex, lines, desc)
    base = re.sub(r" \[.*$", "", desc)
    if base in violated or (violated and not base):
        return True, rpath, "reproduced on the real Pool: " + note
    if violated:
        return True, rpath, f"real Pool violates {violated} ({note})"
    return False, rpath, "real Pool satisfies the claim: " + note


def replay_file(pid, path, logdir):
    d = json.load(open(path))
    ok, _, note = replay_cex(d["property"], d["obligation"], d["claim"], d["counterexample"], logdir)
    print(f"replay {path}: reproduced={ok} ({note})")
    return 1 if ok else 0
