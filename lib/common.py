"""Shared helpers for the /verif runner: paths, harness index, source extraction."""
import json
import os
import re
import subprocess
import sys
import time

VERIF = os.path.dirname(os.path.dirname(os.path.abspath(__file__)))
REPO = os.environ.get("VERIF_REPO", "/repo")
WORK = os.path.join(VERIF, ".work")
KANI_DIR = os.path.join(VERIF, "kani")
EVIDENCE_DIR = os.environ.get("VERIF_EVIDENCE_DIR", os.path.join(VERIF, "evidence"))
REPLAY_DIR = os.environ.get("VERIF_REPLAY_DIR", os.path.join(VERIF, "replays"))
KNOWN_FINDINGS = os.path.join(VERIF, "known_findings.json")

# harness file (under kani/) -> (cargo package, rust module path of the hook module's parent)
HOOK_FILES = {
    "core_root": ("erbium-core", ""),
    "acl": ("erbium-core", "acl"),
    "config": ("erbium-core", "config"),
    "http": ("erbium-core", "http"),
    "dns_mod": ("erbium-core", "dns"),
    "dns_dnspkt": ("erbium-core", "dns::dnspkt"),
    "dns_parse": ("erbium-core", "dns::parse"),
    "dns_bucket": ("erbium-core", "dns::bucket"),
    "dns_cache": ("erbium-core", "dns::cache"),
    "dns_router": ("erbium-core", "dns::router"),
    "dns_acl": ("erbium-core", "dns::acl"),
    "dns_outquery": ("erbium-core", "dns::outquery"),
    "dns_config": ("erbium-core", "dns::config"),
    "dhcp_mod": ("erbium-core", "dhcp"),
    "dhcp_dhcppkt": ("erbium-core", "dhcp::dhcppkt"),
    "dhcp_pool": ("erbium-core", "dhcp::pool"),
    "dhcp_config": ("erbium-core", "dhcp::config"),
    "radv_mod": ("erbium-core", "radv"),
    "radv_icmppkt": ("erbium-core", "radv::icmppkt"),
    "radv_config": ("erbium-core", "radv::config"),
    "lldp_lldppkt": ("erbium-core", "lldp::lldppkt"),
    "lldp_mod": ("erbium-core", "lldp"),
    "pktparser": ("erbium-core", "pktparser"),
    "net_lib": ("erbium-net", ""),
    "net_packet": ("erbium-net", "packet"),
    "net_socket": ("erbium-net", "socket"),
    "net_addr": ("erbium-net", "addr"),
    "net_udp": ("erbium-net", "udp"),
    "net_raw": ("erbium-net", "raw"),
    "net_netinfo": ("erbium-net", "netinfo"),
}

VERIF_RE = re.compile(
    r"///\s*VERIF:\s*(\{.*\})\s*\n((?:\s*#\[[^\n]*\]\s*\n)*)\s*(?:pub\s+)?fn\s+([A-Za-z0-9_]+)"
)


def load_harnesses():
    """Scan kani/*.rs for `/// VERIF: {json}` lines followed by a proof harness."""
    out = []
    for stem, (pkg, modpath) in sorted(HOOK_FILES.items()):
        path = os.path.join(KANI_DIR, stem + ".rs")
        if not os.path.exists(path):
            continue
        src = open(path).read()
        for m in VERIF_RE.finditer(src):
            meta = json.loads(m.group(1))
            attrs = m.group(2)
            name = m.group(3)
            if "kani::proof" not in attrs:
                raise SystemExit(f"{path}: VERIF line for {name} not followed by #[kani::proof]")
            prefix = (modpath + "::" if modpath else "") + "isomer_erbium_verif::k::"
            meta.update(
                name=name,
                full=prefix + name,
                file=path,
                line=src[: m.start()].count("\n") + 1,
                package=pkg,
                stubbing="kani::stub" in attrs,
            )
            meta.setdefault("tier", "quick")
            meta.setdefault("stubs", [])
            meta.setdefault("covers", 0)
            out.append(meta)
    names = [h["name"] for h in out]
    dup = {n for n in names if names.count(n) > 1}
    if dup:
        raise SystemExit(f"duplicate harness names: {dup}")
    return out


def read_repo(rel):
    with open(os.path.join(REPO, rel)) as f:
        return f.read()


class Inconclusive(Exception):
    pass


def extract_env():
    """Values taken from /repo's current source on every run and handed to harnesses via env!()."""
    env = {}
    # C16: minimum cost charged by should_ratelimit: std::cmp::max( <expr>, N )
    try:
        src = read_repo("crates/erbium-core/src/dns/mod.rs")
        body = src[src.index("async fn should_ratelimit"):]
        body = body[: body.index("\n    }\n")]
        m = re.search(r"let\s+cost\s*=\s*std::cmp::max\((.*?),\s*([0-9_]+)\s*,?\s*\)\s*;", body, re.S)
        if m:
            env["VERIF_C16_MIN_COST"] = m.group(2).replace("_", "")
        else:
            env["VERIF_C16_MIN_COST_ERR"] = "pattern `let cost = std::cmp::max(<expr>, <N>)` not found in should_ratelimit"
    except Exception as e:  # noqa
        env["VERIF_C16_MIN_COST_ERR"] = f"extraction failed: {e}"
    # async-inline logic lifted into synchronous fns (regenerated from source on every run)
    import lift
    status, notes = lift.generate()
    env["VERIF_GEN_DIR"] = lift.GEN_DIR
    owners = {"router_handle_query": ["C15"], "dnsacl_handle_query": ["C08"], "ratelimiter_check": ["C05", "C16"],
              "should_ratelimit": ["C16"], "create_in_reply": ["C03"], "cache_handle_query": ["C06"]}
    for name, err in status.items():
        if err:
            for pid in owners.get(name, []):
                env[f"VERIF_{pid}_LIFT_{name.upper()}_ERR"] = f"lifting {name}: {err}"
    env["_LIFT_NOTES"] = "\n".join(notes)
    return env


def now():
    return time.time()


def run(cmd, **kw):
    return subprocess.run(cmd, text=True, capture_output=True, **kw)


def eprint(*a):
    print(*a, file=sys.stderr, flush=True)
