#!/usr/bin/env python3
"""Seeded-mutation bookkeeping.

  seeded.py confirm <id>...   in a scratch worktree of /repo HEAD: demo alone passes, patch alone keeps the
                              suite green, patch+demo fails exactly the demo.  Writes meta.json.
  seeded.py detect  <id>...   apply patch.diff to /repo, run ./check <property> (quick, or --tier thorough with
                              -t), undo it straight afterwards; records the outcome in meta.json.
"""
import json
import os
import re
import subprocess
import sys
import time

VERIF = os.path.dirname(os.path.dirname(os.path.abspath(__file__)))
SEEDED = os.path.join(VERIF, "seeded")
REPO = "/repo"
WT = "/tmp/wt/confirm" + os.environ.get("VERIF_DETECT_TAG", "")


def sh(cmd, cwd=None, timeout=3600, env=None):
    e = dict(os.environ)
    e["CARGO_NET_OFFLINE"] = "true"
    if env:
        e.update(env)
    p = subprocess.run(cmd, shell=True, cwd=cwd, text=True, capture_output=True, timeout=timeout, env=e)
    return p.returncode, p.stdout + p.stderr


def run_suite(wt):
    rc, out = sh("cargo test --workspace --no-fail-fast --offline 2>&1", cwd=wt)
    passed = sum(int(x) for x in re.findall(r"test result: \w+\. (\d+) passed", out))
    failed_names = sorted(set(re.findall(r"^test (\S+) \.\.\. FAILED", out, re.M)))
    compiled = "error: could not compile" not in out and "error[E" not in out
    return dict(compiled=compiled, passed=passed, failed=failed_names)


def load_meta(mid):
    p = os.path.join(SEEDED, mid, "meta.json")
    return json.load(open(p)) if os.path.exists(p) else {}


def save_meta(mid, meta):
    with open(os.path.join(SEEDED, mid, "meta.json"), "w") as f:
        json.dump(meta, f, indent=1)


def confirm(mid):
    d = os.path.join(SEEDED, mid)
    meta = load_meta(mid)
    if not os.path.isdir(WT):
        os.makedirs(os.path.dirname(WT), exist_ok=True)
        rc, out = sh(f"git -C {REPO} worktree add --detach {WT} HEAD")
        assert rc == 0, out
        sh(f"cp -r {REPO}/target {WT}/target")
    sh("git checkout -q --detach $(git -C /repo rev-parse HEAD) && git checkout -- . && git clean -fdq -e target", cwd=WT)
    res = {}
    rc, out = sh(f"git apply {d}/demo.diff", cwd=WT)
    res["demo_applies"] = rc == 0
    res["demo_only"] = run_suite(WT)
    rc, out = sh(f"git apply {d}/patch.diff", cwd=WT)
    res["patch_applies"] = rc == 0
    res["patch_and_demo"] = run_suite(WT)
    sh("git checkout -- . && git clean -fdq -e target", cwd=WT)
    sh(f"git apply {d}/patch.diff", cwd=WT)
    res["patch_only"] = run_suite(WT)
    sh("git checkout -- . && git clean -fdq -e target", cwd=WT)
    base = res["patch_only"]["passed"]
    ok = (res["demo_applies"] and res["patch_applies"]
          and res["demo_only"]["compiled"] and not res["demo_only"]["failed"]
          and res["patch_only"]["compiled"] and not res["patch_only"]["failed"]
          and res["patch_and_demo"]["compiled"] and len(res["patch_and_demo"]["failed"]) >= 1
          and res["demo_only"]["passed"] > base - 1)
    meta.update(id=mid, property=mid.split("-")[0][:3], confirmed=ok, confirmation=res,
                repo_head=sh(f"git -C {REPO} rev-parse --short HEAD")[1].strip(),
                what_ran="scratch worktree of /repo HEAD: `cargo test --workspace --no-fail-fast --offline` with demo.diff only, "
                         "with patch.diff only, and with both")
    notes = os.path.join(d, "notes.md")
    if os.path.exists(notes) and "needs" not in meta:
        meta["needs"] = open(notes).read()[:1500]
    save_meta(mid, meta)
    print(mid, "CONFIRMED" if ok else "NOT CONFIRMED", "demo failing:", res["patch_and_demo"]["failed"])
    return ok


TAG = os.environ.get("VERIF_DETECT_TAG", "")
DETECT_WT = "/tmp/wt/detect" + TAG


def detect(mid, tier="quick", props=None):
    """Runs the registered check against the mutation in a scratch worktree of /repo HEAD (so concurrent work on
    /repo is not disturbed); evidence and replays of these runs go to .work/detect-* and never to /verif/evidence."""
    d = os.path.join(SEEDED, mid)
    meta = load_meta(mid)
    if not os.path.isdir(DETECT_WT):
        os.makedirs(os.path.dirname(DETECT_WT), exist_ok=True)
        rc, out = sh(f"git -C {REPO} worktree add --detach {DETECT_WT} HEAD")
        assert rc == 0, out
    sh("git checkout -q --detach $(git -C /repo rev-parse HEAD) && git checkout -- . && git clean -fdq", cwd=DETECT_WT)
    pid = mid.split("-")[0][:3]
    results = {}
    env = dict(VERIF_REPO=DETECT_WT, VERIF_KANI_TARGET_SUFFIX="-detect" + TAG,
               VERIF_EVIDENCE_DIR=os.path.join(VERIF, ".work", "detect-evidence" + TAG),
               VERIF_REPLAY_DIR=os.path.join(VERIF, ".work", "detect-replays" + TAG))
    os.makedirs(env["VERIF_EVIDENCE_DIR"], exist_ok=True)
    try:
        rc, out = sh(f"git apply {d}/patch.diff", cwd=DETECT_WT)
        assert rc == 0, "patch does not apply: " + out
        for p in (props or [pid]):
            t0 = time.time()
            rc, out = sh(f"./check {p} --tier {tier}", cwd=VERIF, timeout=4 * 3600, env=env)
            viol = re.findall(r"^VIOLATION .*$", out, re.M)
            violated = re.findall(r"^violated: (.*)$", out, re.M)
            results[p] = dict(exit=rc, violation_lines=viol, violated=violated[:6], wall_s=round(time.time() - t0),
                              tail=out.strip().splitlines()[-12:])
            print(mid, p, tier, "exit", rc, "|", "; ".join(v[:140] for v in violated[:2]) if violated else out.strip().splitlines()[-1][:200], flush=True)
    finally:
        sh("git checkout -- . && git clean -fdq", cwd=DETECT_WT)
    meta.setdefault("detection", {})[tier] = results
    meta["detected"] = any(r["exit"] == 1 for t in meta["detection"].values() for r in t.values())
    save_meta(mid, meta)
    return results


def main():
    cmd = sys.argv[1]
    args = sys.argv[2:]
    tier = "quick"
    if "-t" in args:
        tier = "thorough"
        args.remove("-t")
    props = None
    for a in list(args):
        if a.startswith("--props="):
            props = a.split("=", 1)[1].split(",")
            args.remove(a)
    if not args:
        args = sorted(os.listdir(SEEDED))
    for mid in args:
        if cmd == "confirm":
            confirm(mid)
        elif cmd == "detect":
            detect(mid, tier, props)
    if cmd == "confirm" and os.path.isdir(WT):
        sh(f"git -C {REPO} worktree remove --force {WT}")


if __name__ == "__main__":
    main()
