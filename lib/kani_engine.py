"""Engine K: run Kani/CBMC harnesses over the real crates and classify the solver's verdicts."""
import fcntl
import os
import re
import shutil
import signal
import subprocess
import threading
import time

from common import REPO, WORK, KANI_DIR, REPLAY_DIR, eprint

CHECK_RE = re.compile(
    r"^Check (\d+): ([^\n]+)\n\t - Status: (\S+)\n\t - Description: \"(.*?)\"\n\t - Location: (.*?)$",
    re.M | re.S,
)

RSS_LIMIT_KB = int(os.environ.get("VERIF_CBMC_RSS_GB", "14")) * 1024 * 1024


def _watchdog(stop, killed):
    """Kill any cbmc process whose resident set exceeds the cap (memory-bound box, no swap)."""
    while not stop.wait(5):
        try:
            out = subprocess.run(["ps", "-eo", "pid,rss,comm"], text=True, capture_output=True).stdout
        except Exception:
            continue
        for line in out.splitlines()[1:]:
            parts = line.split()
            if len(parts) >= 3 and parts[2] in ("cbmc", "cadical", "kissat") and int(parts[1]) > RSS_LIMIT_KB:
                try:
                    os.kill(int(parts[0]), signal.SIGKILL)
                    killed.append(int(parts[0]))
                except OSError:
                    pass


def classify_failed(name, desc):
    d = desc.lower()
    if "unwinding assertion" in d:
        return "unwind"
    if "unsupported_construct" in name or "not currently supported by kani" in d:
        return "unsupported"
    if "recursion unwinding" in d:
        return "unwind"
    if "lifting failed" in d:
        # lib/lift.py did not find its anchor text in the current source: nothing of the real code was checked
        return "unsupported"
    return "violation"


def parse_result(path):
    """-> dict(verdict, failed, n_checks, covers_sat, covers_total, time_s, reason)"""
    res = dict(verdict="inconclusive", failed=[], n_checks=0, covers_sat=0, covers_total=0,
               time_s=None, reason="", unreachable_covers=[])
    if not os.path.exists(path):
        res["reason"] = "no result file (build error, timeout or killed)"
        return res
    txt = open(path, errors="replace").read()
    m = re.search(r"Verification Time: ([0-9.]+)s", txt)
    if m:
        res["time_s"] = float(m.group(1))
    checks = CHECK_RE.findall(txt)
    res["n_checks"] = len(checks)
    viol, soft = [], []
    for (_n, name, status, desc, loc) in checks:
        desc1 = " ".join(desc.split()).strip('"')
        if ".cover." in name or status in ("SATISFIED", "UNSATISFIED", "UNREACHABLE") and "cover" in name:
            res["covers_total"] += 1
            if status == "SATISFIED":
                res["covers_sat"] += 1
            else:
                res["unreachable_covers"].append(desc1)
            continue
        if status == "FAILURE":
            kind = classify_failed(name, desc1)
            entry = dict(check=name, description=desc1, location=" ".join(loc.split()), kind=kind)
            (viol if kind == "violation" else soft).append(entry)
        elif status in ("UNDETERMINED", "ERROR"):
            soft.append(dict(check=name, description=desc1, location=" ".join(loc.split()), kind="undetermined"))
    res["failed"] = viol + soft
    vm = re.search(r"VERIFICATION:- (\w+)", txt)
    if "CBMC timed out" in txt:
        res["reason"] = "solver timeout (CBMC timed out within the per-harness cap)"
        return res
    if "CBMC failed" in txt and not checks:
        res["reason"] = "CBMC failed without results (out of memory / killed / internal error)"
        return res
    if not vm:
        res["reason"] = "no VERIFICATION line (timeout / out of memory / crash)"
        return res
    if viol:
        res["verdict"] = "fail"
        return res
    if soft:
        # only bound / unsupported problems: cannot conclude anything
        res["reason"] = "; ".join(sorted({f"{e['kind']}: {e['description']}" for e in soft}))[:400]
        return res
    if vm.group(1) == "SUCCESSFUL":
        res["verdict"] = "pass"
    else:
        res["reason"] = "VERIFICATION:- %s without a failed property (%s)" % (
            vm.group(1), "cover unsatisfied" if res["covers_sat"] < res["covers_total"] else "status error")
        if res["covers_sat"] < res["covers_total"]:
            res["verdict"] = "pass"  # decided below by the vacuity rule
    return res


def target_dir(package):
    # VERIF_KANI_TARGET_SUFFIX: lets an experiment run next to a registered check without sharing its lock
    return os.path.join(WORK, "kani-" + package + os.environ.get("VERIF_KANI_TARGET_SUFFIX", ""))


def run_kani(package, harnesses, env_extra, timeout_s, jobs, log_path, verif_dir=KANI_DIR, extra_args=()):
    """Run one `cargo kani` over `harnesses` (list of meta dicts) of `package`; returns {name: result}."""
    tdir = target_dir(package)
    os.makedirs(tdir, exist_ok=True)
    outdir = os.path.join(tdir, "result_output_dir")
    env = dict(os.environ)
    env.update(env_extra)
    env["ISOMER_ERBIUM_VERIF_DIR"] = verif_dir
    env["CARGO_NET_OFFLINE"] = "true"
    env.pop("RUSTUP_TOOLCHAIN", None)
    cmd = ["cargo", "kani", "-p", package, "--features", "isomer_erbium_verif", "--target-dir", tdir,
           "-Z", "unstable-options", "-Z", "stubbing", "--output-into-files", "--output-format", "terse",
           "-j", str(max(1, jobs)), "--harness-timeout", f"{int(timeout_s)}s", "--exact"]
    cmd += list(extra_args)
    for h in harnesses:
        cmd += ["--harness", h["full"]]
    results = {}
    lockf = open(os.path.join(tdir, ".verif-lock"), "w")
    fcntl.flock(lockf, fcntl.LOCK_EX)
    try:
        for h in harnesses:
            p = os.path.join(outdir, h["full"])
            if os.path.exists(p):
                os.remove(p)
        stop, killed = threading.Event(), []
        wd = threading.Thread(target=_watchdog, args=(stop, killed), daemon=True)
        wd.start()
        t0 = time.time()
        overall = timeout_s * (1 + (len(harnesses) - 1) // max(1, jobs)) + 900
        with open(log_path, "w") as log:
            log.write("$ " + " ".join(cmd) + "\n")
            log.flush()
            try:
                p = subprocess.run(cmd, cwd=REPO, env=env, stdout=log, stderr=subprocess.STDOUT, timeout=overall)
                rc = p.returncode
            except subprocess.TimeoutExpired:
                rc = -9
        stop.set()
        wall = time.time() - t0
        logtxt = open(log_path, errors="replace").read()
        build_failed = ("error: could not compile" in logtxt) or ("error[E" in logtxt) or ("error: failed to" in logtxt)
        for h in harnesses:
            r = parse_result(os.path.join(outdir, h["full"]))
            if build_failed and r["n_checks"] == 0:
                r["verdict"], r["reason"] = "inconclusive", "build failed (see log)"
            if killed and r["verdict"] == "inconclusive" and not r["reason"]:
                r["reason"] = "solver killed by memory watchdog"
            # vacuity rule: every cover!() of a passing harness must be SATISFIED
            if r["verdict"] == "pass":
                if r["covers_sat"] < r["covers_total"] or r["covers_total"] < h.get("covers", 0):
                    r["verdict"] = "inconclusive"
                    r["reason"] = "vacuity witness not satisfied: %s (%d/%d, expected >= %d)" % (
                        r["unreachable_covers"], r["covers_sat"], r["covers_total"], h.get("covers", 0))
            results[h["name"]] = r
        return results, dict(rc=rc, wall_s=wall, build_failed=build_failed, cmd=" ".join(cmd))
    finally:
        fcntl.flock(lockf, fcntl.LOCK_UN)
        lockf.close()


PLAYBACK_TEST_RE = re.compile(
    r"/// Check for `(\w+)`: (.*?)\n\s*(#\[test\]\s*\n\s*fn (kani_concrete_playback_\w+)\(\) \{.*?\n\})\s*\n", re.S)


def _playback_tests(text):
    """Kani prints one unit test per failed check AND per satisfied cover; keep the failed checks only."""
    out = []
    for m in PLAYBACK_TEST_RE.finditer(text):
        cls, desc, src, name = m.group(1), m.group(2).strip(), m.group(3), m.group(4)
        if cls == "cover":
            continue
        out.append((cls, desc, src, name))
    return out


def concrete_playback(package, h, env_extra, timeout_s, log_dir):
    """Ask Kani for a concrete counterexample of a failing harness, splice the generated unit test into a
    scratch copy of the harness directory and run it natively (cargo kani playback, dev and release).
    Returns (reproduced: bool|None, replay_path|None, note)."""
    os.makedirs(log_dir, exist_ok=True)
    tdir = target_dir(package)
    env = dict(os.environ)
    env.update(env_extra)
    env["ISOMER_ERBIUM_VERIF_DIR"] = KANI_DIR
    env["CARGO_NET_OFFLINE"] = "true"
    env.pop("RUSTUP_TOOLCHAIN", None)
    cmd = ["cargo", "kani", "-p", package, "--features", "isomer_erbium_verif", "--target-dir", tdir,
           "-Z", "unstable-options", "-Z", "stubbing", "-Z", "concrete-playback", "--concrete-playback", "print",
           "--harness-timeout", f"{int(timeout_s)}s", "--exact", "--harness", h["full"]]
    lockf = open(os.path.join(tdir, ".verif-lock"), "w")
    fcntl.flock(lockf, fcntl.LOCK_EX)
    try:
        try:
            p = subprocess.run(cmd, cwd=REPO, env=env, text=True, capture_output=True, timeout=timeout_s + 900)
        except subprocess.TimeoutExpired:
            return None, None, "concrete playback generation timed out"
        out = p.stdout + p.stderr
        open(os.path.join(log_dir, h["name"] + ".playback-gen.log"), "w").write(out)
        tests = _playback_tests(out)
        if not tests:
            return None, None, "Kani produced no concrete playback test"
        rdir = os.path.join(REPLAY_DIR, h["p"])
        os.makedirs(rdir, exist_ok=True)
        rpath = os.path.join(rdir, h["name"] + ".rs")
        with open(rpath, "w") as f:
            f.write("// Concrete counterexample produced by Kani for harness %s (%s).\n" % (h["full"], h["file"]))
            f.write("// Replay: /verif/check %s --replay %s\n" % (h["p"], rpath))
            for (cls, desc, src, name) in tests:
                f.write("/// Check for `%s`: %s\n%s\n\n" % (cls, desc, src))
        ok, note = run_playback(package, h, rpath, env_extra, log_dir)
        return ok, rpath, note
    finally:
        fcntl.flock(lockf, fcntl.LOCK_UN)
        lockf.close()


def _enclosing_mod_end(body, harness_name):
    """index of the closing brace of the `mod k {` block that contains `fn <harness_name>(` (strings, chars and comments skipped)"""
    m = re.search(r"\bfn\s+%s\s*\(" % re.escape(harness_name), body)
    if not m:
        return body.rindex("}")
    starts = [x.end() - 1 for x in re.finditer(r"\bmod\s+k\s*\{", body) if x.start() < m.start()]
    if not starts:
        return body.rindex("}")
    i = starts[-1]
    depth = 0
    j = i
    n = len(body)
    while j < n:
        c = body[j]
        nxt = body[j + 1] if j + 1 < n else ""
        if c == "/" and nxt == "/":
            j = body.find("\n", j)
            if j < 0:
                break
            continue
        if c == "/" and nxt == "*":
            j = body.find("*/", j) + 2
            continue
        if c == '"':
            j += 1
            while j < n and body[j] != '"':
                j += 2 if body[j] == "\\" else 1
            j += 1
            continue
        if c == "'":
            mm = re.match(r"'(\\.|[^\\'])'", body[j:j + 4])
            if mm:
                j += len(mm.group(0))
                continue
        if c == "{":
            depth += 1
        elif c == "}":
            depth -= 1
            if depth == 0:
                return j
        j += 1
    return body.rindex("}")


def run_playback(package, h, rpath, env_extra, log_dir):
    """Compile the harness + generated test natively and run it: must panic (= reproduce)."""
    tests = _playback_tests(open(rpath).read() + "\n")
    if not tests:
        return None, "replay file holds no playback test"
    test_src = "\n".join(t[2] for t in tests)
    test_name = "kani_concrete_playback_" + h["name"]
    scratch = os.path.join(WORK, "playback-src-" + h["name"])
    shutil.rmtree(scratch, ignore_errors=True)
    shutil.copytree(KANI_DIR, scratch)
    hf = os.path.join(scratch, os.path.basename(h["file"]))
    body = open(hf).read()
    # the harness lives in a `mod k { ... }`; append the test inside THAT module (other items may follow it in the file)
    idx = _enclosing_mod_end(body, h["name"])
    body = body[:idx] + "\n" + test_src + "\n}\n" + body[idx + 1:]
    open(hf, "w").write(body)
    env = dict(os.environ)
    env.update(env_extra)
    env["ISOMER_ERBIUM_VERIF_DIR"] = scratch
    env["CARGO_NET_OFFLINE"] = "true"
    env["CARGO_TARGET_DIR"] = os.path.join(WORK, "playback-" + package)
    env.pop("RUSTUP_TOOLCHAIN", None)
    notes = []
    reproduced = None
    for profile in ([], ["release-like"]):
        cmd = ["cargo", "kani", "playback", "-Z", "concrete-playback", "-p", package,
               "--features", "isomer_erbium_verif", "--", test_name]
        penv = dict(env)
        if profile:
            # `cargo kani playback` has no --release: emulate the release profile's arithmetic semantics
            # (wrapping instead of panicking, no debug assertions) in a separate target dir
            penv["CARGO_TARGET_DIR"] = env["CARGO_TARGET_DIR"] + "-rel"
            for prof in ("DEV", "TEST"):
                penv[f"CARGO_PROFILE_{prof}_OVERFLOW_CHECKS"] = "false"
                penv[f"CARGO_PROFILE_{prof}_DEBUG_ASSERTIONS"] = "false"
        try:
            p = subprocess.run(cmd, cwd=REPO, env=penv, text=True, capture_output=True, timeout=3600)
        except subprocess.TimeoutExpired:
            notes.append("playback timed out")
            continue
        out = p.stdout + p.stderr
        open(os.path.join(log_dir, h["name"] + ".playback%s.log" % ("-release" if profile else "")), "w").write(out)
        ran = re.search(r"test result: (\w+)\. (\d+) passed; (\d+) failed", out)
        if not ran or (int(ran.group(2)) + int(ran.group(3)) == 0):
            notes.append("playback did not run (%s)" % ("build error" if "error" in out else "no test matched"))
            continue
        failed = int(ran.group(3)) > 0  # any generated test panicking = the violation reproduces
        notes.append("%s: %s" % ("release" if profile else "dev", "panics (reproduced)" if failed else "passes"))
        if failed:
            reproduced = True
        elif reproduced is None:
            reproduced = False
    shutil.rmtree(scratch, ignore_errors=True)
    return reproduced, "; ".join(notes)
