"""C20 (listing half): the host-name fragment of the HTTP lease listing is a JSON string whatever characters the host name holds.

The closure that renders the fragment inside the async serve_leases is lifted verbatim (lib/lift.py) and executed from MIR
together with http::json_string on host names of a CONCRETE NUMBER of characters, each an arbitrary Unicode scalar value.
Strings are modelled as sequences of code points (push / push_str / chars / concat); the output is checked against the
string grammar of RFC 8259 section 7."""
import z3

from .interp import Exec
from .props_pool import check
from .summaries import S, some, NONE, deref, UNIT
from .values import BV, Bool, Adt, Seq, Str, Cell, Ref, Opaque, Unsupported

JS = dict(S)


def jsummary(*names):
    def deco(f):
        for n in names:
            JS[n] = f
        return f
    return deco


def chars_of(v):
    """list of BV32 code points of a string value (concrete Str or symbolic char sequence)"""
    if isinstance(v, Str):
        if v.text is None:
            raise Unsupported("characters of an address string")
        return [BV(z3.BitVecVal(ord(ch), 32)) for ch in v.text]
    if isinstance(v, Seq) and getattr(v, "kind", "") == "chars":
        return list(v.items)
    raise Unsupported(f"characters of {v!r}")


def sym_string(items):
    return Seq(list(items), "chars")


@jsummary("String::with_capacity", "String::new")
def _s_new(ex, c):
    return sym_string([])


def _base(ex, r):
    while isinstance(ex.load(r), Ref):
        r = ex.load(r)
    return r


@jsummary("String::push")
def _s_push(ex, c):
    b = _base(ex, c.args[0])
    cur = ex.load(b)
    ch = c.args[1]
    ex.store(b, sym_string(chars_of(cur) + [BV(ch.t if ch.width == 32 else z3.ZeroExt(32 - ch.width, ch.t))]))
    return UNIT


@jsummary("String::push_str")
def _s_push_str(ex, c):
    b = _base(ex, c.args[0])
    ex.store(b, sym_string(chars_of(ex.load(b)) + chars_of(deref(ex, c.args[1]))))
    return UNIT


@jsummary("core::str::chars", "str::chars")
def _s_chars(ex, c):
    return Opaque("Iter", items=chars_of(deref(ex, c.args[0])))


@jsummary("core::str::len", "str::len", "String::len")
def _s_len(ex, c):
    v = deref(ex, c.args[0])
    if isinstance(v, Str) and v.text is not None:
        return BV(z3.BitVecVal(len(v.text.encode()), 64))
    n = ex.fresh_bv("utf8_len", 64)          # only used as a capacity hint
    nt = n.t if isinstance(n, BV) else n
    ex.assume(z3.ULE(nt, z3.BitVecVal(4 * len(chars_of(v)), 64)))
    return n if isinstance(n, BV) else BV(n)


@jsummary("String::as_str", "<String as Deref>::deref", "<String as AsRef>::as_ref", "<String as Borrow>::borrow")
def _s_as_str(ex, c):
    return deref(ex, c.args[0])


@jsummary("core::slice::concat", "<[&str] as Concat>::concat", "slice::concat", "core::slice::<impl [T]>::concat", "alloc::slice::concat", "alloc::slice::<impl [T]>::concat")
def _s_concat(ex, c):
    seq = deref(ex, c.args[0])
    out = []
    for x in seq.items:
        out += chars_of(deref(ex, x))
    return sym_string(out)


@jsummary("format", "alloc::fmt::format", "std::fmt::format")
def _no_format(ex, c):
    # the text format! produces is not modelled: a fragment built with it cannot be decided here (never reported as a violation)
    raise Unsupported("fragment built with format!: core::fmt is outside the encoder's subset")


def scalar(t):
    return z3.And(z3.ULE(t, 0x10FFFF), z3.Or(z3.ULT(t, 0xD800), z3.UGT(t, 0xDFFF)))


def json_string_claim(items):
    """RFC 8259 section 7 over a sequence whose STRUCTURE characters (quotes, backslashes, escape letters, hex digits) are concrete;
    any other element must be an unescaped character: >= 0x20 and neither '"' nor '\\'"""
    vals = []
    for it in items:
        s_ = z3.simplify(it.t)
        vals.append(s_.as_long() if z3.is_bv_value(s_) else None)
    n = len(vals)
    if n < 2 or vals[0] != 0x22 or vals[-1] != 0x22:
        return z3.BoolVal(False)
    cs = []
    i = 1
    while i < n - 1:
        v = vals[i]
        if v is None:
            t = items[i].t
            cs.append(z3.And(z3.UGE(t, 0x20), t != 0x22, t != 0x5C))
            i += 1
        elif v == 0x5C:
            if i + 1 >= n - 1 or vals[i + 1] is None:
                return z3.BoolVal(False)
            e = vals[i + 1]
            if e == ord("u"):
                hexd = vals[i + 2:i + 6]
                if i + 5 >= n - 1 or any(h is None or chr(h) not in "0123456789abcdefABCDEF" for h in hexd):
                    return z3.BoolVal(False)
                i += 6
            elif chr(e) in '"\\/bfnrt':
                i += 2
            else:
                return z3.BoolVal(False)
        elif v == 0x22 or v < 0x20:
            return z3.BoolVal(False)
        else:
            i += 1
    return z3.And(cs) if cs else z3.BoolVal(True)


PREFIX = ', "host-name": '


def obligation(prog, enums, nchars):
    fns = [f for f in prog.find("lifted_hostname_fragment", 1)]
    if len(fns) != 1:
        raise Unsupported("lifted_hostname_fragment not found in the MIR dump")
    ex = Exec(prog, JS, enums, max_unroll=nchars + 3, timeout_s=300, max_paths=20000)

    def run(e):
        cs = [z3.BitVec(f"ch{i}", 32) for i in range(nchars)]
        for t in cs:
            e.assume(scalar(t))
        e.env["chars"] = cs
        return e.call_fn(fns[0], [sym_string([BV(t) for t in cs])])
    paths = ex.explore(run)
    failed, kinds = [], {}
    for outcome, val, pc, env in paths:
        if outcome == "panic":
            kinds["panic"] = kinds.get("panic", 0) + 1
            claims = [("rendering a host name never panics: " + str(val), z3.BoolVal(False))]
        else:
            items = chars_of(val)
            kinds[len(items)] = kinds.get(len(items), 0) + 1
            pre = items[:len(PREFIX)]
            ok_pre = len(items) >= len(PREFIX) + 2 and all(z3.is_bv_value(z3.simplify(x.t)) and z3.simplify(x.t).as_long() == ord(ch) for x, ch in zip(pre, PREFIX))
            claims = [('the fragment is `, "host-name": ` followed by a JSON string (RFC 8259 section 7: no raw control character, quote or backslash; only the JSON escapes)',
                       json_string_claim(items[len(PREFIX):]) if ok_pre else z3.BoolVal(False))]
        for name, f in claims:
            m = check(ex, pc, f, name)
            if m is not None:
                failed.append(dict(check="", description=name, location="http.rs serve_leases / json_string", kind="violation",
                                   counterexample=dict(hostname_code_points=[m.eval(t, model_completion=True).as_long() for t in env["chars"]],
                                                       outcome=outcome if outcome == "panic" else "rendered %d characters" % len(chars_of(val)))))
    return failed, ex, len(paths), kinds
