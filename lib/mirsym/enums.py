"""Enum variant order, read from /repo's current source (needed to map `discriminant()` numbers to variants)."""
import glob
import os
import re


def scan(repo):
    enums = {}
    for path in glob.glob(os.path.join(repo, "crates", "*", "src", "**", "*.rs"), recursive=True):
        src = open(path).read()
        for m in re.finditer(r"\benum\s+(\w+)\s*(?:<[^>{]*>)?\s*\{", src):
            name = m.group(1)
            i = m.end()
            depth = 1
            variants = []
            cur = []
            while i < len(src) and depth > 0:
                c = src[i]
                if c in "{([":
                    depth += 1
                elif c in "})]":
                    depth -= 1
                    if depth == 0:
                        break
                if depth == 1 and c == ",":
                    variants.append("".join(cur))
                    cur = []
                else:
                    cur.append(c)
                i += 1
            if "".join(cur).strip():
                variants.append("".join(cur))
            names = []
            for v in variants:
                v = re.sub(r"//[^\n]*", "", v)
                v = re.sub(r"/\*.*?\*/", "", v, flags=re.S)
                v = re.sub(r"#\[[^\]]*\]", "", v).strip()
                vm = re.match(r"^(\w+)", v)
                if vm:
                    names.append(vm.group(1))
            enums.setdefault(name, []).append(names)
    # external enums the encoder meets
    enums.setdefault("Error", []).append(["QueryReturnedNoRows", "InvalidColumnType", "InvalidColumnIndex", "IntegralValueOutOfRange", "SqliteFailure"])
    return enums


def scan_structs(repo):
    """struct name -> ordered field names (named-field structs only), from the current source"""
    structs = {}
    for path in glob.glob(os.path.join(repo, "crates", "*", "src", "**", "*.rs"), recursive=True):
        src = open(path).read()
        for m in re.finditer(r"\bstruct\s+(\w+)\s*(?:<[^>{]*>)?\s*\{", src):
            i = m.end()
            depth = 1
            body = []
            while i < len(src) and depth > 0:
                c = src[i]
                if c in "{([<":
                    depth += 1
                elif c in "})]>":
                    if not (c == ">" and src[i - 1] == "-"):
                        depth -= 1
                    if depth == 0:
                        break
                body.append(c if depth >= 1 else "")
                i += 1
            text = "".join(body)
            text = re.sub(r"//[^\n]*", "", text)
            text = re.sub(r"/\*.*?\*/", "", text, flags=re.S)
            text = re.sub(r"#\[[^\]]*\]", "", text)
            fields = []
            d = 0
            cur = []
            for ch in text:
                if ch in "<([{":
                    d += 1
                elif ch in ">)]}":
                    d -= 1
                if ch == "," and d == 0:
                    fields.append("".join(cur))
                    cur = []
                else:
                    cur.append(ch)
            if "".join(cur).strip():
                fields.append("".join(cur))
            names = []
            for f in fields:
                fm = re.match(r"^\s*(?:pub(?:\([^)]*\))?\s+)?(\w+)\s*:", f)
                if fm:
                    names.append(fm.group(1))
            structs.setdefault(m.group(1), []).append(names)
    return structs
