"""Enum variant order, read from /repo's current source (needed to map `discriminant()` numbers to variants)."""
import glob
import os
import re


def scan(repo):
    enums = {}
    for path in glob.glob(os.path.join(repo, "crates", "*", "src", "**", "*.rs"), recursive=True):
        src = open(path).read()
        for m in re.finditer(r"\benum\s+(\w+)\s*(?:<[^>{]*>)?\s*\{", src):
            name = m.group(1)
            i = m.end()
            depth = 1
            variants = []
            cur = []
            while i < len(src) and depth > 0:
                c = src[i]
                if c in "{([":
                    depth += 1
                elif c in "})]":
                    depth -= 1
                    if depth == 0:
                        break
                if depth == 1 and c == ",":
                    variants.append("".join(cur))
                    cur = []
                else:
                    cur.append(c)
                i += 1
            if "".join(cur).strip():
                variants.append("".join(cur))
            names = []
            for v in variants:
                v = re.sub(r"//[^\n]*", "", v)
                v = re.sub(r"/\*.*?\*/", "", v, flags=re.S)
                v = re.sub(r"#\[[^\]]*\]", "", v).strip()
                vm = re.match(r"^(\w+)", v)
                if vm:
                    names.append(vm.group(1))
            enums.setdefault(name, []).append(names)
    # external enums the encoder meets
    enums.setdefault("Error", []).append(["QueryReturnedNoRows", "InvalidColumnType", "InvalidColumnIndex", "IntegralValueOutOfRange", "SqliteFailure"])
    return enums
