"""DNS wire codec from MIR: DNSPkt::serialise_with_size (C04) and parse(serialise(m)) (C14) on messages of concrete
shape (record counts, rdata lengths, label lengths) with symbolic contents and a symbolic size limit."""
import os

import z3

from .interp import Exec
from .props_cache import build, field
from .props_pool import check
from .summaries import S, some, NONE
from .values import BV, Bool, Adt, Seq, Cell, Ref, Opaque, Str, Unsupported


def find(prog, name, nargs, hint):
    fs = [f for f in prog.find(name, nargs) if "{closure" not in f.name and "isomer_erbium_verif" not in f.name and hint in f.name]
    if len(fs) != 1:
        raise Unsupported(f"{name}/{nargs} not found uniquely in the MIR dump ({[f.name for f in fs]})")
    return fs[0]


def label(tag, n):
    return Adt("Label", None, [Seq([BV(z3.BitVec(f"{tag}_{i}", 8)) for i in range(n)])])


def mk_rr(structs, tag, owner_labels, rdlen, sym_bytes=2):
    rd = [BV(z3.BitVec(f"{tag}_rd{i}", 8)) if i < sym_bytes else BV(z3.BitVecVal((i * 7 + 1) & 255, 8)) for i in range(rdlen)]
    ty = z3.BitVec(f"{tag}_type", 16)
    return build(structs, "RR", domain=Adt("Domain", None, [Seq([label(f"{tag}_l{j}", n) for j, n in enumerate(owner_labels)])]),
                 **{"class": Adt("Class", None, [BV(z3.BitVec(f"{tag}_class", 16))])},
                 rrtype=Adt("Type", None, [BV(ty)]), ttl=BV(z3.BitVec(f"{tag}_ttl", 32)),
                 rdata=Adt("RData", "Other", [Seq(rd)])), ty


def mk_msg(e, structs, shape, with_edns, qlabels=(3,), sym_flags=False):
    """shape: ((rdlen,...answers), (authority...), (additional...)); owners are the root name"""
    types = []
    secs = []
    for sname, lens in zip(("an", "ns", "ad"), shape):
        rrs = []
        for i, L in enumerate(lens):
            rr, ty = mk_rr(structs, f"{sname}{i}", (), L)
            rrs.append(rr)
            types.append(ty)
        secs.append(Seq(rrs))
    for ty in types:
        e.assume(z3.And(ty != 41, ty != 6, ty != 2, ty != 5, ty != 12, ty != 15, ty != 17, ty != 18, ty != 21, ty != 35))
    b = (lambda n: Bool(z3.Bool(n))) if sym_flags else (lambda n: Bool(n in ("qr", "ra")))  # noqa
    rcode = z3.BitVec("rcode", 16)
    e.assume(z3.ULE(rcode, 0xFFF))
    opcode = z3.BitVec("opcode", 8)
    e.assume(z3.ULE(opcode, 15))
    q = build(structs, "Question", qdomain=Adt("Domain", None, [Seq([label(f"q{j}", n) for j, n in enumerate(qlabels)])]),
              qclass=Adt("Class", None, [BV(z3.BitVec("qclass", 16))]), qtype=Adt("Type", None, [BV(z3.BitVec("qtype", 16))]))
    pkt = build(structs, "DNSPkt", qid=BV(z3.BitVec("qid", 16)), rd=b("rd"), tc=Bool(False), aa=b("aa"), qr=b("qr"),
                opcode=Adt("Opcode", None, [BV(opcode)]), cd=b("cd"), ad=b("ad"), ra=b("ra"),
                rcode=Adt("RCode", None, [BV(rcode)]), bufsize=BV(z3.BitVec("bufsize", 16)),
                edns_ver=some(BV(z3.BitVec("edns_ver", 8))) if with_edns else NONE(), edns_do=b("do"), question=q,
                answer=secs[0], nameserver=secs[1], additional=secs[2],
                edns=some(Adt("EdnsData", None, [Seq([])])) if with_edns else NONE())
    return pkt


def be16(out, i):
    return z3.Concat(out[i].t, out[i + 1].t)


def size_obligation(prog, enums, structs, shape, with_edns, sym_flags=False, via=None):
    """via=None: serialise_with_size(size) for a symbolic size.  via='udp'/'tcp': the octets the transport sends, computed by the
    expression lifted from run_udp / run_tcp from (reply, query); the limit the claims use is then the PROPERTY's:
    max(512, advertised payload size) for UDP, 65535 for TCP."""
    if via is None:
        fn = find(prog, "serialise_with_size", 2, "dnspkt")
    else:
        fns = [f for f in prog.find(f"lifted_{via}_reply_bytes", 2)]
        if len(fns) != 1:
            raise Unsupported(f"lifted_{via}_reply_bytes not found in the MIR dump")
        fn = fns[0]
    ex = Exec(prog, S, enums, max_unroll=16)
    qlabels = (3,)

    def run(e):
        pkt = mk_msg(e, structs, shape, with_edns, qlabels, sym_flags)
        e.env["pkt"] = pkt
        if via is None:
            size = z3.BitVec("size", 64)
            e.assume(z3.And(z3.UGE(size, 512), z3.ULE(size, 65535)))
            e.env["size"] = size
            return e.call_fn(fn, [Ref(Cell(pkt)), BV(size)])
        adv = z3.BitVec("advertised", 16)
        e.env["adv"] = adv
        e.env["size"] = z3.If(z3.ULT(adv, 512), z3.BitVecVal(512, 64), z3.ZeroExt(48, adv)) if via == "udp" else z3.BitVecVal(65535, 64)
        dn = [f for f in structs["DNSPkt"]][0]
        qv = {n: Opaque("unused") for n in dn}
        qv["bufsize"] = BV(adv)
        query = Adt("DNSPkt", None, [qv[n] for n in dn], list(dn))
        msg = build(structs, "DnsMessage", in_query=query, in_size=BV(z3.BitVec("in_size", 64)), local_ip=Opaque("unused"), remote_addr=Opaque("unused"), protocol=Opaque("unused"))
        return e.call_fn(fn, [Ref(Cell(pkt)), Ref(Cell(msg))])
    paths = ex.explore(run)
    base = 12 + sum(n + 1 for n in qlabels) + 1 + 4
    recs = [(0, 1 + 10 + L) for L in shape[0]] + [(1, 1 + 10 + L) for L in shape[1]] + [(2, 1 + 10 + L) for L in shape[2]]
    if with_edns:
        recs.append((2, 1 + 10))
    prefix = [0]
    for _, s in recs:
        prefix.append(prefix[-1] + s)
    failed, kinds = [], {}
    for outcome, val, pc, env in paths:
        size = env["size"]
        if outcome == "panic":
            kinds["panic"] = kinds.get("panic", 0) + 1
            claims = [("serialising never panics: " + str(val), z3.BoolVal(False))]
        else:
            out = val.items
            n = len(out)
            kinds[n] = kinds.get(n, 0) + 1
            claims = [("response is never larger than the size limit", z3.ULE(z3.BitVecVal(n, 64), size))]
            if n < 12:
                claims.append(("a response has a 12-octet header", z3.BoolVal(False)))
            else:
                conds = []
                for k in range(len(recs) + 1):
                    lo = base + prefix[k]
                    hi = base + prefix[k + 1] if k < len(recs) else None
                    guard = z3.UGE(size, lo) if hi is None else z3.And(z3.UGE(size, lo), z3.ULT(size, hi))
                    cnt = [sum(1 for (sec, _) in recs[:k] if sec == j) for j in range(3)]
                    want = z3.And(z3.BoolVal(n == lo), be16(out, 4) == 1, be16(out, 6) == cnt[0], be16(out, 8) == cnt[1], be16(out, 10) == cnt[2],
                                  (z3.Extract(1, 1, out[2].t) == 1) == z3.BoolVal(k < len(recs)))
                    conds.append(z3.Implies(guard, want))
                claims.append(("whole records are dropped from the end only, header counts match the records present, TC set exactly when a record was dropped, length = header + question + kept records",
                               z3.And(conds)))
                pkt = env["pkt"]
                claims.append(("id and flag octets carry the message's id, QR, opcode, AA, RD, RA, AD, CD and rcode",
                               z3.And(be16(out, 0) == field(structs, pkt, "qid").t,
                                      (z3.Extract(7, 7, out[2].t) == 1) == field(structs, pkt, "qr").t,
                                      z3.Extract(6, 3, out[2].t) == z3.Extract(3, 0, field(structs, pkt, "opcode").fields[0].t),
                                      (z3.Extract(0, 0, out[2].t) == 1) == field(structs, pkt, "rd").t,
                                      (z3.Extract(2, 2, out[2].t) == 1) == field(structs, pkt, "aa").t,
                                      (z3.Extract(7, 7, out[3].t) == 1) == field(structs, pkt, "ra").t,
                                      z3.Extract(3, 0, out[3].t) == z3.Extract(3, 0, field(structs, pkt, "rcode").fields[0].t))))
        for name, f in claims:
            m = check(ex, pc, f, name)
            if m is not None:
                failed.append(dict(check="", description=name, location="dns/dnspkt.rs serialise_with_size" + ("" if via is None else f" via dns/mod.rs run_{via}"), kind="violation",
                                   counterexample=dict(shape=[list(x) for x in shape], with_edns=with_edns, size=m.eval(size, model_completion=True).as_long(), transport=via,
                                                       advertised=(m.eval(env["adv"], model_completion=True).as_long() if "adv" in env else None),
                                                       output_len=(len(val.items) if outcome != "panic" else None), full_size=base + prefix[-1])))
    return failed, ex, len(paths), kinds


# ---------------------------------------------------------------------------------------------------------------- round trip
def ref_decode_name(out, pos, depth=0):
    """RFC 1035 4.1.4 reference decoder over bytes whose length/pointer octets are concrete.
    -> (labels as lists of z3 byte terms, next position, pointer_ok)"""
    labels, ok = [], True
    jumped_next = None
    hops = 0
    while True:
        if pos >= len(out):
            return None, pos, False
        b = z3.simplify(out[pos].t)
        if not z3.is_bv_value(b):
            return None, pos, False
        b = b.as_long()
        if b == 0:
            return labels, (jumped_next if jumped_next is not None else pos + 1), ok
        if b & 0xC0 == 0xC0:
            lo = z3.simplify(out[pos + 1].t)
            if not z3.is_bv_value(lo):
                return None, pos, False
            target = ((b & 0x3F) << 8) | lo.as_long()
            ok = ok and target < pos and target < 0x4000
            if jumped_next is None:
                jumped_next = pos + 2
            pos = target
            hops += 1
            if hops > 20:
                return None, pos, False
            continue
        if b & 0xC0:
            return None, pos, False
        labels.append([x.t for x in out[pos + 1:pos + 1 + b]])
        pos += 1 + b


def names_equal(a, b):
    if a is None or len(a) != len(b):
        return z3.BoolVal(False)
    cs = []
    for la, lb in zip(a, b):
        if len(la) != len(lb):
            return z3.BoolVal(False)
        cs += [x == y for x, y in zip(la, lb)]
    return z3.And(cs) if cs else z3.BoolVal(True)


def dom_terms(dom):
    return [[b.t for b in lab.fields[0].items] for lab in dom.fields[0].items]


TYPED = dict(ns=(2, "Ns"), cname=(5, "CName"), ptr=(12, "Ptr"), mx=(15, "Mx"), rt=(21, "Rt"), afsdb=(18, "AfsDb"), rp=(17, "Rp"), soa=(6, "Soa"))


def value_equal(a, b):
    """structural equality of two decoded/original values (Domain = Seq of Label = Seq of octets; integers; nested structs)"""
    if isinstance(a, BV) and isinstance(b, BV):
        return a.t == b.t if a.t.size() == b.t.size() else z3.BoolVal(False)
    if isinstance(a, Bool) and isinstance(b, Bool):
        return a.t == b.t
    if isinstance(a, Seq) and isinstance(b, Seq):
        if len(a.items) != len(b.items):
            return z3.BoolVal(False)
        return z3.And([value_equal(x, y) for x, y in zip(a.items, b.items)]) if a.items else z3.BoolVal(True)
    if isinstance(a, Adt) and isinstance(b, Adt):
        if a.variant != b.variant or len(a.fields) != len(b.fields):
            return z3.BoolVal(False)
        return z3.And([value_equal(x, y) for x, y in zip(a.fields, b.fields)]) if a.fields else z3.BoolVal(True)
    return z3.BoolVal(False)


def rdata_names(structs, rd):
    """(offset of the first name inside the record data, [names in wire order]) of typed record data"""
    v = rd.variant
    if v in ("Ns", "CName", "Ptr"):
        return 0, [rd.fields[0]]
    if v in ("Mx", "Rt"):
        return 2, [field(structs, rd.fields[0], "domain")]
    if v == "AfsDb":
        return 2, [field(structs, rd.fields[0], "hostname")]
    if v == "Rp":
        return 0, [field(structs, rd.fields[0], "mbox"), field(structs, rd.fields[0], "txt")]
    if v == "Soa":
        return 0, [field(structs, rd.fields[0], "mname"), field(structs, rd.fields[0], "rname")]
    return 0, []


def mk_named_msg(e, structs, layout, with_edns, sym_flags=False):
    """layout: (question labels, [(section, owner labels, rdlen)]) where labels are tuples of (tag, length): equal tags share the
    same symbolic octets (forcing compression), different tags are independent"""
    pool = {}

    def lab(tag, n):
        if (tag, n) not in pool:
            if tag.startswith("="):     # concrete label (keeps long chains of distinct labels from forking on label equality)
                pool[(tag, n)] = [z3.BitVecVal(ord(tag[1 + i % (len(tag) - 1)]), 8) for i in range(n)]
            else:
                pool[(tag, n)] = [z3.BitVec(f"lab_{tag}_{i}", 8) for i in range(n)]
        return Adt("Label", None, [Seq([BV(t) for t in pool[(tag, n)]])])
    qlabels, recs = layout
    secs = {0: [], 1: [], 2: []}
    types = []
    dom = lambda labels: Adt("Domain", None, [Seq([lab(t, n) for t, n in labels])])  # noqa
    for i, (sec, owner, rdlen) in enumerate(recs):
        if isinstance(rdlen, tuple):
            # typed record data carrying names (which take part in compression): the record type is the matching concrete one
            kind = rdlen[0]
            ty = z3.BitVecVal(TYPED[kind][0], 16)
            u16 = lambda n: BV(z3.BitVec(f"r{i}_{n}", 16))  # noqa
            u32 = lambda n: BV(z3.BitVec(f"r{i}_{n}", 32))  # noqa
            if kind in ("ns", "cname", "ptr"):
                rdata = Adt("RData", TYPED[kind][1], [dom(rdlen[1])])
            elif kind in ("mx", "rt"):
                rdata = Adt("RData", TYPED[kind][1], [build(structs, "PrefDomainData", pref=u16("pref"), domain=dom(rdlen[1]))])
            elif kind == "afsdb":
                rdata = Adt("RData", "AfsDb", [build(structs, "AFSDBData", subtype=u16("subtype"), hostname=dom(rdlen[1]))])
            elif kind == "rp":
                rdata = Adt("RData", "Rp", [build(structs, "RPData", mbox=dom(rdlen[1]), txt=dom(rdlen[2]))])
            elif kind == "soa":
                rdata = Adt("RData", "Soa", [build(structs, "SoaData", mname=dom(rdlen[1]), rname=dom(rdlen[2]), serial=u32("serial"), refresh=u32("refresh"),
                                                   retry=u32("retry"), expire=u32("expire"), minimum=u32("minimum"))])
            else:
                raise Unsupported(f"record kind {kind}")
        else:
            ty = z3.BitVec(f"r{i}_type", 16)
            types.append(ty)
            rd = [BV(z3.BitVec(f"r{i}_rd{j}", 8)) if (rdlen <= 64 or j < 2) else BV(z3.BitVecVal((j * 7 + 1) & 255, 8)) for j in range(rdlen)]
            rdata = Adt("RData", "Other", [Seq(rd)])
        secs[sec].append(build(structs, "RR", domain=dom(owner),
                               **{"class": Adt("Class", None, [BV(z3.BitVec(f"r{i}_class", 16))])},
                               rrtype=Adt("Type", None, [BV(ty)]), ttl=BV(z3.BitVec(f"r{i}_ttl", 32)), rdata=rdata))
    for ty in types:
        e.assume(z3.And(ty != 41, ty != 6, ty != 2, ty != 5, ty != 12, ty != 15, ty != 17, ty != 18, ty != 21, ty != 35))
    b = (lambda n: Bool(z3.Bool(n))) if sym_flags else (lambda n: Bool(n in ("qr", "ra")))  # noqa
    rcode = z3.BitVec("rcode", 16)
    e.assume(z3.ULE(rcode, 0xFFF if with_edns else 0xF))
    opcode = z3.BitVec("opcode", 8)
    e.assume(z3.ULE(opcode, 15))
    bufsize = z3.BitVec("bufsize", 16)
    if with_edns:
        e.assume(z3.UGE(bufsize, 512))
    q = build(structs, "Question", qdomain=Adt("Domain", None, [Seq([lab(t, n) for t, n in qlabels])]),
              qclass=Adt("Class", None, [BV(z3.BitVec("qclass", 16))]), qtype=Adt("Type", None, [BV(z3.BitVec("qtype", 16))]))
    return build(structs, "DNSPkt", qid=BV(z3.BitVec("qid", 16)), rd=b("rd"), tc=b("tc"), aa=b("aa"), qr=b("qr"),
                 opcode=Adt("Opcode", None, [BV(opcode)]), cd=b("cd"), ad=b("ad"), ra=b("ra"), rcode=Adt("RCode", None, [BV(rcode)]),
                 bufsize=BV(bufsize if with_edns else z3.BitVecVal(512, 16)),
                 edns_ver=some(BV(z3.BitVecVal(0, 8))) if with_edns else NONE(), edns_do=b("do") if with_edns else Bool(False), question=q,
                 answer=Seq(secs[0]), nameserver=Seq(secs[1]), additional=Seq(secs[2]),
                 edns=some(Adt("EdnsData", None, [Seq([])])) if with_edns else NONE())


def roundtrip_obligation(prog, enums, structs, layout, with_edns, sym_flags=False):
    ser = find(prog, "serialise", 1, "dnspkt")
    newp = [f for f in prog.find("new", 1) if "parse.rs:82" in f.name]
    getd = find(prog, "get_dns", 1, "parse")
    if len(newp) != 1:
        raise Unsupported("PktParser::new not found")
    ex = Exec(prog, S, enums, max_unroll=24, timeout_s=int(os.environ.get("VERIF_MIR_EXPLORE_S", "240")), max_paths=3000)

    def run(e):
        pkt = mk_named_msg(e, structs, layout, with_edns, sym_flags)
        e.env["pkt"] = pkt
        out = e.call_fn(ser, [Ref(Cell(pkt))])
        e.env["out"] = out
        parser = e.call_fn(newp[0], [Ref(Cell(Seq(list(out.items), "slice")))])
        return e.call_fn(getd, [Ref(Cell(parser), mut=True)])
    paths = ex.explore(run)
    failed, kinds = [], {}
    for outcome, val, pc, env in paths:
        if len({f["description"] for f in failed}) >= 3 and len(failed) >= 6:
            break       # enough distinct violated claims to report; the remaining paths add nothing to the verdict
        pkt = env.get("pkt")
        claims = []
        if outcome == "panic":
            kinds["panic"] = kinds.get("panic", 0) + 1
            claims.append(("encoding then decoding never panics: " + str(val), z3.BoolVal(False)))
        elif val.variant == "Err":
            kinds["err"] = kinds.get("err", 0) + 1
            claims.append(("the decoder accepts what the encoder produced", z3.BoolVal(False)))
        else:
            kinds["ok"] = kinds.get("ok", 0) + 1
            got = val.fields[0]
            out = env["out"].items
            eqs = []
            for fname in ("qid",):
                eqs.append(field(structs, got, fname).t == field(structs, pkt, fname).t)
            for fname in ("rd", "tc", "aa", "qr", "cd", "ad", "ra", "edns_do"):
                eqs.append(field(structs, got, fname).t == field(structs, pkt, fname).t)
            eqs.append(field(structs, got, "opcode").fields[0].t == field(structs, pkt, "opcode").fields[0].t)
            eqs.append(field(structs, got, "rcode").fields[0].t == field(structs, pkt, "rcode").fields[0].t)
            eqs.append(field(structs, got, "bufsize").t == field(structs, pkt, "bufsize").t)
            eqs.append(z3.BoolVal(field(structs, got, "edns_ver").variant == field(structs, pkt, "edns_ver").variant))
            eqs.append(z3.BoolVal(field(structs, got, "edns").variant == field(structs, pkt, "edns").variant))
            claims.append(("header bits, id, opcode, extended rcode, EDNS version/size/DO survive the round trip", z3.And(eqs)))
            gq, pq = field(structs, got, "question"), field(structs, pkt, "question")
            claims.append(("question survives the round trip",
                           z3.And(names_equal(dom_terms(field(structs, gq, "qdomain")), dom_terms(field(structs, pq, "qdomain"))),
                                  field(structs, gq, "qtype").fields[0].t == field(structs, pq, "qtype").fields[0].t,
                                  field(structs, gq, "qclass").fields[0].t == field(structs, pq, "qclass").fields[0].t)))
            recs_ok = []
            for sec in ("answer", "nameserver", "additional"):
                a, bb = field(structs, pkt, sec).items, field(structs, got, sec).items
                recs_ok.append(z3.BoolVal(len(a) == len(bb)))
                for x, y in zip(a, bb):
                    recs_ok.append(names_equal(dom_terms(field(structs, y, "domain")), dom_terms(field(structs, x, "domain"))))
                    recs_ok.append(field(structs, x, "ttl").t == field(structs, y, "ttl").t)
                    recs_ok.append(field(structs, x, "rrtype").fields[0].t == field(structs, y, "rrtype").fields[0].t)
                    recs_ok.append(field(structs, x, "class").fields[0].t == field(structs, y, "class").fields[0].t)
                    rx, ry = field(structs, x, "rdata"), field(structs, y, "rdata")
                    recs_ok.append(value_equal(rx, ry))
            claims.append(("every record of every section survives the round trip (owner, type, class, TTL, data, order)", z3.And(recs_ok)))
            # independent RFC 1035 decoder: pointers only backwards and below 0x4000, names expand to the originals
            pos = 12
            q_l, pos, okp = ref_decode_name(out, pos)
            ptr_ok = [z3.BoolVal(okp), names_equal(q_l, dom_terms(field(structs, pq, "qdomain")))]
            pos += 4
            for sec in ("answer", "nameserver", "additional"):
                for x in field(structs, pkt, sec).items:
                    n_l, pos, okp = ref_decode_name(out, pos)
                    ptr_ok += [z3.BoolVal(okp), names_equal(n_l, dom_terms(field(structs, x, "domain")))]
                    if pos + 10 > len(out):
                        ptr_ok.append(z3.BoolVal(False))
                        break
                    hi, lo = z3.simplify(out[pos + 8].t), z3.simplify(out[pos + 9].t)
                    if not (z3.is_bv_value(hi) and z3.is_bv_value(lo)):
                        ptr_ok.append(z3.BoolVal(False))
                        break
                    rdlen = (hi.as_long() << 8) | lo.as_long()
                    rd = field(structs, x, "rdata")
                    if rd.variant == "Other":
                        ptr_ok.append(z3.BoolVal(rdlen == len(rd.fields[0].items)))
                    else:
                        off, names = rdata_names(structs, rd)
                        npos = pos + 10 + off
                        for nm in names:
                            r_l, npos, okp = ref_decode_name(out, npos)
                            ptr_ok += [z3.BoolVal(okp), names_equal(r_l, dom_terms(nm))]
                        if rd.variant == "Soa":
                            npos += 20
                        ptr_ok.append(z3.BoolVal(npos == pos + 10 + rdlen))     # RDLENGTH covers exactly the record data
                    pos += 10 + rdlen
            claims.append(("independent RFC 1035 decoder: compression pointers point backwards below offset 16384 and names expand to the originals", z3.And(ptr_ok)))
        for name, f in claims:
            m = check(ex, pc, f, name)
            if m is not None:
                failed.append(dict(check="", description=name, location="dns/dnspkt.rs serialise + dns/parse.rs get_dns", kind="violation",
                                   counterexample=dict(layout=str(layout), with_edns=with_edns, outcome=outcome if outcome == "panic" else val.variant,
                                                       detail=(str(val)[:200] if outcome == "panic" else ""))))
    return failed, ex, len(paths), kinds


# ---------------------------------------------------------------------------------------------------------------- decode -> encode (C05)
def skeleton(kind):
    """message skeletons: structure octets concrete (lengths, counts, pointers), contents symbolic. -> list of z3 bytes"""
    n = [0]

    def sym(tag):
        n[0] += 1
        return z3.BitVec(f"{tag}{n[0]}", 8)

    def c(v):
        return z3.BitVecVal(v, 8)
    hdr = lambda an, ns, ar: [sym("id"), sym("id"), sym("f1"), sym("f2"), c(0), c(1), c(0), c(an), c(0), c(ns), c(0), c(ar)]  # noqa
    q = [c(1), sym("q"), c(2), sym("q"), sym("q"), c(0), sym("qt"), sym("qt"), sym("qc"), sym("qc")]
    opt = lambda rdata: [c(0), c(0), c(41), sym("cls"), sym("cls"), sym("xrc"), sym("ver"), sym("z"), sym("z"), c(0), c(len(rdata))] + rdata  # noqa
    if kind == "plain":
        return hdr(0, 0, 0) + q
    if kind == "opt":
        return hdr(0, 0, 1) + q + opt([])
    if kind.startswith("cookie"):
        L = int(kind[6:])
        return hdr(0, 0, 1) + q + opt([c(0), c(10), c(0), c(L)] + [sym("ck") for _ in range(L)])
    if kind == "ede1":
        return hdr(0, 0, 1) + q + opt([c(0), c(15), c(0), c(1), sym("e")])
    if kind == "answer_ptr":
        rr = [c(0xC0), c(12), c(0), c(1), c(0), c(1), sym("l"), sym("l"), sym("l"), sym("l"), c(0), c(4), sym("r"), sym("r"), sym("r"), sym("r")]
        return hdr(1, 0, 0) + q + rr
    if kind == "ptr_self":
        rr = [c(0xC0), c(22), c(0), c(1), c(0), c(1), sym("l"), sym("l"), sym("l"), sym("l"), c(0), c(0)]
        return hdr(1, 0, 0) + q + rr
    if kind == "ptr_past_end":
        rr = [c(0xFF), c(0xFF), c(0), c(1), c(0), c(1), sym("l"), sym("l"), sym("l"), sym("l"), c(0), c(0)]
        return hdr(1, 0, 0) + q + rr
    if kind == "count_lies":
        return hdr(3, 2, 1) + q
    raise ValueError(kind)


def decode_encode_obligation(prog, enums, structs, kind, cut=None):
    """get_dns on a skeleton (optionally truncated to `cut` octets), then, if accepted, serialise the decoded message and look
    at its EDNS options the way the request path does"""
    ser = find(prog, "serialise", 1, "dnspkt")
    newp = [f for f in prog.find("new", 1) if "parse.rs:82" in f.name]
    getd = find(prog, "get_dns", 1, "parse")
    getc = find(prog, "get_cookie", 1, "dnspkt")
    gete = find(prog, "get_extended_dns_error", 1, "dnspkt")
    summ = dict(S)
    summ["String::from_utf8_lossy"] = lambda ex, c: Str(text="<lossy>")
    summ["Cow::into_owned"] = lambda ex, c: c.args[0]
    summ["<Cow as ToOwned>::to_owned"] = lambda ex, c: c.args[0]
    ex = Exec(prog, summ, enums, max_unroll=40)

    def run(e):
        data = skeleton(kind)
        if cut is not None:
            data = data[:cut]
        e.env["f2"] = data[3] if len(data) > 3 else None
        parser = e.call_fn(newp[0], [Ref(Cell(Seq([BV(b) for b in data], "slice")))])
        r = e.call_fn(getd, [Ref(Cell(parser), mut=True)])
        e.env["parsed"] = r.variant
        if r.variant == "Ok":
            pkt = r.fields[0]
            edns = field(structs, pkt, "edns")
            if edns.variant == "Some":
                e.call_fn(getc, [Ref(Cell(edns.fields[0]))])
                e.call_fn(gete, [Ref(Cell(edns.fields[0]))])
            e.call_fn(ser, [Ref(Cell(pkt))])
        return r
    paths = ex.explore(run)
    failed, kinds = [], {}
    for outcome, val, pc, env in paths:
        k = "panic" if outcome == "panic" else val.variant
        kinds[k] = kinds.get(k, 0) + 1
        if outcome == "panic":
            m = check(ex, pc, z3.BoolVal(False), "panic")
            if m is not None:
                failed.append(dict(check="", description="decoding a DNS message, reading its EDNS options and re-encoding it never panics: " + str(val)[:90],
                                   location="dns/parse.rs get_dns / dns/dnspkt.rs", kind="violation",
                                   counterexample=dict(skeleton=kind, cut=cut, parsed=env.get("parsed"), panic=str(val)[:200])))
    return failed, ex, len(paths), kinds
