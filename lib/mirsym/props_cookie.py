"""C16 (cookie half): a server cookie exempts a client only if it is the HMAC, under the current or the previous key, of exactly
(client cookie, server address, client address); issuing and validating agree; a fresh key set has two random keys.

DnsMessage::validate_cookie_keys / validate_cookie_key / calculate_cookie and CookieKeys::new / rotate are executed from MIR.
HMAC-SHA-256 itself is NOT executed: it is an uninterpreted function of (key, message) - so what is decided is WHICH key and
WHICH octets go into the MAC and how the verdicts are combined; that distinct inputs give distinct MACs is the cryptographic
assumption the property rests on (stated, not proved)."""
import z3

from .interp import Exec
from .props_cache import build, field
from .props_pool import check
from .summaries import S, some, NONE, deref, ok, err, UNIT
from .values import BV, Bool, Adt, Seq, Str, Cell, Ref, Opaque, Unsupported

KS = dict(S)


def ksummary(*names):
    def deco(f):
        for n in names:
            KS[n] = f
        return f
    return deco


_MAC = {}


def mac_fn(nkey, nmsg):
    k = (nkey, nmsg)
    if k not in _MAC:
        _MAC[k] = z3.Function("hmac_sha256_%d_%d" % k, z3.BitVecSort(8 * nkey), z3.BitVecSort(8 * nmsg), z3.BitVecSort(256))
    return _MAC[k]


def cat(items):
    t = items[0].t
    for b in items[1:]:
        t = z3.Concat(t, b.t)
    return t


def digest(h):
    return mac_fn(len(h.key), len(h.msg))(cat(h.key), cat(h.msg)) if h.msg else None


@ksummary("<CoreWrapper as Mac>::new_from_slice", "<CoreWrapper as KeyInit>::new_from_slice")
def _new_from_slice(ex, c):
    key = deref(ex, c.args[0])
    return ok(Opaque("Hmac", key=list(key.items), msg=[]))


@ksummary("<CoreWrapper as Mac>::update", "<CoreWrapper as Update>::update")
def _update(ex, c):
    r = c.args[0]
    base = r
    while isinstance(ex.load(base), Ref):
        base = ex.load(base)
    h = ex.load(base)
    data = deref(ex, c.args[1])
    ex.store(base, Opaque("Hmac", key=h.key, msg=h.msg + list(data.items)))
    return UNIT


@ksummary("<CoreWrapper as Mac>::verify_slice")
def _verify_slice(ex, c):
    h = c.args[0]
    h = deref(ex, h) if isinstance(h, Ref) else h
    tag = deref(ex, c.args[1])
    ex.env.setdefault("verifications", []).append((h.key, h.msg, list(tag.items)))
    if len(tag.items) != 32:
        return err(Opaque("MacError"))          # hmac: a tag of the wrong length never verifies
    good = digest(h) == cat(tag.items)
    if ex.branch(good):
        return ok(UNIT)
    return err(Opaque("MacError"))


@ksummary("<CoreWrapper as Mac>::finalize")
def _finalize(ex, c):
    h = c.args[0]
    h = deref(ex, h) if isinstance(h, Ref) else h
    return Opaque("CtOutput", h=h)


@ksummary("Ipv4Addr::octets", "std::net::Ipv4Addr::octets")
def _ip4_octets(ex, c):
    a = deref(ex, c.args[0])
    t = a.fields[0].t
    return Seq([BV(z3.Extract(31 - 8 * i, 24 - 8 * i, t)) for i in range(4)], "array")


@ksummary("Ipv6Addr::octets", "std::net::Ipv6Addr::octets")
def _ip6_octets(ex, c):
    a = deref(ex, c.args[0])
    t = a.fields[0].t
    return Seq([BV(z3.Extract(127 - 8 * i, 120 - 8 * i, t)) for i in range(16)], "array")


@ksummary("<SockaddrStorage as NetAddrExt>::ip", "<NetAddr as NetAddrExt>::ip")
def _netaddr_ip(ex, c):
    return some(ex.env["remote_ip"])


# key material
@ksummary("tokio::time::Instant::now", "Instant::now")
def _now(ex, c):
    return Opaque("Instant")


@ksummary("<tokio::time::Instant as Add>::add", "<Instant as Add>::add")
def _inst_add(ex, c):
    return Opaque("Instant")


@ksummary("rng", "rand::rng")
def _rng(ex, c):
    return Opaque("ThreadRng")


@ksummary("<ThreadRng as RngExt>::random_range", "<ThreadRng as Rng>::random_range")
def _random_range(ex, c):
    return Opaque("Duration?")


@ksummary("<SysRng as TryRng>::try_fill_bytes", "<SysRng as TryRngCore>::try_fill_bytes")
def _fill(ex, c):
    r = c.args[1]
    base = r
    while isinstance(ex.load(base), Ref):
        base = ex.load(base)
    cur = ex.load(base)
    k = ex.env["fills"] = ex.env.get("fills", 0) + 1
    fresh = [z3.BitVec(f"random{k}_{i}", 8) for i in range(len(cur.items))]
    ex.env.setdefault("random", []).append(fresh)
    ex.store(base, Seq([BV(t) for t in fresh], "array"))
    return ok(UNIT)


@ksummary("<[u8; 8] as Default>::default", "<[u8; N] as Default>::default")
def _arr_default(ex, c):
    return Seq([BV(z3.BitVecVal(0, 8)) for _ in range(8)], "array")


def find_method(prog, name, nargs, hint):
    fs = [f for f in prog.find(name, nargs) if "{closure" not in f.name and "isomer_erbium_verif" not in f.name and hint in f.name]
    if len(fs) != 1:
        raise Unsupported(f"{name}/{nargs} not found uniquely ({[f.name for f in fs]})")
    return fs[0]


def validate_obligation(prog, enums, structs, v6_local, v6_remote, server_len):
    """server_len: octets of server cookie carried by the query (None = client cookie only, -1 = no COOKIE option at all)"""
    fn = find_method(prog, "validate_cookie_keys", 3, "dns")
    ex = Exec(prog, KS, enums, max_unroll=40)

    def run(e):
        cur = [z3.BitVec(f"cur{i}", 8) for i in range(8)]
        prev = [z3.BitVec(f"prev{i}", 8) for i in range(8)]
        client = [z3.BitVec(f"cc{i}", 8) for i in range(8)]
        server = [z3.BitVec(f"sc{i}", 8) for i in range(server_len)] if server_len and server_len > 0 else []
        lw, rw = (128 if v6_local else 32), (128 if v6_remote else 32)
        lip, rip = z3.BitVec("local_ip", lw), z3.BitVec("remote_ip", rw)
        e.env.update(cur=cur, prev=prev, client=client, server=server, lip=lip, rip=rip)
        e.env["remote_ip"] = Adt("IpAddr", "V6" if v6_remote else "V4", [Adt("Ipv6Addr" if v6_remote else "Ipv4Addr", None, [BV(rip)])])
        opts = []
        if server_len != -1:
            opts.append(build(structs, "EdnsOption", code=Adt("EdnsCode", None, [BV(z3.BitVecVal(10, 16))]), data=Seq([BV(t) for t in client + server])))
        qn = structs["DNSPkt"][0]
        qv = {n: Opaque("unused") for n in qn}
        qv["edns"] = some(Adt("EdnsData", None, [Seq(opts)]))
        query = Adt("DNSPkt", None, [qv[n] for n in qn], list(qn))
        msg = build(structs, "DnsMessage", in_query=query, in_size=BV(z3.BitVecVal(64, 64)),
                    local_ip=Adt("IpAddr", "V6" if v6_local else "V4", [Adt("Ipv6Addr" if v6_local else "Ipv4Addr", None, [BV(lip)])]),
                    remote_addr=Opaque("NetAddr"), protocol=Opaque("unused"))
        return e.call_fn(fn, [Ref(Cell(msg)), Ref(Cell(Seq([BV(t) for t in cur], "slice"))), Ref(Cell(Seq([BV(t) for t in prev], "slice")))])
    paths = ex.explore(run)
    failed, kinds = [], {}
    for outcome, val, pc, env in paths:
        claims = []
        if outcome == "panic":
            kinds["panic"] = kinds.get("panic", 0) + 1
            claims.append(("validating a cookie never panics: " + str(val), z3.BoolVal(False)))
        else:
            kinds[val.variant] = kinds.get(val.variant, 0) + 1
            client, server = env["client"], env["server"]
            lb = [z3.Extract(env["lip"].size() - 1 - 8 * i, env["lip"].size() - 8 - 8 * i, env["lip"]) for i in range(env["lip"].size() // 8)]
            rb = [z3.Extract(env["rip"].size() - 1 - 8 * i, env["rip"].size() - 8 - 8 * i, env["rip"]) for i in range(env["rip"].size() // 8)]
            msg = client + lb + rb
            mt = msg[0]
            for b in msg[1:]:
                mt = z3.Concat(mt, b)
            H = mac_fn(8, len(msg))

            def keyt(k):
                t = k[0]
                for b in k[1:]:
                    t = z3.Concat(t, b)
                return t
            if len(server) == 32:
                st = server[0]
                for b in server[1:]:
                    st = z3.Concat(st, b)
                issued = z3.Or(st == H(keyt(env["cur"]), mt), st == H(keyt(env["prev"]), mt))
            else:
                issued = z3.BoolVal(False)
            has_server = server_len is not None and server_len > 0
            claims.append(("a cookie is Good exactly when its server part is the MAC, under the current or the previous key, of (client cookie, server address, client address)",
                           z3.BoolVal(val.variant == "Good") == issued if has_server else z3.BoolVal(val.variant != "Good")))
        for name, f in claims:
            m = check(ex, pc, f, name)
            if m is not None:
                failed.append(dict(check="", description=name, location="dns/mod.rs validate_cookie_keys / calculate_cookie", kind="violation",
                                   counterexample=dict(cookie=True, v6_local=v6_local, v6_remote=v6_remote, server_cookie_octets=server_len, verdict=(val.variant if outcome != "panic" else "panic"),
                                                       verifications=len(env.get("verifications", [])))))
    return failed, ex, len(paths), kinds


def keys_obligation(prog, enums, structs):
    fns = [f for f in prog.find("new", 0) if "CookieKeys" in f.ret]
    if len(fns) != 1:
        raise Unsupported(f"CookieKeys::new not found uniquely ({[f.name for f in fns]})")
    ex = Exec(prog, KS, enums, max_unroll=12)
    paths = ex.explore(lambda e: e.call_fn(fns[0], []))
    failed, kinds = [], {}
    for outcome, val, pc, env in paths:
        if outcome == "panic":
            claims = [("creating the cookie keys never panics: " + str(val), z3.BoolVal(False))]
        else:
            rnd = env.get("random", [])
            cur = field(structs, val, "current").items
            prev = field(structs, val, "previous").items
            kinds["fills=%d" % len(rnd)] = 1
            claims = [("a fresh key set holds two independently drawn random keys (never the all-zero default), the previous one drawn before the current one",
                       z3.And([z3.BoolVal(len(rnd) >= 2)] + ([a.t == b for a, b in zip(cur, rnd[-1])] + [a.t == b for a, b in zip(prev, rnd[-2])] if len(rnd) >= 2 else [])))]
        for name, f in claims:
            m = check(ex, pc, f, name)
            if m is not None:
                failed.append(dict(check="", description=name, location="dns/mod.rs CookieKeys::new / rotate", kind="violation", counterexample=dict(cookie=True, note="key set")))
    return failed, ex, len(paths), kinds
