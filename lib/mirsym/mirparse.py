"""Parser for rustc's textual MIR (`-Zunpretty=mir`) - the subset that appears in erbium's non-async code."""
import re


class Fn:
    def __init__(self, name, nparams, ret):
        self.name = name
        self.nparams = nparams
        self.ret = ret
        self.types = {}      # local index -> type string
        self.param_types = {}
        self.blocks = {}     # bb index -> list of raw statement strings (last = terminator)
        self.cleanup = set()
        self.line = 0

    def __repr__(self):
        return f"<Fn {self.name} params={self.nparams} blocks={len(self.blocks)}>"


HDR = re.compile(r"^(?:fn|const|static) (.+)$")


def split_top(s, sep=","):
    """Split on `sep` at nesting depth 0 of ()<>[]{} and outside string literals."""
    out, depth, cur, i = [], 0, [], 0
    in_str = False
    while i < len(s):
        c = s[i]
        if in_str:
            cur.append(c)
            if c == "\\":
                cur.append(s[i + 1])
                i += 1
            elif c == '"':
                in_str = False
        else:
            if c == "'" and i + 2 < len(s) and s[i + 2] == "'" and s[i + 1] != "\\":
                cur.append(s[i:i + 3])     # char literal such as '"' or '(' : not a delimiter
                i += 3
                continue
            if c == '"':
                in_str = True
                cur.append(c)
            elif c in "([{<":
                # `<` only counts as a bracket when it looks like generics (not the `<` operator: MIR has no infix ops)
                depth += 1
                cur.append(c)
            elif c in ")]}>":
                if c == ">" and i > 0 and s[i - 1] == "-":
                    cur.append(c)  # `->`
                else:
                    depth -= 1
                    cur.append(c)
            elif c == sep and depth == 0:
                out.append("".join(cur).strip())
                cur = []
            else:
                cur.append(c)
        i += 1
    if "".join(cur).strip():
        out.append("".join(cur).strip())
    return out


def parse_header(line):
    """`fn NAME(_1: T, _2: U) -> R {`  /  `const NAME::promoted[0]: &i32 = {`"""
    m = re.match(r"^fn (.*) \{$", line)
    if m:
        body = m.group(1)
        # find the parameter list: the last top-level "(...)" before " -> " (return type) or end
        # scan for the first '(' that starts the params: name never contains '(' at depth 0 except in
        # `<impl at ...>` spans - those have no parens. Closures `{closure#0}` have none either.
        depth = 0
        start = None
        for i, c in enumerate(body):
            if c in "<{[":
                depth += 1
            elif c in ">}]":
                if not (c == ">" and body[i - 1] == "-"):
                    depth -= 1
            elif c == "(" and depth == 0:
                start = i
                break
        if start is None:
            return None
        name = body[:start]
        # matching close paren
        d = 0
        end = None
        for j in range(start, len(body)):
            if body[j] == "(":
                d += 1
            elif body[j] == ")":
                d -= 1
                if d == 0:
                    end = j
                    break
        params = body[start + 1:end]
        ret = body[end + 1:].strip()
        ret = ret[2:].strip() if ret.startswith("->") else "()"
        plist = split_top(params)
        f = Fn(name, len(plist), ret)
        for p in plist:
            pm = re.match(r"^_(\d+): (.*)$", p)
            if pm:
                f.param_types[int(pm.group(1))] = pm.group(2)
                f.types[int(pm.group(1))] = pm.group(2)
        return f
    m = re.match(r"^(?:const|static(?: mut)?) (.*::promoted\[\d+\]): (.*) = \{$", line) or \
        re.match(r"^(?:const|static(?: mut)?) (.*?): (.*) = \{$", line)
    if m:
        f = Fn(m.group(1), 0, m.group(2))
        return f
    return None


def parse(text):
    fns = {}
    cur = None
    bb = None
    lines = text.split("\n")
    for ln, line in enumerate(lines):
        if cur is None:
            if (line.startswith("fn ") or line.startswith("const ") or line.startswith("static ")) and line.endswith("{"):
                f = parse_header(line)
                if f is not None:
                    f.line = ln + 1
                    cur = f
            continue
        if line == "}":
            # keep the first definition of a name (constructor shims `fn Foo::Bar(_1) -> ...` appear twice)
            fns.setdefault(cur.name, cur)
            cur = None
            bb = None
            continue
        s = line.strip()
        if not s:
            continue
        m = re.match(r"^let (?:mut )?_(\d+): (.*);$", s)
        if m and bb is None:
            cur.types[int(m.group(1))] = m.group(2)
            continue
        m = re.match(r"^bb(\d+)( \(cleanup\))?: \{$", s)
        if m:
            bb = int(m.group(1))
            cur.blocks[bb] = []
            if m.group(2):
                cur.cleanup.add(bb)
            continue
        if s == "}" and bb is not None:
            bb = None
            continue
        if bb is not None:
            cur.blocks[bb].append(s)
    return fns


def closure_span(ty):
    m = re.search(r"\{closure@([^}]*)\}", ty)
    return m.group(1) if m else None


class Program:
    def __init__(self, text):
        self.fns = parse(text)
        self.by_short = {}
        self.closures = {}
        for name, f in self.fns.items():
            short = re.sub(r"::<.*$", "", name)
            key = name.split("::")[-1]
            self.by_short.setdefault(key, []).append(f)
            if "{closure#" in name and 1 in f.param_types:
                sp = closure_span(f.param_types[1])
                if sp:
                    self.closures[sp] = f

    def find(self, needle, nargs=None):
        """All functions whose definition path ends with `needle` segments (e.g. 'select_address')."""
        segs = needle.split("::")
        out = []
        for f in self.by_short.get(segs[-1], []):
            if nargs is not None and f.nparams != nargs:
                continue
            out.append(f)
        return out
