"""C12 (message half): a DHCP message survives Dhcp::serialise followed by dhcppkt::parse unchanged, and the octets in between
are what RFC 2131 section 2 / RFC 2132 / RFC 3396 prescribe.

Both functions (with serialise_fixed, serialise_option, DhcpOptions::serialise, the integer/address Serialise impls,
pktparser::Buffer, parse_options, null_terminated) are executed from MIR on messages of CONCRETE SHAPE (hardware-address
length, sname/file lengths, which option codes with which value lengths - including zero-length and > 255 octet values)
with SYMBOLIC CONTENTS (every header field, every address, every option octet)."""
import z3

from .interp import Exec
from .props_cache import build, field
from .props_pool import check
from .summaries import S, KMap, some, NONE, deref, UNIT, summary
from .values import BV, Bool, Adt, Seq, Str, Cell, Ref, Opaque, Unsupported

WS = dict(S)


def wsummary(*names):
    def deco(f):
        for n in names:
            WS[n] = f
        return f
    return deco


@wsummary("HashMap::entry")
def _hm_entry(ex, c):
    return Opaque("Entry", map=c.args[0], key=c.args[1])


@wsummary("Entry::or_default", "std::collections::hash_map::Entry::or_default", "hash_map::Entry::or_default")
def _entry_or_default(ex, c):
    en = c.args[0]
    m = deref(ex, en.map)
    if not isinstance(m, KMap):
        raise Unsupported("entry() on a non-concrete-key map")
    k = z3.simplify(deref(ex, en.key).fields[0].t)
    if not z3.is_bv_value(k):
        raise Unsupported("option code is not concrete")
    k = k.as_long()
    if k not in m.d:
        m.d[k] = Cell(Seq([]))
        m.keyobj = getattr(m, "keyobj", {})
        m.keyobj[k] = deref(ex, en.key)
    return Ref(m.d[k], mut=True)


def ip(t):
    return Adt("Ipv4Addr", None, [BV(t)])


def find1(prog, name, nargs, hint):
    fs = [f for f in prog.find(name, nargs) if "{closure" not in f.name and "isomer_erbium_verif" not in f.name and (hint in f.name or hint in f.ret)]
    if len(fs) != 1:
        raise Unsupported(f"{name}/{nargs} ({hint}) not found uniquely ({[f.name for f in fs]})")
    return fs[0]


def cat(bs):
    t = bs[0].t
    for b in bs[1:]:
        t = z3.Concat(t, b.t)
    return t


def conc(b):
    s = z3.simplify(b.t)
    return s.as_long() if z3.is_bv_value(s) else None


class Shape:
    def __init__(self, name, hlen=6, sname=0, file=0, options=()):
        self.name, self.hlen, self.sname, self.file = name, hlen, sname, file
        self.options = list(options)        # [(code, value length)] in insertion order


def obligation(prog, enums, structs, sh):
    ser = [f for f in prog.find("serialise", 1) if "dhcppkt" in f.name and "{closure" not in f.name and "Vec<u8>" in f.ret and "Dhcp" in f.param_types.get(1, "")]
    if len(ser) != 1:
        raise Unsupported(f"Dhcp::serialise not found uniquely ({[f.name for f in ser]})")
    parse = [f for f in prog.find("parse", 1) if f.name.endswith("dhcppkt::parse") or f.name == "parse" or ("dhcppkt" in f.name and "<impl" not in f.name)]
    parse = [f for f in parse if "Dhcp" in f.ret and "{closure" not in f.name]
    if len(parse) != 1:
        raise Unsupported(f"dhcppkt::parse not found uniquely ({[f.name for f in parse]})")
    ex = Exec(prog, WS, enums, max_unroll=max(300, max([n for _, n in sh.options] + [0]) + 20), timeout_s=300)

    def run(e):
        v = dict(op=z3.BitVec("op", 8), htype=z3.BitVec("htype", 8), hops=z3.BitVec("hops", 8), xid=z3.BitVec("xid", 32), secs=z3.BitVec("secs", 16),
                 flags=z3.BitVec("flags", 16), ciaddr=z3.BitVec("ciaddr", 32), yiaddr=z3.BitVec("yiaddr", 32), siaddr=z3.BitVec("siaddr", 32), giaddr=z3.BitVec("giaddr", 32),
                 chaddr=[z3.BitVec(f"chaddr{i}", 8) for i in range(sh.hlen)], sname=[z3.BitVec(f"sname{i}", 8) for i in range(sh.sname)],
                 file=[z3.BitVec(f"file{i}", 8) for i in range(sh.file)], options={})
        for t in v["sname"] + v["file"]:
            e.assume(t != 0)        # sname / file are NUL-terminated text on the wire: an embedded NUL is not representable
        m = KMap()
        m.keyobj = {}
        for code, n in sh.options:
            # long values: the first and last 3 octets symbolic, the middle a fixed pattern (keeps the formulas small; positions are what matters)
            vals = [z3.BitVec(f"opt{code}_{i}", 8) if (n <= 48 or i < 3 or i >= n - 3) else z3.BitVecVal((i * 5 + code) & 255, 8) for i in range(n)]
            v["options"][code] = vals
            m.d[code] = Cell(Seq([BV(t) for t in vals]))
            m.keyobj[code] = Adt("DhcpOption", None, [BV(z3.BitVecVal(code, 8))])
        pkt = build(structs, "Dhcp", op=Adt("DhcpOp", None, [BV(v["op"])]), htype=Adt("HwType", None, [BV(v["htype"])]), hlen=BV(z3.BitVecVal(sh.hlen, 8)), hops=BV(v["hops"]),
                    xid=BV(v["xid"]), secs=BV(v["secs"]), flags=BV(v["flags"]), ciaddr=ip(v["ciaddr"]), yiaddr=ip(v["yiaddr"]), siaddr=ip(v["siaddr"]), giaddr=ip(v["giaddr"]),
                    chaddr=Seq([BV(t) for t in v["chaddr"]]), sname=Seq([BV(t) for t in v["sname"]]), file=Seq([BV(t) for t in v["file"]]),
                    options=Adt("DhcpOptions", None, [m], ["other"]))
        e.env["v"] = v
        out = e.call_fn(ser[0], [Ref(Cell(pkt))])
        e.env["out"] = out
        return e.call_fn(parse[0], [Ref(Cell(Seq(list(out.items), "slice")))])
    paths = ex.explore(run)
    failed, kinds = [], {}
    for outcome, val, pc, env in paths:
        v = env.get("v")
        claims = []
        if outcome == "panic":
            kinds["panic"] = kinds.get("panic", 0) + 1
            claims.append(("encoding then decoding a DHCP message never panics: " + str(val), z3.BoolVal(False)))
        elif val.variant == "Err":
            kinds["err"] = kinds.get("err", 0) + 1
            claims.append(("the decoder accepts what the encoder produced", z3.BoolVal(False)))
        else:
            kinds["ok"] = kinds.get("ok", 0) + 1
            got = val.fields[0]
            out = env["out"].items
            g = lambda n: field(structs, got, n)  # noqa
            hdr = [g("op").fields[0].t == v["op"], g("htype").fields[0].t == v["htype"], g("hlen").t == sh.hlen, g("hops").t == v["hops"], g("xid").t == v["xid"],
                   g("secs").t == v["secs"], g("flags").t == v["flags"], g("ciaddr").fields[0].t == v["ciaddr"], g("yiaddr").fields[0].t == v["yiaddr"],
                   g("siaddr").fields[0].t == v["siaddr"], g("giaddr").fields[0].t == v["giaddr"]]
            for name, want in (("chaddr", v["chaddr"]), ("sname", v["sname"]), ("file", v["file"])):
                items = g(name).items
                hdr.append(z3.BoolVal(len(items) == len(want)))
                if len(items) == len(want):
                    hdr += [a.t == b for a, b in zip(items, want)]
            claims.append(("decode(encode(m)) = m: every fixed field (op, htype, hlen, hops, xid, secs, flags, the four addresses, chaddr, sname, file)", z3.And(hdr)))
            gm = field(structs, g("options"), "other")
            oks = [z3.BoolVal(isinstance(gm, KMap) and set(gm.d) == set(v["options"]))]
            if isinstance(gm, KMap) and set(gm.d) == set(v["options"]):
                for code, want in v["options"].items():
                    items = deref(ex, gm.d[code].v).items
                    oks.append(z3.BoolVal(len(items) == len(want)))
                    if len(items) == len(want):
                        oks += [a.t == b for a, b in zip(items, want)]
            claims.append(("decode(encode(m)) = m: the same option codes with the same values (zero-length options kept, values > 255 octets reassembled)", z3.And(oks)))
            # RFC 2131 figure 1 layout + RFC 2132 option framing + RFC 3396 splitting, read straight off the octets
            lay = [z3.BoolVal(len(out) >= 240)]
            if len(out) >= 240:
                lay += [out[0].t == v["op"], out[1].t == v["htype"], out[2].t == sh.hlen, out[3].t == v["hops"], cat(out[4:8]) == v["xid"], cat(out[8:10]) == v["secs"],
                        cat(out[10:12]) == v["flags"], cat(out[12:16]) == v["ciaddr"], cat(out[16:20]) == v["yiaddr"], cat(out[20:24]) == v["siaddr"], cat(out[24:28]) == v["giaddr"]]
                lay += [out[28 + i].t == (v["chaddr"][i] if i < sh.hlen else 0) for i in range(16)]
                lay += [out[44 + i].t == (v["sname"][i] if i < sh.sname else 0) for i in range(64)]
                lay += [out[108 + i].t == (v["file"][i] if i < sh.file else 0) for i in range(128)]
                lay.append(cat(out[236:240]) == 0x63825363)
            claims.append(("RFC 2131 figure 1: fixed fields at their offsets in network byte order, chaddr/sname/file zero-padded to 16/64/128 octets, magic cookie 99.130.83.99", z3.And(lay)))
            seen, okf = {}, True
            pos, ended = 240, False
            while pos < len(out):
                code = conc(out[pos])
                if code is None:
                    okf = False
                    break
                if code == 255:
                    ended = True
                    pos += 1
                    break
                if code == 0:
                    pos += 1
                    continue
                ln = conc(out[pos + 1]) if pos + 1 < len(out) else None
                if ln is None or pos + 2 + ln > len(out):
                    okf = False
                    break
                seen.setdefault(code, []).append((ln, out[pos + 2:pos + 2 + ln]))
                pos += 2 + ln
            fr = [z3.BoolVal(okf and ended and pos == len(out) and set(seen) == set(v["options"]))]
            if okf and set(seen) == set(v["options"]):
                for code, want in v["options"].items():
                    chunks = seen[code]
                    allb = [b for _, bs in chunks for b in bs]
                    fr.append(z3.BoolVal(len(allb) == len(want) and all(ln == 255 for ln, _ in chunks[:-1]) and len(chunks) == max(1, -(-len(want) // 255))))
                    if len(allb) == len(want):
                        fr += [a.t == b for a, b in zip(allb, want)]
            claims.append(("RFC 2132 / RFC 3396 option field: code, one-octet length, value; a value longer than 255 octets split into 255-octet instances in order; an empty value is one empty instance; "
                           "end option last", z3.And(fr)))
        for name, f in claims:
            m = check(ex, pc, f, name)
            if m is not None:
                failed.append(dict(check="", description=name, location="dhcp/dhcppkt.rs Dhcp::serialise + parse", kind="violation",
                                   counterexample=dict(dhcp_shape=sh.name, hlen=sh.hlen, options=sh.options, outcome=outcome if outcome == "panic" else val.variant,
                                                       flags=m.eval(v["flags"], model_completion=True).as_long(), xid=m.eval(v["xid"], model_completion=True).as_long())))
    return failed, ex, len(paths), kinds


def shapes(tier):
    out = [Shape("discover_like", options=[(53, 1), (61, 7), (55, 4), (12, 3)]),
           Shape("reply_like", sname=3, file=4, options=[(53, 1), (54, 4), (51, 4), (1, 4), (3, 4), (6, 8)]),
           Shape("zero_length_option", options=[(53, 1), (80, 0)]),
           Shape("option_255_octets", options=[(53, 1), (43, 255)]),
           Shape("option_256_octets", options=[(43, 256), (53, 1)]),
           Shape("no_options", hlen=6),
           Shape("hlen_16", hlen=16, options=[(53, 1)]),
           Shape("hlen_0", hlen=0, options=[(53, 1)])]
    if tier == "thorough":
        out += [Shape("option_600_octets", options=[(53, 1), (121, 600)]), Shape("option_510_octets", options=[(43, 510)]), Shape("option_511_octets", options=[(43, 511)]),
                Shape("hlen_1", hlen=1, options=[(53, 1)]), Shape("sname_full", sname=63, file=127, options=[(53, 1)]),
                Shape("many_options", options=[(53, 1), (54, 4), (51, 4), (58, 4), (59, 4), (1, 4), (28, 4), (3, 4), (6, 8), (15, 11), (119, 20), (42, 4)])]
    return out
