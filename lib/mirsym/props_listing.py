"""C20 (listing half, store side): Pool::get_leases returns exactly one entry per stored lease with that lease's address, client
identifier, start and expiry - for every table the representation invariant admits, including rows whose `options` column is
NULL (rows written before the column existed).

Pool::get_leases is executed from MIR (prepare_cached / query_map / the row-mapping closure / collect); the SQL text is the one
found at the call site: a plain `SELECT <columns> FROM leases` (anything else is outside the model)."""
import z3

from . import sqlmodel
from .interp import Exec
from .props_pool import check, invariant
from .summaries import S, some, NONE, deref, ok, err, rusqlite_err, base_type_name
from .values import BV, Bool, Adt, Seq, Str, Cell, Ref, Opaque, Unsupported, INT_TYPES

LS = dict(S)


def lsummary(*names):
    def deco(f):
        for n in names:
            LS[n] = f
        return f
    return deco


@lsummary("Connection::prepare_cached", "rusqlite::Connection::prepare_cached", "rusqlite::cache::prepare_cached", "Connection::prepare", "rusqlite::Connection::prepare")
def _prepare(ex, c):
    sql = deref(ex, c.args[1])
    ast = sqlmodel.parse_sql(sql.text)
    if ast["kind"] != "select" or ast["where"] is not None or ast["group"] is not None or ast["limit"] is not None:
        raise Unsupported("listing query is not a plain SELECT .. FROM leases")
    ex.env.setdefault("sql", []).append(sql.text)
    return ok(Opaque("Statement", ast=ast))


@lsummary("CachedStatement::query_map", "Statement::query_map", "rusqlite::Statement::query_map", "rusqlite::CachedStatement::query_map")
def _query_map(ex, c):
    stmt, params, f = c.args
    stmt = deref(ex, stmt)
    if isinstance(stmt, Adt) and stmt.variant == "Ok":
        stmt = stmt.fields[0]
    out = []
    for k, r in enumerate(ex.env["table"]):
        if not ex.branch(r.present):
            continue
        cols = []
        for e, _alias in stmt.ast["items"]:
            if not (isinstance(e, tuple) and e[0] == "col"):
                raise Unsupported(f"listing column expression {e!r}")
            name = e[1]
            if name == "options":
                cols.append(("optblob", ex.env["options_id"][k], ex.env["options_null"][k]))
            elif name in r.cols():
                cols.append(r.cols()[name])
            else:
                raise Unsupported(f"listing column {name}")
        out.append(ex.call_callable(f, [Ref(Cell(Opaque("Row", cols=cols)))]))
        ex.env.setdefault("listed_rows", []).append(k)
    return ok(Opaque("Iter", items=out))


@lsummary("<CachedStatement as DerefMut>::deref_mut", "<CachedStatement as Deref>::deref")
def _stmt_deref(ex, c):
    return c.args[0]


_std_row_get = S["Row::get"]


@lsummary("rusqlite::Row::get", "Row::get")
def _row_get(ex, c):
    row = deref(ex, c.args[0])
    idx = z3.simplify(c.args[1].t).as_long()
    ty = c.generics[1].strip() if len(c.generics) > 1 else (c.dest_ty or "")
    m = None
    if not ty or base_type_name(ty) == "Result":
        import re
        m = re.match(r"^(?:\w+::)*Result<\s*(.*),\s*[^,]*>$", (c.dest_ty or "").strip())
        ty = m.group(1) if m else ty
    if idx >= len(row.cols):
        return err(rusqlite_err("InvalidColumnIndex"))
    col = row.cols[idx]
    bt = base_type_name(ty)
    if col[0] == "optblob":
        null = col[2]
        if bt == "Option":
            if ex.branch(null):
                return ok(NONE())
            return ok(some(Opaque("Blob", id=col[1])))
        if bt == "Vec":
            if ex.branch(null):
                return err(rusqlite_err("InvalidColumnType"))     # rusqlite: NULL is not a BLOB
            return ok(Opaque("Blob", id=col[1]))
        return err(rusqlite_err("InvalidColumnType"))
    if col[0] == "blob":
        if bt == "Vec":
            return ok(Opaque("Blob", id=col[1]))
        if bt == "Option":
            return ok(some(Opaque("Blob", id=col[1])))
        return err(rusqlite_err("InvalidColumnType"))
    return _std_row_get(ex, c)


@lsummary("Option::unwrap_or_default")
def _opt_unwrap_or_default(ex, c):
    o = c.args[0]
    if o.variant == "Some":
        return o.fields[0]
    return Opaque("Blob", id=z3.BitVecVal(0, 32), empty=True)


def obligation(prog, enums, n_rows):
    fns = [f for f in prog.find("get_leases", 1) if "{closure" not in f.name and "pool" in f.name]
    if len(fns) != 1:
        raise Unsupported(f"Pool::get_leases not found uniquely ({[f.name for f in fns]})")
    ex = Exec(prog, LS, enums, max_unroll=n_rows + 3)

    def run(e):
        rows = sqlmodel.fresh_table(n_rows)
        e.env.update(table=rows, pre=rows, spare=None)
        for cst in invariant(rows):
            e.assume(cst)
        e.env["options_id"] = [z3.BitVec(f"r{k}_options", 32) for k in range(n_rows)]
        e.env["options_null"] = [z3.Bool(f"r{k}_options_null") for k in range(n_rows)]
        pool = Adt("Pool", None, [Opaque("Connection")], ["conn"])
        return e.call_fn(fns[0], [Ref(Cell(pool), mut=True)])
    paths = ex.explore(run)
    failed, kinds = [], {}
    for outcome, val, pc, env in paths:
        rows = env["table"]
        claims = []
        if outcome == "panic":
            kinds["panic"] = kinds.get("panic", 0) + 1
            claims.append(("listing the stored leases never panics: " + str(val), z3.BoolVal(False)))
        elif val.variant == "Err":
            kinds["err"] = kinds.get("err", 0) + 1
            claims.append(("the lease listing succeeds for every store (also for rows whose options column is NULL)", z3.BoolVal(False)))
        else:
            items = val.fields[0].items
            kinds[len(items)] = kinds.get(len(items), 0) + 1
            listed = env.get("listed_rows", [])
            cs = [z3.BoolVal(len(items) == len(listed))]
            # presence was decided per row on this path: every present row is listed exactly once, absent rows are not
            for k, r in enumerate(rows):
                cs.append(r.present == z3.BoolVal(k in listed))
            if len(items) == len(listed):
                for li, k in zip(items, listed):
                    r = rows[k]
                    f = dict(zip(li.names, li.fields)) if li.names else None
                    if f is None:
                        cs.append(z3.BoolVal(False))
                        continue
                    cid = f["client_id"]
                    cs += [f["ip"].fields[0].t == r.address, z3.BoolVal(isinstance(cid, Opaque) and cid.kind == "Blob") if not (isinstance(cid, Opaque) and cid.kind == "Blob") else cid.id == r.clientid,
                           z3.ZeroExt(32, f["start"].t) == r.start, z3.ZeroExt(32, f["expire"].t) == r.expiry]
            claims.append(("exactly one entry per stored lease, carrying that lease's address, client identifier, start and expiry", z3.And(cs)))
        for name, f in claims:
            m = check(ex, pc, f, name)
            if m is not None:
                ev = lambda t: m.eval(t, model_completion=True)  # noqa
                failed.append(dict(check="", description=name, location="dhcp/pool.rs get_leases", kind="violation",
                                   counterexample=dict(listing=True, rows=[dict(present=bool(z3.is_true(ev(r.present))), address=ev(r.address).as_long(), start=ev(r.start).as_long(), expiry=ev(r.expiry).as_long(),
                                                                               options_null=bool(z3.is_true(ev(env["options_null"][k])))) for k, r in enumerate(rows)],
                                                       outcome=outcome if outcome == "panic" else val.variant)))
    return failed, ex, len(paths), kinds
