"""Forking symbolic executor over textual MIR.  Paths are explored by decision replay: every symbolic branch
asks `choose`; alternatives that z3 finds feasible are queued as decision prefixes and re-executed from the start
(execution is deterministic given the decisions), so no state snapshots are needed."""
import re
import time

import os
import z3
import sys


sys.setrecursionlimit(30000)


from .mirparse import split_top
from .values import (BV, Bool, UNIT, Tup, Adt, Seq, Str, Cell, Ref, Opaque, Closure, FnItem, INT_TYPES, Panic,
                     Unsupported, bv_const)

ORDERING = {"Less": -1, "Equal": 0, "Greater": 1}
STD_ENUMS = {
    "Ordering": ["Less", "Equal", "Greater"],
    "Option": ["None", "Some"],
    "Result": ["Ok", "Err"],
    "ControlFlow": ["Continue", "Break"],
    "IpAddr": ["V4", "V6"],
    "Poll": ["Ready", "Pending"],
}

BINOPS = {"Add", "Sub", "Mul", "Div", "Rem", "BitAnd", "BitOr", "BitXor", "Shl", "Shr", "Eq", "Ne", "Lt", "Le", "Gt", "Ge",
          "AddWithOverflow", "SubWithOverflow", "MulWithOverflow", "AddUnchecked", "SubUnchecked", "MulUnchecked",
          "ShlUnchecked", "ShrUnchecked", "Cmp", "Offset"}


class Unwind(Exception):
    pass


class Infeasible(Exception):
    pass


def strip_generics(s):
    """remove every balanced <...> group (keeps `<T as Trait>` handled by the caller)"""
    out, depth, i = [], 0, 0
    while i < len(s):
        c = s[i]
        if c == "<":
            depth += 1
        elif c == ">" and not (i > 0 and s[i - 1] == "-"):
            depth -= 1
        elif depth == 0:
            out.append(c)
        i += 1
    r = "".join(out)
    r = re.sub(r"::(?=::)", "", r)
    r = re.sub(r"::$", "", r)
    return r.replace("::::", "::")


def base_type_name(t):
    t = t.strip()
    t = re.sub(r"^(&('\w+ )?(mut )?)+", "", t)
    t = strip_generics(t)
    return t.split("::")[-1].strip()


def normalize_callee(path):
    path = path.strip()
    if path.startswith("<"):
        # <SELF as TRAIT>::rest
        depth = 0
        for i, c in enumerate(path):
            if c == "<":
                depth += 1
            elif c == ">" and path[i - 1] != "-":
                depth -= 1
                if depth == 0:
                    inner, rest = path[1:i], path[i + 1:]
                    break
        else:
            return strip_generics(path)
        parts = split_top_as(inner)
        if len(parts) == 2:
            return f"<{base_type_name(parts[0])} as {base_type_name(parts[1])}>{strip_generics(rest)}"
        return f"<{base_type_name(inner)}>{strip_generics(rest)}"
    return strip_generics(path)


def split_top_as(s):
    depth = 0
    i = 0
    while i < len(s):
        c = s[i]
        if c in "<([{":
            depth += 1
        elif c in ">)]}" and not (c == ">" and s[i - 1] == "-"):
            depth -= 1
        elif depth == 0 and s.startswith(" as ", i):
            return [s[:i], s[i + 4:]]
        i += 1
    return [s]


def callee_generics(path):
    """type arguments of the LAST turbofish in the path: f::<A, B>  -> [A, B]"""
    path = path.strip()
    if not path.endswith(">"):
        return []
    depth = 0
    for i in range(len(path) - 1, -1, -1):
        c = path[i]
        if c == ">" and path[i - 1] != "-":
            depth += 1
        elif c == "<":
            depth -= 1
            if depth == 0:
                if path[:i].endswith("::"):
                    return split_top(path[i + 1:-1])
                return []
    return []


_IMPL_LINE_CACHE = {}


def _impl_line_names_trait(fn_name, trait):
    m = re.search(r"<impl at ([^:>]+):(\d+):", fn_name)
    if not m:
        return False
    key = (m.group(1), int(m.group(2)))
    if key not in _IMPL_LINE_CACHE:
        try:
            from common import REPO
            lines = open(os.path.join(REPO, m.group(1))).read().splitlines()
            _IMPL_LINE_CACHE[key] = " ".join(lines[key[1] - 1:key[1] + 2])
        except Exception:  # noqa
            _IMPL_LINE_CACHE[key] = ""
    return re.search(r"\bimpl\b[^{]*\b%s\b[^{]*\bfor\b" % re.escape(trait), _IMPL_LINE_CACHE[key]) is not None


_SRC_CONSTS = None


def _source_const_literal(name):
    """value of `const NAME: T = <byte string | integer literal>;` found exactly once in /repo's sources (constants whose MIR body
    the dump does not contain because rustc evaluated them)"""
    global _SRC_CONSTS
    if _SRC_CONSTS is None:
        _SRC_CONSTS = {}
        try:
            from common import REPO
            import glob
            for path in glob.glob(os.path.join(REPO, "crates", "*", "src", "**", "*.rs"), recursive=True):
                for m in re.finditer(r"\bconst\s+([A-Z][A-Z0-9_]*)\s*:\s*((?:[^=;\[]|\[[^\]]*\])+?)\s*=\s*(b\"(?:[^\"\\]|\\.)*\"|[0-9][0-9_]*(?:_?[ui](?:8|16|32|64|128|size))?)\s*;", open(path).read()):
                    _SRC_CONSTS.setdefault(m.group(1), []).append((m.group(2), m.group(3)))
        except Exception:  # noqa
            pass
    hits = _SRC_CONSTS.get(name, [])
    if len(hits) != 1:
        return None
    ty, lit = hits[0]
    if lit.startswith('b"'):
        raw = bytes(lit[2:-1], "utf-8").decode("unicode_escape").encode("latin-1")
        seq = Seq([BV(z3.BitVecVal(b, 8)) for b in raw], "array")
        return Ref(Cell(seq)) if ty.strip().startswith("&") else seq
    mm = re.match(r"^([0-9_]+?)_?([ui](?:8|16|32|64|128|size))?$", lit)
    t = mm.group(2) or ty.strip()
    if t in INT_TYPES:
        return bv_const(int(mm.group(1).replace("_", "")), t)
    return None


STD_TYPE_NAMES = {"Option", "Result", "Vec", "String", "str", "HashMap", "HashSet", "BTreeMap", "Box", "Rc", "Arc", "Duration", "Instant", "Ipv4Addr", "Ipv6Addr", "IpAddr",
                  "Iterator", "slice", "Cell", "RefCell", "Mutex", "RwLock", "char", "u8", "u16", "u32", "u64", "u128", "usize", "i8", "i16", "i32", "i64", "i128", "isize"}


class Call:
    def __init__(self, path, name, generics, args, dest_ty):
        self.path = path
        self.name = name
        self.generics = generics
        self.args = args
        self.dest_ty = dest_ty


class Exec:
    def __init__(self, prog, summaries, enums, max_unroll=8, max_paths=20000, timeout_s=None):
        if timeout_s is None:
            timeout_s = max(600, int(os.environ.get("VERIF_MIR_EXPLORE_S", "600")))
        self.prog = prog
        self.summaries = summaries
        self.enums = enums  # enum short name -> list of (variants list)
        self.max_unroll = max_unroll
        self.max_paths = max_paths
        self.timeout_s = timeout_s
        self.solver = z3.Solver()
        self.solver.set("timeout", int(os.environ.get("VERIF_Z3_TIMEOUT_MS", "60000")))
        self.queries = 0
        self.solver_time = 0.0
        self.stmt_cache = {}
        self.encoded_fns = set()
        self.used_summaries = set()

    # ------------------------------------------------------------------ path exploration
    def explore(self, run_path):
        """run_path(ex) executes one path (may raise Panic); returns list of (outcome, value, pc, env)."""
        results = []
        work = [[]]
        t0 = time.time()
        first_path_done = False
        self.undecided_paths = []
        while work:
            if len(results) > self.max_paths or time.time() - t0 > self.timeout_s:
                # stop here: what was explored is still decided (violations on those paths stand), the rest is not
                self.undecided_paths.append("path exploration stopped after %d paths / %.0f s with %d prefixes unexplored" % (len(results), time.time() - t0, len(work)))
                break
            prefix = work.pop()
            self.decisions = list(prefix)
            self.dpos = 0
            self.pc = []
            self.work = work
            self.fresh_id = 0
            self.env = {}
            try:
                val = run_path(self)
                results.append(("return", val, list(self.pc), self.env))
            except Panic as p:
                results.append(("panic", str(p), list(self.pc), self.env))
            except Infeasible:
                pass
            except (Unsupported, Unwind, AttributeError, TypeError, KeyError, IndexError, z3.Z3Exception) as u:
                # this path is not decided; the others still are (a violation found on them stands, a clean result does not).
                # Python-level errors are the executor meeting a value shape it has no rule for (e.g. code reading a field the
                # model left opaque): undecided, never a verdict.
                if not isinstance(u, (Unsupported, Unwind)):
                    u = Unsupported("executor has no rule for this value shape: %s: %s" % (type(u).__name__, u))
                if first_path_done is False:
                    raise u
                self.undecided_paths.append(str(u))
                if len(self.undecided_paths) > 200:
                    raise Unsupported(f"more than 200 undecidable paths, first: {self.undecided_paths[0]}")
            first_path_done = True
        return results

    def sat(self, extra):
        self.queries += 1
        t = time.time()
        self.solver.push()
        for c in self.pc:
            self.solver.add(c)
        for c in extra:
            self.solver.add(c)
        r = self.solver.check()
        self.solver.pop()
        self.solver_time += time.time() - t
        if r == z3.unknown:
            raise Unsupported("solver returned unknown on a feasibility query")
        return r == z3.sat

    def choose(self, options):
        """options: list of z3 Bool conditions (or None = unconditional). Returns the index taken on this path."""
        if self.dpos < len(self.decisions):
            i = self.decisions[self.dpos]
            self.dpos += 1
            if options[i] is not None:
                self.pc.append(options[i])
            return i
        feas = []
        for i, c in enumerate(options):
            if c is None:
                feas.append(i)
            else:
                cs = z3.simplify(c)
                if z3.is_true(cs):
                    feas.append(i)
                elif z3.is_false(cs):
                    continue
                elif self.sat([c]):
                    feas.append(i)
        if not feas:
            raise Infeasible()
        for j in feas[1:]:
            self.work.append(self.decisions + [j])
        i = feas[0]
        self.decisions.append(i)
        self.dpos += 1
        if options[i] is not None:
            self.pc.append(options[i])
        return i

    def branch(self, cond):
        """fork on a z3 Bool; returns python bool for this path"""
        cs = z3.simplify(cond)
        if z3.is_true(cs):
            return True
        if z3.is_false(cs):
            return False
        return self.choose([cond, z3.Not(cond)]) == 0

    def assume(self, cond):
        self.pc.append(cond)

    def fresh_bv(self, name, width, signed=False):
        self.fresh_id += 1
        return BV(z3.BitVec(f"{name}!{self.fresh_id}", width), signed)

    def fresh_bool(self, name):
        self.fresh_id += 1
        return Bool(z3.Bool(f"{name}!{self.fresh_id}"))

    # ------------------------------------------------------------------ function execution
    def resolve(self, path, nargs):
        """find a crate-local definition for a call path"""
        if path.startswith("<"):
            # <Self as Trait>::method implemented in the crate (e.g. derived PartialEq/Clone)
            nm = normalize_callee(path)
            m = re.match(r"^<(\S+) as (\S+)>::(\w+)$", nm)
            if not m:
                return None
            selfn, method = m.group(1), m.group(3)
            cands = [f for f in self.prog.by_short.get(method, []) if f.nparams == nargs and "{closure" not in f.name
                     and "<impl at" in f.name and ((1 in f.param_types and base_type_name(f.param_types[1]) == selfn) or
                                                   (nargs == 0 and base_type_name(f.ret) == selfn))]
            if not cands:
                def ret_self(r):
                    r = re.sub(r"^Result<(.*),[^,]*>$", r"\1", r.strip())
                    r = re.sub(r"^Option<(.*)>$", r"\1", r.strip())
                    return base_type_name(r)
                cands = [f for f in self.prog.by_short.get(method, []) if f.nparams == nargs and "{closure" not in f.name
                         and "<impl at" in f.name and ret_self(f.ret) == selfn]
                if len(cands) > 1:
                    def short(t):
                        t = re.sub(r"^Result<(.*),[^,]*>$", r"\1", t.strip())
                        t = re.sub(r"^Option<(.*)>$", r"\1", t.strip())
                        return re.sub(r"(\w+::)+", "", t).replace(" ", "")
                    raw = re.sub(r"(\w+::)+", "", split_top_as(path[1:path.index(">::")])[0]).replace(" ", "")
                    c3 = [f for f in cands if short(f.ret) == raw]
                    if c3:
                        cands = c3
            if len(cands) > 1:
                raw_self = strip_generics(split_top_as(path[1:path.index(">::")] if ">::" in path else path[1:])[0]).replace("&", "").strip()
                mods = [x for x in raw_self.split("::")[:-1] if x]
                if mods:
                    c2 = [f for f in cands if f.name.startswith(mods[-1] + "::") or ("::" + mods[-1] + "::") in f.name]
                    if c2:
                        cands = c2
            if len(cands) > 1:
                parts = split_top_as(path[1:path.index(">::")] if ">::" in path else path[1:])
                if len(parts) == 2:
                    tmods = [x for x in strip_generics(parts[1]).split("::")[:-1] if x]
                    if tmods:
                        c2 = [f for f in cands if f.name.startswith(tmods[-1] + "::") or ("::" + tmods[-1] + "::") in f.name]
                        if c2:
                            cands = c2
            if len(cands) > 1:
                # trait with a type argument (Match<Ipv4Addr> vs Match<Ipv6Addr>): the argument is a parameter type of the impl's method
                parts = split_top_as(path[1:path.index(">::")] if ">::" in path else path[1:])
                if len(parts) == 2 and "<" in parts[1]:
                    targ = base_type_name(parts[1][parts[1].index("<") + 1:parts[1].rindex(">")])
                    c2 = [f for f in cands if any(base_type_name(t.replace("&", "").strip()) == targ for k, t in f.param_types.items() if k >= 2)]
                    if c2:
                        cands = c2
            if len(cands) > 1:
                # last resort: read the `impl <Trait> for ..` line the MIR name points at
                parts = split_top_as(path[1:path.index(">::")] if ">::" in path else path[1:])
                if len(parts) == 2:
                    trait = base_type_name(parts[1])
                    c2 = [f for f in cands if _impl_line_names_trait(f.name, trait)]
                    if c2:
                        cands = c2
            if len(cands) == 1:
                return cands[0]
            if len(cands) > 1:
                raise Unsupported(f"ambiguous trait impl {path}: {[f.name for f in cands]}")
            return None
        name = strip_generics(path)
        segs = [s for s in name.split("::") if s]
        cands = self.prog.by_short.get(segs[-1], [])
        cands = [f for f in cands if f.nparams == nargs and "{closure" not in f.name]
        if not cands:
            return None
        if len(cands) == 1:
            f = cands[0]
            # an inherent/trait method of the crate must not capture a std method of the same name (Result::unwrap_or vs
            # ConfigValue::unwrap_or): the type segment of the call path has to be the method's self or return type
            if len(segs) >= 2 and "<impl at" in f.name and segs[-2] in STD_TYPE_NAMES:
                return None
            return f
        # disambiguate with the type/module segment before the function name
        if len(segs) >= 2:
            hint = segs[-2]
            c1 = [f for f in cands if (1 in f.param_types and base_type_name(f.param_types[1]) == hint) or
                  (f.nparams == 0 or 1 not in f.param_types or base_type_name(f.param_types[1]) != hint) and base_type_name(f.ret) == hint and "<impl at" in f.name]
            c1s = [f for f in c1 if 1 in f.param_types and base_type_name(f.param_types[1]) == hint] or c1
            if len(c1s) == 1:
                return c1s[0]
            def ret_inner(r):
                r = re.sub(r"^(?:\w+::)*Result<(.*),[^,]*>$", r"\1", r.strip())
                r = re.sub(r"^(?:\w+::)*Option<(.*)>$", r"\1", r.strip())
                return base_type_name(r)
            c1r = [f for f in cands if "<impl at" in f.name and ret_inner(f.ret) == hint]
            if len(c1r) == 1:
                return c1r[0]
            c2 = [f for f in cands if hint.lower() in f.name.lower() or (1 in f.param_types and hint in f.param_types[1])]
            if len(c2) == 1:
                return c2[0]
            if c2:
                cands = c2
        raise Unsupported(f"ambiguous callee {path}: {[f.name for f in cands]}")

    def call_fn(self, fn, args, depth=0):
        if depth > 300:
            raise Unsupported("call depth > 300")
        self.encoded_fns.add(fn.name)
        locs = {}
        for i in sorted(fn.types):
            locs[i] = Cell(None)
        locs.setdefault(0, Cell(None))
        for i, a in enumerate(args):
            locs[i + 1] = Cell(a)
        visits = {}
        bb = 0
        while True:
            visits[bb] = visits.get(bb, 0) + 1
            if visits[bb] > self.max_unroll:
                raise Unwind(f"{fn.name} bb{bb} visited more than {self.max_unroll} times")
            stmts = fn.blocks[bb]
            for s in stmts[:-1]:
                self.exec_stmt(fn, locs, s)
            nxt = self.exec_term(fn, locs, stmts[-1], depth)
            if nxt is None:
                return locs[0].v
            bb = nxt

    def call_closure(self, clo, args, depth=0):
        fn = self.prog.closures.get(clo.span)
        if fn is None:
            raise Unsupported(f"closure body not found: {clo.span}")
        env = Adt("closure", None, clo.captures)
        first = fn.param_types.get(1, "")
        if first.startswith("&"):
            env = Ref(Cell(env))
        return self.call_fn(fn, [env] + list(args), depth + 1)

    def call_callable(self, f, args, depth=0):
        if isinstance(f, Closure):
            return self.call_closure(f, args, depth)
        if isinstance(f, FnItem):
            return self.do_call(f.path, args, None, depth)
        raise Unsupported(f"call of non-callable {f!r}")

    # ------------------------------------------------------------------ places
    def parse_place(self, s):
        node, i = self._pp(s.strip(), 0)
        return node

    def _pp(self, s, i):
        if s[i] == "_":
            j = i + 1
            while j < len(s) and s[j].isdigit():
                j += 1
            node = ("local", int(s[i + 1:j]))
            i = j
        elif s[i] == "(":
            if s[i + 1] == "*":
                node, j = self._pp(s, i + 2)
                assert s[j] == ")", s
                node = ("deref", node)
                i = j + 1
            else:
                node, j = self._pp(s, i + 1)
                if s.startswith(" as ", j):
                    k = s.index(")", j)
                    node = ("downcast", node, s[j + 4:k])
                    i = k + 1
                elif s[j] == ".":
                    k = j + 1
                    while s[k].isdigit():
                        k += 1
                    idx = int(s[j + 1:k])
                    assert s.startswith(": ", k), s
                    # skip the type up to the matching ')'
                    depth, m = 0, k + 2
                    while True:
                        c = s[m]
                        if c in "(<[{":
                            depth += 1
                        elif c in ")>]}" and not (c == ">" and s[m - 1] == "-"):
                            if depth == 0:
                                break
                            depth -= 1
                        m += 1
                    node = ("field", node, idx)
                    i = m + 1
                else:
                    raise Unsupported(f"place syntax: {s}")
        else:
            raise Unsupported(f"place syntax: {s}")
        while i < len(s) and s[i] == "[":
            k = s.index("]", i)
            inner = s[i + 1:k]
            m = re.match(r"^(\d+) of (\d+)$", inner)
            if m:
                node = ("cindex", node, int(m.group(1)))
            elif inner.startswith("_"):
                node = ("index", node, int(inner[1:]))
            else:
                raise Unsupported(f"index syntax: {s}")
            i = k + 1
        return node, i

    def place_ref(self, locs, node):
        """-> Ref to the place"""
        k = node[0]
        if k == "local":
            return Ref(locs[node[1]], ())
        if k == "deref":
            r = self.read(locs, node[1])
            if isinstance(r, Ref):
                return r
            if isinstance(r, Str):
                return Ref(Cell(r))      # &str values are represented by the string itself
            raise Unsupported(f"deref of non-reference {r!r}")
        if k == "field":
            r = self.place_ref(locs, node[1])
            return Ref(r.cell, r.path + (node[2],))
        if k == "downcast":
            return self.place_ref(locs, node[1])
        if k == "cindex":
            r = self.place_ref(locs, node[1])
            return Ref(r.cell, r.path + (("i", node[2]),))
        if k == "index":
            r = self.place_ref(locs, node[1])
            idx = locs[node[2]].v
            iv = z3.simplify(idx.t)
            if not z3.is_bv_value(iv):
                # fork over the feasible positions of a short sequence (one path per position, plus the out-of-bounds path)
                seq = self.load(r)
                while isinstance(seq, Ref):
                    seq = self.load(seq)
                n = len(seq.items) if isinstance(seq, Seq) else None
                if n is None or n > 300:
                    raise Unsupported("symbolic index")
                k = self.choose([idx.t == i for i in range(n)] + [z3.UGE(idx.t, n)])
                if k == n:
                    raise Panic("index out of bounds")
                return Ref(r.cell, r.path + (("i", k),))
            return Ref(r.cell, r.path + (("i", iv.as_long()),))
        raise Unsupported(str(node))

    def load(self, ref):
        v = ref.cell.v
        for p in ref.path:
            v = self.project(v, p)
        return v

    def project(self, v, p):
        if isinstance(p, tuple):  # index
            if isinstance(v, Ref):
                v = self.load(v)
            if isinstance(v, Seq):
                if p[1] >= len(v.items):
                    raise Panic("index out of bounds")
                return v.items[p[1]]
            raise Unsupported(f"index into {v!r}")
        if isinstance(v, Tup):
            return v.items[p]
        if isinstance(v, Adt):
            if p >= len(v.fields):
                raise Unsupported(f"field {p} of {v!r}")
            return v.fields[p]
        raise Unsupported(f"project {p} of {v!r}")

    def store(self, ref, val):
        if not ref.path:
            ref.cell.v = val
            return
        v = ref.cell.v
        for p in ref.path[:-1]:
            v = self.project(v, p)
        p = ref.path[-1]
        if isinstance(p, tuple):
            v.items[p[1]] = val
        elif isinstance(v, Tup):
            v.items[p] = val
        elif isinstance(v, Adt):
            while len(v.fields) <= p:
                v.fields.append(None)
            v.fields[p] = val
        elif v is None:
            raise Unsupported("store into field of uninitialised aggregate")
        else:
            raise Unsupported(f"store into {v!r}")

    def read(self, locs, node):
        return self.load(self.place_ref(locs, node))

    # ------------------------------------------------------------------ operands / rvalues
    def operand(self, fn, locs, s):
        s = s.strip()
        if s.startswith("no_retag "):
            s = s[9:]
        if s.startswith("copy "):
            return self.read(locs, self.parse_place(s[5:]))
        if s.startswith("move "):
            return self.read(locs, self.parse_place(s[5:]))
        if s.startswith("const "):
            return self.constant(fn, s[6:].strip())
        return FnItem(s)

    def constant(self, fn, c):
        m = re.match(r"^(-?\d+)_(u8|u16|u32|u64|u128|usize|i8|i16|i32|i64|i128|isize)$", c)
        if m:
            return bv_const(int(m.group(1)), m.group(2))
        m = re.match(r"^(?:core::num::<impl )?(u8|u16|u32|u64|u128|usize|i8|i16|i32|i64|i128|isize)>?::(MAX|MIN)$", c)
        if m:
            w, sg = INT_TYPES[m.group(1)]
            if m.group(2) == "MAX":
                return bv_const((1 << (w - 1)) - 1 if sg else (1 << w) - 1, m.group(1))
            return bv_const(-(1 << (w - 1)) if sg else 0, m.group(1))
        m = re.match(r"^'\\u\{([0-9a-fA-F]+)\}'$", c)
        if m:
            return BV(z3.BitVecVal(int(m.group(1), 16), 32))
        m = re.match(r"^'(\\?.)'$", c)
        if m:
            ch = m.group(1)
            ch = {"\\n": "\n", "\\t": "\t", "\\\\": "\\", "\\'": "'"}.get(ch, ch[-1])
            return BV(z3.BitVecVal(ord(ch), 32))
        if c == "[]":
            return Seq([], "array")
        if c == "RangeFull":
            return Adt("RangeFull", None, [])
        if c == "true":
            return Bool(True)
        if c == "false":
            return Bool(False)
        if c == "()":
            return UNIT
        if c.startswith('"'):
            return Str(text=bytes(c[1:-1], "utf-8").decode("unicode_escape"))
        if c.startswith('b"'):
            return Str(text=c[2:-1])
        if c.startswith("ZeroSized: "):
            t = c[len("ZeroSized: "):]
            sp = re.search(r"\{closure@([^}]*)\}", t)
            if sp and t.startswith("{closure@"):
                return Closure(sp.group(1), [])
            return FnItem(t)
        if re.match(r"^Option::<.*>::None$", c):
            return Adt("Option", "None", [])
        if c.startswith("{alloc"):
            return Opaque("static", what=c)
        m = re.match(r"^(.*)::promoted\[(\d+)\]$", c)
        if m:
            want = "promoted[%s]" % m.group(2)
            segs = [x for x in strip_generics(m.group(1)).split("::") if x]
            # owner = the trailing run of {closure#n} segments plus the function name before them
            k = len(segs) - 1
            while k > 0 and segs[k].startswith("{closure"):
                k -= 1
            owner = "::".join(segs[k:])
            hits = [f for name, f in self.prog.fns.items() if name.endswith("::" + owner + "::" + want) or name == owner + "::" + want]
            if len(hits) > 1 and fn is not None:
                # same function name in several impls: prefer the one defined in the caller's own impl block
                span = re.search(r"<impl at [^>]*>", fn.name)
                h2 = [f for f in hits if span and span.group(0) in f.name]
                hits = h2 or hits
            if len(hits) == 1:
                return self.call_fn(hits[0], [])
            raise Unsupported(f"promoted constant not found uniquely: {c} ({[f.name for f in hits][:4]})")
        m = re.match(r"^(?:\w+::)*(\w+)::(\w+)$", c)
        if m and any(m.group(2) in variants for variants in self.enums.get(m.group(1), [])):
            return Adt(m.group(1), m.group(2), [])      # field-less enum variant used as a constant
        name = normalize_callee(c)
        if name in self.summaries:
            return self.summaries[name](self, Call(c, name, [], [], None))
        # crate constant with a body in the dump
        tail = name.split("::")[-1]
        for fname, f in self.prog.fns.items():
            if fname.split("::")[-1] == tail and f.nparams == 0 and "promoted" not in fname:
                return self.call_fn(f, [])
        lit = _source_const_literal(tail)
        if lit is not None:
            return lit
        raise Unsupported(f"constant {c}")

    def variant_index(self, adt):
        ty = base_type_name(adt.ty)
        if ty == "Ordering":
            return ORDERING[adt.variant]
        if ty in STD_ENUMS:
            return STD_ENUMS[ty].index(adt.variant)
        for variants in self.enums.get(ty, []):
            if adt.variant in variants:
                return variants.index(adt.variant)
        raise Unsupported(f"unknown enum variant {adt.ty}::{adt.variant}")

    def rvalue(self, fn, locs, rv, dest_ty=None):
        rv = rv.strip()
        if rv.startswith("&"):
            m = re.match(r"^&(?:raw const |raw mut |mut |'\w+ )?(?:\(fake[^)]*\) |fake shallow |fake )?()(.*)$", rv)
            return self.place_ref(locs, self.parse_place(m.group(2)))
        if rv.startswith("discriminant("):
            v = self.read(locs, self.parse_place(rv[len("discriminant("):-1]))
            if isinstance(v, Adt) and v.variant is not None:
                return bv_const(self.variant_index(v), "isize")
            if isinstance(v, Bool):
                return BV(z3.If(v.t, z3.BitVecVal(1, 64), z3.BitVecVal(0, 64)), True)
            raise Unsupported(f"discriminant of {v!r}")
        m = re.match(r"^(\w+)\((.*)\)$", rv)
        if m and m.group(1) in BINOPS:
            a, b = [self.operand(fn, locs, x) for x in split_top(m.group(2))]
            return self.binop(m.group(1), a, b)
        if m and m.group(1) in ("Not", "Neg"):
            a = self.operand(fn, locs, m.group(2))
            if isinstance(a, Bool):
                return Bool(z3.Not(a.t))
            return BV(~a.t if m.group(1) == "Not" else -a.t, a.signed)
        if m and m.group(1) in ("PtrMetadata", "Len"):
            a = self.operand(fn, locs, m.group(2)) if m.group(1) == "PtrMetadata" else self.read(locs, self.parse_place(m.group(2)))
            if isinstance(a, Ref):
                a = self.load(a)
            if isinstance(a, Seq):
                return bv_const(len(a.items), "usize")
            if isinstance(a, Str) and a.text is not None:
                return bv_const(len(a.text.encode()), "usize")
            raise Unsupported(f"length of {a!r}")
        cm = re.match(r"^(.*) as (.*?) \((\w+)(\(.*\))?\)$", rv)
        if cm and (cm.group(1).startswith(("copy ", "move ", "const "))):
            v = self.operand(fn, locs, cm.group(1))
            return self.cast(v, cm.group(2), cm.group(3))
        if rv.startswith(("copy ", "move ", "const ", "no_retag ")):
            return self.operand(fn, locs, rv)
        if rv.startswith("("):
            inner = rv[1:-1].strip()
            return Tup([self.operand(fn, locs, x) for x in split_top(inner)] if inner else [])
        if rv.startswith("["):
            inner = rv[1:-1]
            parts = split_top(inner, ";")
            if len(parts) == 2:
                n = self.constant(fn, parts[1].strip().replace("const ", ""))
                nv = z3.simplify(n.t).as_long()
                if nv > 64:
                    raise Unsupported("array repeat > 64")
                return Seq([self.operand(fn, locs, parts[0]) for _ in range(nv)], "array")
            return Seq([self.operand(fn, locs, x) for x in split_top(inner)] if inner.strip() else [], "array")
        if rv.startswith("{closure@"):
            sp = re.match(r"^\{closure@([^}]*)\}( \{(.*)\})?$", rv)
            caps = []
            if sp.group(3):
                for f in split_top(sp.group(3)):
                    caps.append(self.operand(fn, locs, f.split(": ", 1)[1]))
            return Closure(sp.group(1), caps)
        # struct aggregate  Path { a: x, b: y }
        sm = re.match(r"^(.*?) \{ (.*) \}$", rv)
        if sm and not rv.startswith("const"):
            names, vals = [], []
            for f in split_top(sm.group(2)):
                n, v = f.split(": ", 1)
                names.append(n.strip())
                vals.append(self.operand(fn, locs, v))
            return self.make_adt(sm.group(1), vals, names)
        # enum variant / tuple struct ctor  Path::Variant(args)  or unit  Path::Variant
        if rv.endswith(")"):
            depth = 0
            for i in range(len(rv) - 1, -1, -1):
                if rv[i] == ")":
                    depth += 1
                elif rv[i] == "(":
                    depth -= 1
                    if depth == 0:
                        path, args = rv[:i], rv[i + 1:-1]
                        vals = [self.operand(fn, locs, x) for x in split_top(args)] if args.strip() else []
                        return self.make_adt(path, vals, None, dest_ty)
        return self.make_adt(rv, [], None, dest_ty)

    def make_adt(self, path, vals, names, dest_ty=None):
        p = path.strip()
        segs = split_path(p)
        last = strip_generics(segs[-1])
        owner = "::".join(segs[:-1])
        if not owner and dest_ty:
            # external enums print their variants without a path: use the destination's type
            dn = base_type_name(dest_ty)
            if (dn in STD_ENUMS and last in STD_ENUMS[dn]) or any(last in v for v in self.enums.get(dn, [])):
                owner = strip_generics(dest_ty)
        oname = base_type_name(owner) if owner else ""
        # enum variant?
        if oname in STD_ENUMS and last in STD_ENUMS[oname]:
            return Adt(oname, last, vals, names)
        for variants in self.enums.get(oname, []):
            if last in variants:
                return Adt(strip_generics(owner), last, vals, names)
        return Adt(strip_generics(p), None, vals, names)

    def cast(self, v, ty, kind):
        ty = ty.strip()
        if kind in ("IntToInt",):
            w, s = (32, False) if ty == "char" else INT_TYPES[ty]
            if isinstance(v, Bool):
                return BV(z3.If(v.t, z3.BitVecVal(1, w), z3.BitVecVal(0, w)), s)
            if w == v.width:
                return BV(v.t, s)
            if w < v.width:
                return BV(z3.Extract(w - 1, 0, v.t), s)
            return BV(z3.SignExt(w - v.width, v.t) if v.signed else z3.ZeroExt(w - v.width, v.t), s)
        if kind in ("PointerCoercion", "Transmute", "PtrToPtr", "Subtype"):
            return v
        raise Unsupported(f"cast kind {kind}")

    def binop(self, op, a, b):
        if isinstance(a, Bool) and isinstance(b, Bool):
            if op == "Eq":
                return Bool(a.t == b.t)
            if op == "Ne":
                return Bool(a.t != b.t)
            if op == "BitAnd":
                return Bool(z3.And(a.t, b.t))
            if op == "BitOr":
                return Bool(z3.Or(a.t, b.t))
            if op == "BitXor":
                return Bool(z3.Xor(a.t, b.t))
            raise Unsupported(f"bool {op}")
        if not (isinstance(a, BV) and isinstance(b, BV)):
            raise Unsupported(f"binop {op} on {a!r}, {b!r}")
        s = a.signed
        x, y = a.t, b.t
        if op in ("Shl", "Shr", "ShlUnchecked", "ShrUnchecked") and y.size() != x.size():
            y = z3.ZeroExt(x.size() - y.size(), y) if y.size() < x.size() else z3.Extract(x.size() - 1, 0, y)
        if op in ("Add", "AddUnchecked"):
            return BV(x + y, s)
        if op in ("Sub", "SubUnchecked"):
            return BV(x - y, s)
        if op in ("Mul", "MulUnchecked"):
            return BV(x * y, s)
        if op == "Div":
            return BV(x / y if s else z3.UDiv(x, y), s)
        if op == "Rem":
            return BV(z3.SRem(x, y) if s else z3.URem(x, y), s)
        if op == "BitAnd":
            return BV(x & y, s)
        if op == "BitOr":
            return BV(x | y, s)
        if op == "BitXor":
            return BV(x ^ y, s)
        if op in ("Shl", "ShlUnchecked"):
            return BV(x << y, s)
        if op in ("Shr", "ShrUnchecked"):
            return BV(x >> y if s else z3.LShR(x, y), s)
        if op == "Eq":
            return Bool(x == y)
        if op == "Ne":
            return Bool(x != y)
        if op == "Lt":
            return Bool(x < y if s else z3.ULT(x, y))
        if op == "Le":
            return Bool(x <= y if s else z3.ULE(x, y))
        if op == "Gt":
            return Bool(x > y if s else z3.UGT(x, y))
        if op == "Ge":
            return Bool(x >= y if s else z3.UGE(x, y))
        w = x.size()
        if op == "AddWithOverflow":
            if s:
                ov = z3.Or(z3.Not(z3.BVAddNoOverflow(x, y, True)), z3.Not(z3.BVAddNoUnderflow(x, y)))
            else:
                ov = z3.Not(z3.BVAddNoOverflow(x, y, False))
            return Tup([BV(x + y, s), Bool(ov)])
        if op == "SubWithOverflow":
            if s:
                ov = z3.Or(z3.Not(z3.BVSubNoOverflow(x, y)), z3.Not(z3.BVSubNoUnderflow(x, y, True)))
            else:
                ov = z3.ULT(x, y)
            return Tup([BV(x - y, s), Bool(ov)])
        if op == "MulWithOverflow":
            if s:
                ov = z3.Or(z3.Not(z3.BVMulNoOverflow(x, y, True)), z3.Not(z3.BVMulNoUnderflow(x, y)))
            else:
                ov = z3.Not(z3.BVMulNoOverflow(x, y, False))
            return Tup([BV(x * y, s), Bool(ov)])
        if op == "Cmp":
            lt = (x < y) if s else z3.ULT(x, y)
            return BV(z3.If(lt, z3.BitVecVal(-1, 8), z3.If(x == y, z3.BitVecVal(0, 8), z3.BitVecVal(1, 8))), True)
        raise Unsupported(f"binop {op}")

    # ------------------------------------------------------------------ statements / terminators
    def exec_stmt(self, fn, locs, s):
        if s.startswith(("StorageLive", "StorageDead", "nop", "FakeRead", "PlaceMention", "Retag", "AscribeUserType", "Coverage", "ConstEvalCounter", "Deinit")) or s.startswith("//"):
            return
        if s.startswith("assume("):
            return
        s = s.rstrip(";")
        if " = " not in s:
            raise Unsupported(f"statement: {s}")
        lhs, rhs = s.split(" = ", 1)
        if lhs.startswith("discriminant("):
            raise Unsupported("SetDiscriminant")
        node = self.parse_place(lhs)
        dest_ty = fn.types.get(node[1]) if node[0] == "local" else None
        val = self.rvalue(fn, locs, rhs, dest_ty)
        self.store(self.place_ref(locs, node), val)

    def exec_term(self, fn, locs, t, depth):
        t = t.rstrip(";")
        if t == "return":
            return None
        if t.startswith("goto -> "):
            return int(t[len("goto -> bb"):])
        if t == "unreachable":
            raise Infeasible()
        if t.startswith("resume") or t.startswith("unwind"):
            raise Panic("unwind")
        m = re.match(r"^switchInt\((.*)\) -> \[(.*)\]$", t)
        if m:
            v = self.operand(fn, locs, m.group(1))
            targets = []
            other = None
            for part in split_top(m.group(2)):
                k, bbs = part.split(": ")
                if k.strip() == "otherwise":
                    other = int(bbs.strip()[2:])
                else:
                    targets.append((int(k), int(bbs.strip()[2:])))
            if isinstance(v, Bool):
                term = z3.If(v.t, z3.BitVecVal(1, 8), z3.BitVecVal(0, 8))
            else:
                term = v.t
            ts = z3.simplify(term)
            w = term.size()
            if z3.is_bv_value(ts):
                val = ts.as_long()
                for k, bb in targets:
                    if (k % (1 << w)) == val:
                        return bb
                return other
            conds = [term == z3.BitVecVal(k, w) for k, _ in targets]
            opts = list(conds)
            bbs = [bb for _, bb in targets]
            if other is not None:
                opts.append(z3.And([z3.Not(c) for c in conds]) if conds else None)
                bbs.append(other)
            return bbs[self.choose(opts)]
        m = re.match(r"^drop\((.*)\) -> \[return: bb(\d+), .*\]$", t)
        if m:
            return int(m.group(2))
        m = re.match(r"^assert\((!?)(.*?), \"(.*)\"(?:, .*)?\) -> \[success: bb(\d+), .*\]$", t)
        if m:
            v = self.operand(fn, locs, m.group(2))
            cond = z3.Not(v.t) if m.group(1) else v.t
            if self.branch(cond):
                return int(m.group(4))
            raise Panic("assert failed: " + m.group(3) + " in " + fn.name.split("::")[-1])
        # calls
        m = re.match(r"^(?:(.*?) = )?(.*) -> (\[return: bb(\d+), .*\]|unwind .*|bb\d+)$", t)
        if m:
            lhs, call, ret_bb = m.group(1), m.group(2), m.group(4)
            # split callee(args)
            d = 0
            in_str = False
            pos = None
            for i in range(len(call) - 1, -1, -1):
                c = call[i]
                if 0 < i < len(call) - 1 and call[i - 1] == "'" and call[i + 1] == "'":
                    continue                # inside a char literal such as '"' or ')'
                if c == '"' and (i == 0 or call[i - 1] != "\\"):
                    in_str = not in_str
                if in_str:
                    continue
                if c == ")":
                    d += 1
                elif c == "(":
                    d -= 1
                    if d == 0:
                        pos = i
                        break
            callee, argstr = call[:pos], call[pos + 1:-1]
            args = [self.operand(fn, locs, a) for a in split_top(argstr)] if argstr.strip() else []
            dest_ty = None
            node = None
            if lhs:
                node = self.parse_place(lhs)
                dest_ty = fn.types.get(node[1]) if node[0] == "local" else None
            if callee.startswith(("copy ", "move ")):
                f = self.operand(fn, locs, callee)
                val = self.call_callable(f, args, depth)
            else:
                val = self.do_call(callee, args, dest_ty, depth)
            if ret_bb is None:
                raise Panic(f"diverging call {callee} returned")
            if node is not None:
                self.store(self.place_ref(locs, node), val)
            return int(ret_bb)
        raise Unsupported(f"terminator: {t}")

    def all_generics(self, path):
        """every turbofish argument in a call path, in order"""
        out, depth, start, i = [], 0, None, 0
        while i < len(path):
            if path.startswith("::<", i) and depth == 0:
                depth = 1
                start = i + 3
                i += 3
                continue
            c = path[i]
            if depth > 0:
                if c == "<":
                    depth += 1
                elif c == ">" and path[i - 1] != "-":
                    depth -= 1
                    if depth == 0:
                        out.extend(split_top(path[start:i]))
            i += 1
        return out

    def do_call(self, callee, args, dest_ty, depth):
        # inside a generic body rustc prints the type parameter itself (`<T as Trait>::m`): substitute the single type
        # argument the enclosing call was made with
        gstack = getattr(self, "generic_stack", [])
        m = re.match(r"^<([A-Z]\w?) as (.*)$", callee)
        if m and gstack and len(gstack[-1]) == 1 and not gstack[-1][0].startswith("{"):
            callee = "<" + gstack[-1][0] + " as " + m.group(2)
        name = normalize_callee(callee)
        key = name if name in self.summaries else re.sub(r"^<[^>]*? as ", "<* as ", name)
        if key not in self.summaries and not name.startswith("<"):
            tail2 = "::".join(name.split("::")[-2:])
            if tail2 in self.summaries:
                key = tail2
        if key in self.summaries:
            self.used_summaries.add(key)
            return self.summaries[key](self, Call(callee, name, callee_generics(callee), args, dest_ty))
        f = self.resolve(callee, len(args))
        if f is not None:
            if not hasattr(self, "generic_stack"):
                self.generic_stack = []
            self.generic_stack.append([g for g in self.all_generics(callee) if not g.strip().startswith("'")])
            try:
                return self.call_fn(f, args, depth + 1)
            finally:
                self.generic_stack.pop()
        if re.match(r"^<.* as PartialEq>::ne$", name):
            r = self.do_call(callee[:-2] + "eq", args, dest_ty, depth)      # default method: !eq
            return Bool(z3.Not(r.t))
        if re.match(r"^<[A-Z][A-Z_0-9]+ as Deref>::deref$", name):
            self.used_summaries.add("<lazy_static metric as Deref>::deref")
            return Opaque("metric")         # lazy_static prometheus metrics: side effects outside every property
        raise Unsupported(f"no summary and no body for callee `{name}` ({callee[:120]})")


def split_path(p):
    """split a path on '::' at depth 0"""
    out, depth, cur, i = [], 0, [], 0
    while i < len(p):
        c = p[i]
        if c in "<([{":
            depth += 1
        elif c in ">)]}" and not (c == ">" and p[i - 1] == "-"):
            depth -= 1
        if depth == 0 and p.startswith("::", i):
            out.append("".join(cur))
            cur = []
            i += 2
            continue
        cur.append(c)
        i += 1
    out.append("".join(cur))
    # re-attach turbofish segments ("<...>" alone) to the previous segment
    merged = []
    for s in out:
        if s.startswith("<") and merged and not merged[-1].startswith("<"):
            merged[-1] += "::" + s
        else:
            merged.append(s)
    return merged
