"""C06 over the real cache code: CacheHandler::get_entry / calculate_expiry / CacheValue::expiry /
clone_with_ttl_decrement_out_reply / DNSPkt::clone_with_ttl_decrement / DNSPkt::get_expiry from MIR."""
import time

import z3

from .interp import Exec
from .summaries import S, duration, instant, NANOS
from .values import BV, Bool, Adt, Seq, Cell, Ref, Opaque, Unsupported
from .props_pool import check


def build(structs, name, **vals):
    cands = [f for f in structs.get(name, []) if set(f) == set(vals)]
    if len(cands) != 1:
        raise Unsupported(f"struct {name} with fields {sorted(vals)} not found uniquely in the source ({structs.get(name)})")
    order = cands[0]
    return Adt(name, None, [vals[f] for f in order], list(order))


def field(structs, adt, name):
    return adt.fields[adt.names.index(name)]


def mk_rr(structs, tag):
    ttl = z3.BitVec(f"ttl_{tag}", 32)
    rr = build(structs, "RR", domain=Adt("Domain", None, [BV(z3.BitVec(f"owner_{tag}", 32))]),
               **{"class": Adt("Class", None, [BV(z3.BitVecVal(1, 16))])},
               rrtype=Adt("Type", None, [BV(z3.BitVec(f"type_{tag}", 16))]), ttl=BV(ttl),
               rdata=Adt("RData", "Other", [Seq([BV(z3.BitVec(f"rdata_{tag}", 8))])]))
    return rr, ttl


def mk_pkt(structs, shape):
    ttls = []
    secs = []
    for sname, n in zip(("an", "ns", "ad"), shape):
        rrs = []
        for i in range(n):
            rr, ttl = mk_rr(structs, f"{sname}{i}")
            rrs.append(rr)
            ttls.append(ttl)
        secs.append(Seq(rrs))
    b = lambda n: Bool(z3.Bool(n))  # noqa
    q = build(structs, "Question", qdomain=Adt("Domain", None, [BV(z3.BitVec("qname", 32))]),
              qclass=Adt("Class", None, [BV(z3.BitVecVal(1, 16))]), qtype=Adt("Type", None, [BV(z3.BitVec("qtype", 16))]))
    pkt = build(structs, "DNSPkt", qid=BV(z3.BitVec("qid", 16)), rd=b("rd"), tc=b("tc"), aa=b("aa"), qr=b("qr"),
                opcode=Adt("Opcode", None, [BV(z3.BitVecVal(0, 8))]), cd=b("cd"), ad=b("ad"), ra=b("ra"),
                rcode=Adt("RCode", None, [BV(z3.BitVec("rcode", 16))]), bufsize=BV(z3.BitVecVal(512, 16)),
                edns_ver=Adt("Option", "None", []), edns_do=b("do"), question=q, answer=secs[0], nameserver=secs[1],
                additional=secs[2], edns=Adt("Option", "None", []))
    return pkt, ttls


def mk_key(structs, tag):
    return build(structs, "CacheKey", qname=Adt("Domain", None, [BV(z3.BitVec(f"{tag}_name", 32))]),
                 qtype=Adt("Type", None, [BV(z3.BitVec(f"{tag}_type", 16))]), edns_do=Bool(z3.Bool(f"{tag}_do")),
                 cd=Bool(z3.Bool(f"{tag}_cd")))


def key_eq(structs, a, b):
    return z3.And(field(structs, a, "qname").fields[0].t == field(structs, b, "qname").fields[0].t,
                  field(structs, a, "qtype").fields[0].t == field(structs, b, "qtype").fields[0].t,
                  field(structs, a, "edns_do").t == field(structs, b, "edns_do").t,
                  field(structs, a, "cd").t == field(structs, b, "cd").t)


def obligation(prog, enums, structs, shape):
    """-> (failed list, exec, npaths)"""
    def find(name, nargs, hint):
        fs = [f for f in prog.find(name, nargs) if hint in f.name and "{closure" not in f.name and "isomer_erbium_verif" not in f.name]
        if len(fs) != 1:
            raise Unsupported(f"{name}/{nargs} not found uniquely ({[f.name for f in fs]})")
        return fs[0]
    get_entry = find("get_entry", 3, "cache")
    calc = find("calculate_expiry", 2, "cache")
    ex = Exec(prog, S, enums, max_unroll=sum(shape) + 3)

    def run(e):
        pkt, ttls = mk_pkt(structs, shape)
        e.env["ttls"] = ttls
        stored, lookup = mk_key(structs, "stored"), mk_key(structs, "lookup")
        e.env["keys"] = (stored, lookup)
        reply = Adt("Result", "Ok", [pkt])
        handler = Ref(Cell(Opaque("CacheHandler")))
        lifetime = e.call_fn(calc, [handler, Ref(Cell(reply))])        # the real lifetime computation
        e.env["lifetime"] = lifetime
        bs, bn = z3.BitVec("birth_s", 64), z3.BitVec("birth_n", 32)
        ns_, nn = z3.BitVec("now_s", 64), z3.BitVec("now_n", 32)
        for c in (z3.ULT(bn, NANOS), z3.ULT(nn, NANOS), z3.ULE(bs, 1 << 40), z3.ULE(ns_, 1 << 40)):
            e.assume(c)
        birth, now = instant(bs, bn), instant(ns_, nn)
        # the monotonic clock does not go backwards
        e.assume(z3.Or(z3.ULT(bs, ns_), z3.And(bs == ns_, z3.ULE(bn, nn))))
        e.env["birth"], e.env["now"] = (bs, bn), (ns_, nn)
        value = build(structs, "CacheValue", reply=reply, birth=birth, lifetime=lifetime)
        cache = Opaque("HashMap", entries=[(stored, Cell(value))], key_ty="CacheKey")
        e.env["pkt"] = pkt
        return e.call_fn(get_entry, [Ref(Cell(cache)), Ref(Cell(lookup)), now])
    paths = ex.explore(run)
    failed = []
    kinds = {}
    for outcome, val, pc, env in paths:
        ttls = env.get("ttls", [])
        if not ttls and outcome != "panic":
            pass
        stored, lookup = env["keys"]
        (bs, bn), (ns_, nn) = env["birth"], env["now"]
        # elapsed = now - birth as (secs, nanos)
        borrow = z3.ULT(nn, bn)
        el_s = ns_ - bs - z3.If(borrow, z3.BitVecVal(1, 64), z3.BitVecVal(0, 64))
        el_n = z3.If(borrow, nn + z3.BitVecVal(NANOS, 32) - bn, nn - bn)
        minttl = None
        for t in ttls:
            minttl = t if minttl is None else z3.If(z3.ULT(t, minttl), t, minttl)
        life = env["lifetime"]
        claims = []
        if ttls:
            claims.append(("lifetime == minimum TTL over answer + authority + additional",
                           z3.And(life.fields[0].t == z3.ZeroExt(32, minttl), life.fields[1].t == 0)))
        else:
            claims.append(("a reply without records has lifetime zero", z3.And(life.fields[0].t == 0, life.fields[1].t == 0)))
        same = key_eq(structs, stored, lookup)
        within = z3.Or(z3.ULT(el_s, z3.ZeroExt(32, minttl)), z3.And(el_s == z3.ZeroExt(32, minttl), el_n == 0)) if ttls else z3.And(el_s == 0, el_n == 0)
        if outcome == "panic":
            kinds["panic"] = kinds.get("panic", 0) + 1
            claims.append(("no panic while ageing TTLs: " + str(val), z3.BoolVal(False)))
        elif val.variant == "Some":
            kinds["hit"] = kinds.get("hit", 0) + 1
            res = val.fields[0]
            claims.append(("a hit is only returned for the same name, type, DO and CD bits", same))
            claims.append(("a hit is only served while the smallest TTL has not yet elapsed since the reply was obtained", within))
            if res.variant != "Ok":
                claims.append(("a cached reply is served as a reply", z3.BoolVal(False)))
            else:
                out = res.fields[0]
                orig = env["pkt"]
                ok_all = []
                for sec in ("answer", "nameserver", "additional"):
                    a = field(structs, orig, sec).items
                    b = field(structs, out, sec).items
                    ok_all.append(z3.BoolVal(len(a) == len(b)))
                    for x, y in zip(a, b):
                        tx, ty = field(structs, x, "ttl").t, field(structs, y, "ttl").t
                        ok_all.append(z3.And(ty == tx - z3.Extract(31, 0, el_s), z3.ULE(ty, tx), z3.ULE(z3.Extract(31, 0, el_s), tx)))
                        ok_all.append(field(structs, x, "rdata").fields[0].items[0].t == field(structs, y, "rdata").fields[0].items[0].t)
                        ok_all.append(field(structs, x, "domain").fields[0].t == field(structs, y, "domain").fields[0].t)
                        ok_all.append(field(structs, x, "rrtype").fields[0].t == field(structs, y, "rrtype").fields[0].t)
                claims.append(("every served TTL == original TTL - whole seconds elapsed (never grows, never wraps); records otherwise unchanged and in their sections",
                               z3.And(ok_all)))
                claims.append(("header of the cached reply unchanged",
                               z3.And(field(structs, out, "rcode").fields[0].t == field(structs, orig, "rcode").fields[0].t,
                                      field(structs, out, "qid").t == field(structs, orig, "qid").t)))
        else:
            kinds["miss"] = kinds.get("miss", 0) + 1
            claims.append(("an unexpired entry for the identical key is served from the cache", z3.Not(z3.And(same, within))))
        for name, f in claims:
            m = check(ex, pc, f, name)
            if m is not None:
                ev = lambda t: m.eval(t, model_completion=True)  # noqa
                cex = dict(ttls=[ev(t).as_long() for t in ttls], birth=[ev(bs).as_long(), ev(bn).as_long()],
                           now=[ev(ns_).as_long(), ev(nn).as_long()], keys_equal=str(ev(same)), outcome=outcome if outcome == "panic" else val.variant)
                failed.append(dict(check="", description=name, location="dns/cache/mod.rs get_entry", kind="violation", counterexample=cex))
    return failed, ex, len(paths), kinds
