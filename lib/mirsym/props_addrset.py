"""C02 (configuration side): which addresses a policy may hand out.

  default_policy  the closure of dhcp::build_default_config that turns one `addresses:` prefix into a sub-policy is executed
                  from MIR with a symbolic prefix (address, length), symbolic receiving address and an arbitrary set of
                  addresses used by configured policies.  The address set it builds is the real iterator pipeline
                  (range -> map -> filter -> collect -> set difference); membership in it is decided for an arbitrary
                  address in both directions against the manual's set:
                     D = { ip | network < ip < broadcast, ip != receiving address, ip not used by a configured policy }
                  ("addresses on this interface except for the network address, broadcast address, and the local
                  interface IPv4 address ... also exclude any address given in a normal policy", erbium.conf(5)).
  used_addresses  dhcp::config::Config::get_all_used_addresses + Policy::get_all_used_addresses on policy trees of
                  concrete shape with symbolic addresses: the result is exactly the union of every apply_address set
                  anywhere in the tree.
"""
import z3

from .interp import Exec
from .props_cache import build, field
from .props_pool import check
from .summaries import S, KMap, some, NONE, deref
from .values import BV, Bool, Adt, Seq, Cell, Ref, Opaque, Unsupported


def find_closure(prog, outer, idx_path):
    name = outer + "".join("::{closure#%d}" % i for i in idx_path)
    fs = [f for f in prog.fns.values() if f.name == name] if hasattr(prog, "fns") else []
    if not fs:
        fs = [f for f in prog.all() if f.name == name] if hasattr(prog, "all") else []
    if len(fs) != 1:
        raise Unsupported(f"{name} not found uniquely in the MIR dump")
    return fs[0]


def ip(t):
    return Adt("Ipv4Addr", None, [BV(t)])


def set_member(ex, s, t):
    """membership formula of the 32-bit term t in an explicit / predicate / difference set (not in a lazy pipeline)"""
    s = deref(ex, s)
    parts = [cell.v.fields[0].t == t for cell in getattr(s, "items", [])]
    if getattr(s, "pred", None) is not None:
        parts.append(s.pred(t))
    f = z3.Or(parts) if parts else z3.BoolVal(False)
    if getattr(s, "union", None):
        f = z3.Or([f] + [set_member(ex, u, t) for u in s.union])
    if getattr(s, "diff", None) is not None:
        a, b = s.diff
        return z3.And(set_member(ex, a, t), z3.Not(set_member(ex, b, t)))
    if getattr(s, "lazy", None) is not None:
        raise Unsupported("membership in a lazily generated set must go through the generator")
    return f


def lazy_of(ex, s):
    """(lazy pipeline, [sets subtracted]) of `pipeline.collect() - b - ...`"""
    s = deref(ex, s)
    minus = []
    while getattr(s, "diff", None) is not None:
        a, b = s.diff
        minus.append(b)
        s = deref(ex, a)
    if getattr(s, "lazy", None) is None:
        raise Unsupported("address set is not range-generated")
    if getattr(s, "items", []):
        raise Unsupported("mixed explicit/lazy set")
    return s.lazy, minus


def run_stages(e, lazy, o):
    """element produced for generator value o and the conjunction of the filter results (forks inside closures)"""
    v = o
    keep = z3.BoolVal(True)
    for kind, f in lazy.stages:
        if kind == "map":
            v = e.call_callable(f, [v])
        elif kind == "filter":
            r = e.call_callable(f, [Ref(Cell(v))])
            keep = z3.And(keep, r.t)
        else:
            raise Unsupported(f"lazy stage {kind}")
    return v, keep


def default_policy_obligation(prog, enums, structs, direction, lens):
    """direction: 'sound' (every generated address is in D; no panic) or 'complete' (every address of D is generated)"""
    fn = find_closure(prog, "build_default_config", [1])
    ex = Exec(prog, S, enums, max_unroll=10)
    used = z3.Function("used_by_policy", z3.BitVecSort(32), z3.BoolSort())

    def run(e):
        addr = z3.BitVec("prefix_addr", 32)
        plen = z3.BitVec("prefix_len", 8)
        serverip = z3.BitVec("serverip", 32)
        e.assume(z3.Or([plen == n for n in lens]))
        m = z3.If(plen == 0, z3.BitVecVal(0, 32), z3.BitVecVal(0xFFFFFFFF, 32) << (32 - z3.ZeroExt(24, plen)))
        net, bc = addr & m, (addr & m) | ~m
        e.env.update(addr=addr, plen=plen, serverip=serverip, net=net, bc=bc)
        dnames = structs["DHCPRequest"][0] if isinstance(structs["DHCPRequest"], tuple) else structs["DHCPRequest"]
        request = build(structs, "DHCPRequest", pkt=Opaque("unused"), serverip=ip(serverip), ifindex=BV(z3.BitVecVal(1, 32)), if_mtu=NONE(), if_router=NONE())
        all_addrs = Opaque("HashSet", items=[], pred=used)
        envadt = Adt("closure", None, [Ref(Cell(request)), Ref(Cell(all_addrs))])
        p4 = build(structs, "Prefix4", addr=ip(addr), prefixlen=BV(plen))
        prefix = Adt("Prefix", "V4", [p4])
        r = e.call_fn(fn, [Ref(Cell(envadt), mut=True), Ref(Cell(prefix))])
        e.env["result"] = r
        if r.variant != "Some":
            e.env["kind"] = "no policy"
            return r
        pol = r.fields[0]
        aset = field(structs, pol, "apply_address")
        if aset.variant != "Some":
            e.env["kind"] = "policy without addresses"
            return r
        lazy, minus = lazy_of(e, aset.fields[0])
        w = lazy.lo.t.size()
        e.env.update(lazy=lazy, minus=minus, pol=pol)
        inD = lambda t: z3.And(z3.ULT(net, t), z3.ULT(t, bc), t != serverip, z3.Not(used(t)))  # noqa
        if direction == "sound":
            o = z3.BitVec("offset", w)
            e.assume(z3.And(z3.ULE(lazy.lo.t, o), z3.ULT(o, lazy.hi.t)))
            v, keep = run_stages(e, lazy, BV(o))
            t = v.fields[0].t
            member = z3.And(keep, *[z3.Not(set_member(e, b, t)) for b in minus])
            e.env.update(kind="sound", claim=z3.Implies(member, inD(t)), witness=dict(offset=o, element=t))
        else:
            t = z3.BitVec("wanted", 32)
            e.assume(inD(t))
            o = t - net
            o = z3.ZeroExt(w - 32, o) if w > 32 else o
            inrange = z3.And(z3.ULE(lazy.lo.t, o), z3.ULT(o, lazy.hi.t))
            e.env.update(kind="complete", witness=dict(wanted=t), inrange=inrange)
            if not e.branch(inrange):
                e.env["claim"] = z3.BoolVal(False)
                return r
            v, keep = run_stages(e, lazy, BV(o))
            e.env["claim"] = z3.And(v.fields[0].t == t, keep)
        return r
    paths = ex.explore(run)
    failed, kinds = [], {}
    for outcome, val, pc, env in paths:
        claims = []
        if outcome == "panic":
            kinds["panic"] = kinds.get("panic", 0) + 1
            claims.append(("building the default policy for an accepted `addresses` prefix never panics or overflows: " + str(val), z3.BoolVal(False)))
        else:
            k = env.get("kind")
            kinds[k] = kinds.get(k, 0) + 1
            if k in ("no policy", "policy without addresses"):
                claims.append(("every IPv4 `addresses` prefix yields a sub-policy with an address set", z3.BoolVal(False)))
            else:
                pol = env["pol"]
                ms = field(structs, pol, "match_subnet")
                if ms.variant == "Some":
                    sn = ms.fields[0]
                    claims.append(("the sub-policy matches exactly the configured subnet (network address, prefix length)",
                                   z3.And(field(structs, sn, "addr").fields[0].t == env["net"], field(structs, sn, "prefixlen").t == env["plen"])))
                else:
                    claims.append(("the sub-policy matches exactly the configured subnet (network address, prefix length)", z3.BoolVal(False)))
                if k == "sound":
                    claims.append(("every address in the default pool is a host address of the prefix (not network, not broadcast), not the receiving address, not used by a configured policy", env["claim"]))
                else:
                    claims.append(("every host address of the prefix other than the receiving address and those used by configured policies is in the default pool", env["claim"]))
        for name, f in claims:
            m = check(ex, pc, f, name)
            if m is not None:
                ev = lambda t: m.eval(t, model_completion=True).as_long()  # noqa
                cex = dict(default_policy=True, prefix_addr=ev(env["addr"]), prefix_len=ev(env["plen"]), serverip=ev(env["serverip"]))
                for kname, t in env.get("witness", {}).items():
                    cex[kname] = ev(t)
                if outcome != "panic" and "witness" in env:
                    w_t = env["witness"].get("element", env["witness"].get("wanted"))
                    cex["probe_used_by_policy"] = bool(z3.is_true(m.eval(used(w_t), model_completion=True)))
                failed.append(dict(check="", description=name, location="dhcp/mod.rs build_default_config", kind="violation", counterexample=cex))
    return failed, ex, len(paths), kinds


# ---------------------------------------------------------------------------------------------------------------- used addresses
class T:
    """policy tree spec: n_addr = None (no apply_address) or number of symbolic addresses; children"""
    n = 0

    def __init__(self, n_addr=None, children=()):
        T.n += 1
        self.id = T.n
        self.addrs = None if n_addr is None else [z3.BitVec(f"t{self.id}_a{i}", 32) for i in range(n_addr)]
        self.children = list(children)

    def all_addrs(self):
        out = list(self.addrs or [])
        for c in self.children:
            out += c.all_addrs()
        return out


def mk_tree_policy(structs, t):
    names = [f for f in structs["Policy"] if "match_chaddr" in f][0]
    aset = None
    if t.addrs is not None:
        aset = Opaque("HashSet", items=[Cell(ip(a)) for a in t.addrs])
    vals = dict(match_all=Bool(False), match_interface=NONE(), match_chaddr=NONE(), match_subnet=NONE(), match_other=KMap(),
                apply_address=some(aset) if aset is not None else NONE(), apply_default_lease=NONE(), apply_max_lease=NONE(), apply_other=KMap(),
                policies=Seq([mk_tree_policy(structs, c) for c in t.children]),
                address_cache=Opaque("Mutex", inner=Cell(Opaque("RefCell", inner=Cell(NONE())))))
    return Adt("Policy", None, [vals[n] for n in names], list(names))


def used_addresses_obligation(prog, enums, structs, make_tree, twice=False):
    fns = [f for f in prog.find("get_all_used_addresses", 1) if "{closure" not in f.name]
    fn = None
    for f in fns:
        if "Config" in f.param_types.get(1, "") and "Policy" not in f.param_types.get(1, ""):
            fn = f
    if fn is None:
        raise Unsupported("dhcp::config::Config::get_all_used_addresses not found in the MIR dump")
    ex = Exec(prog, S, enums, max_unroll=12)

    def run(e):
        T.n = 0
        tree = make_tree()
        conf = Adt("Config", None, [Seq([mk_tree_policy(structs, t) for t in tree])], ["policies"])
        cell = Cell(conf)
        r = e.call_fn(fn, [Ref(cell)])
        if twice:      # second call: served from the per-policy caches
            r = e.call_fn(fn, [Ref(cell)])
        e.env.update(tree=tree, result=r)
        return r
    paths = ex.explore(run)
    failed, kinds = [], {}
    for outcome, val, pc, env in paths:
        if outcome == "panic":
            kinds["panic"] = kinds.get("panic", 0) + 1
            claims = [("collecting the addresses used by policies never panics: " + str(val), z3.BoolVal(False))]
            probe = None
        else:
            kinds["ok"] = kinds.get("ok", 0) + 1
            probe = z3.BitVec("probe", 32)
            want = [a for t in env["tree"] for a in t.all_addrs()]
            inref = z3.Or([probe == a for a in want]) if want else z3.BoolVal(False)
            claims = [("addresses reserved by policies = union of the apply-address/-range/-subnet sets of every policy at every depth", set_member(ex, env["result"], probe) == inref)]
        for name, f in claims:
            m = check(ex, pc, f, name)
            if m is not None:
                ev = lambda t: m.eval(t, model_completion=True).as_long()  # noqa
                cex = dict(used_addresses=True)
                if probe is not None:
                    cex["probe"] = ev(probe)
                    cex["tree_addresses"] = [ev(a) for t in env["tree"] for a in t.all_addrs()]
                failed.append(dict(check="", description=name, location="dhcp/config.rs get_all_used_addresses", kind="violation", counterexample=cex))
    return failed, ex, len(paths), kinds


def tree_shapes(tier):
    out = [("flat", lambda: [T(1), T(None), T(2)]),
           ("parent_with_own_addresses_and_children", lambda: [T(1, [T(1), T(None, [T(1)])])]),
           ("parent_without_addresses", lambda: [T(None, [T(2), T(1)]), T(1)])]
    if tier == "thorough":
        out.append(("depth3_mixed", lambda: [T(1, [T(1, [T(1), T(None)]), T(2)]), T(None, [T(None, [T(1)])])]))
    return out
