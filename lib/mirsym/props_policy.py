"""C11: DHCP policy selection / option override semantics.  apply_policies / apply_policy / check_policy / check_policies /
ResponseOptions::{mutate_option, mutate_option_default} (+ erbium_net::Ipv4Subnet) are executed from MIR on policy trees of
concrete shape with symbolic contents and compared with a reference written from erbium.conf(5):
  * sibling policies are considered in turn, the first that matches is applied;
  * all match conditions of a policy must hold; a policy without conditions matches only if one of its sub-policies does;
  * a sub-policy is only attempted if the enclosing policy matched; outer options are applied first, inner ones override;
  * `null` unsets a value; an option is applied only if the client requested it (parameter request list);
  * a policy's own address pool replaces the parent's, a policy without addresses keeps the parent's;
  * netmask / broadcast of the matched subnet apply unless set (or unset with null) by the policy or a sub-policy."""
import z3

from .interp import Exec
from .props_cache import build, field
from .props_pool import check
from .summaries import S, KMap, some, NONE, deref
from .values import BV, Bool, Adt, Seq, Cell, Ref, Opaque, Unsupported

NETMASK, BROADCAST, PARAMLIST = 1, 28, 55


def find(prog, name, nargs, hint="dhcp"):
    fs = [f for f in prog.find(name, nargs) if "{closure" not in f.name and "isomer_erbium_verif" not in f.name and (hint in f.name or "::" not in f.name)]
    if len(fs) != 1:
        raise Unsupported(f"{name}/{nargs} not found uniquely ({[f.name for f in fs]})")
    return fs[0]


class P:
    """policy spec: conditions/applications present or not is part of the (concrete) shape, their contents are symbolic"""
    n = 0

    def __init__(self, match_all=False, chaddr=False, subnet=None, match_opt=None, apply=None, address=False, children=()):
        P.n += 1
        self.id = P.n
        self.match_all = match_all
        self.chaddr = [z3.BitVec(f"p{self.id}_mac{i}", 8) for i in range(6)] if chaddr else None
        self.subnet = (z3.BitVec(f"p{self.id}_net", 32), subnet) if subnet is not None else None          # (address term, concrete length)
        # match_opt: {code: 'value'|'null'} ; apply: {code: 'value'|'null'}
        self.match_opt = {c: ([z3.BitVec(f"p{self.id}_m{c}_{i}", 8) for i in range(4)] if k == "value" else None) for c, k in (match_opt or {}).items()}
        self.apply = {c: ([z3.BitVec(f"p{self.id}_a{c}_{i}", 8) for i in range(4)] if k == "value" else None) for c, k in (apply or {}).items()}
        self.address = self.id if address else None
        self.children = list(children)


def dhcp_option(code):
    return Adt("DhcpOption", None, [BV(z3.BitVecVal(code, 8))])


def value(terms):
    return Adt("DhcpOptionTypeValue", "Unknown", [Seq([BV(t) for t in terms])])


def kmap(entries, wrap):
    m = KMap()
    m.keyobj = {}
    for code, v in entries.items():
        m.d[code] = Cell(wrap(v))
        m.keyobj[code] = dhcp_option(code)
    return m


def mk_policy(structs, p, pools):
    names = [f for f in structs["Policy"] if "match_chaddr" in f][0]
    pool = None
    if p.address is not None:
        pool = Opaque("HashSet", items=[], pool_id=p.address)
        pools[p.address] = pool
    vals = dict(
        match_all=Bool(p.match_all), match_interface=NONE(),
        match_chaddr=some(Seq([BV(t) for t in p.chaddr])) if p.chaddr else NONE(),
        match_subnet=some(build(structs, "Ipv4Subnet", addr=Adt("Ipv4Addr", None, [BV(p.subnet[0])]), prefixlen=BV(z3.BitVecVal(p.subnet[1], 8)))) if p.subnet else NONE(),
        match_other=kmap(p.match_opt, lambda v: some(value(v)) if v is not None else NONE()),
        apply_address=some(pool) if pool is not None else NONE(), apply_default_lease=NONE(), apply_max_lease=NONE(),
        apply_other=kmap(p.apply, lambda v: some(value(v)) if v is not None else NONE()),
        policies=Seq([mk_policy(structs, c, pools) for c in p.children]), address_cache=Opaque("Mutex"))
    return Adt("Policy", None, [vals[n] for n in names], list(names))


def mask(length):
    return z3.BitVecVal(((0xFFFFFFFF << (32 - length)) & 0xFFFFFFFF) if length else 0, 32)


# ---------------------------------------------------------------------------------------------------------------- reference (manual)
class Table:
    """option table: code -> (present Bool, is_null Bool, 4 value terms); plus the address pool id"""

    def __init__(self):
        self.opts = {}
        self.addr = z3.IntVal(0)

    def get(self, code):
        return self.opts.get(code, (z3.BoolVal(False), z3.BoolVal(False), [z3.BitVecVal(0, 8)] * 4))

    def ite(self, cond, other):
        t = Table()
        for code in set(self.opts) | set(other.opts):
            a, b = self.get(code), other.get(code)
            t.opts[code] = (z3.If(cond, a[0], b[0]), z3.If(cond, a[1], b[1]), [z3.If(cond, x, y) for x, y in zip(a[2], b[2])])
        t.addr = z3.If(cond, self.addr, other.addr)
        return t

    def copy(self):
        t = Table()
        t.opts = dict(self.opts)
        t.addr = self.addr
        return t


def ref_conditions(p, req):
    conds = []
    has = p.match_all
    if p.chaddr:
        has = True
        # the whole hardware address must be the written one (a longer address that merely starts with it is another client)
        conds.append(z3.And([a == b for a, b in zip(req["chaddr"], p.chaddr)]) if len(req["chaddr"]) == len(p.chaddr) else z3.BoolVal(False))
    if p.subnet:
        has = True
        conds.append(req["serverip"] & mask(p.subnet[1]) == p.subnet[0])
    for code, v in p.match_opt.items():
        has = True
        have = req["options"].get(code)
        if v is None:
            conds.append(z3.BoolVal(have is None))
        else:
            conds.append(z3.And([a == b for a, b in zip(have, v)]) if have is not None else z3.BoolVal(False))
    return (z3.And(conds) if conds else z3.BoolVal(True)), has


def ref_matches(p, req):
    c, has = ref_conditions(p, req)
    if has:
        return c
    return z3.Or([ref_matches(ch, req) for ch in p.children]) if p.children else z3.BoolVal(False)


def ref_apply_list(policies, req, table):
    """first matching sibling is applied"""
    out = table
    earlier = z3.BoolVal(False)
    results = []
    for p in policies:
        m = ref_matches(p, req)
        sel = z3.And(m, z3.Not(earlier))
        results.append((sel, ref_apply_one(p, req, table)))
        earlier = z3.Or(earlier, m)
    for sel, t in reversed(results):
        out = t.ite(sel, out)
    return out, earlier


def ref_apply_one(p, req, table):
    t = table.copy()
    if p.address is not None:
        t.addr = z3.IntVal(p.address)
    for code, v in p.apply.items():
        if code in req["paramlist"]:
            t.opts[code] = (z3.BoolVal(True), z3.BoolVal(v is None), v if v is not None else [z3.BitVecVal(0, 8)] * 4)
    t, _ = ref_apply_list(p.children, req, t)
    if p.subnet:
        net, length = p.subnet
        for code, val in ((NETMASK, mask(length)), (BROADCAST, (net & mask(length)) | ~mask(length))):
            if code in req["paramlist"]:
                cur = t.get(code)
                bytes4 = [z3.Extract(31 - 8 * i, 24 - 8 * i, val) for i in range(4)]
                t.opts[code] = (z3.BoolVal(True), z3.If(cur[0], cur[1], z3.BoolVal(False)), [z3.If(cur[0], c, b) for c, b in zip(cur[2], bytes4)])
    return t


# ---------------------------------------------------------------------------------------------------------------- obligation
def obligation(prog, enums, structs, make_tree, paramlist, req_options, hlen=6):
    """make_tree() -> list of P (top-level siblings); paramlist: concrete list of option codes the client asks for;
    req_options: {code: True} options present in the request (4 symbolic octets each)"""
    fn = find(prog, "apply_policies", 3)
    ex = Exec(prog, S, enums, max_unroll=10)

    def run(e):
        P.n = 0
        tree = make_tree()
        pools = {}
        pols = Seq([mk_policy(structs, p, pools) for p in tree])
        req = dict(chaddr=[z3.BitVec(f"chaddr{i}", 8) for i in range(hlen)], serverip=z3.BitVec("serverip", 32), paramlist=list(paramlist),
                   options={c: [z3.BitVec(f"req{c}_{i}", 8) for i in range(4)] for c in req_options})
        e.env.update(tree=tree, req=req, pools=pools)
        other = KMap()
        other.keyobj = {}
        other.d[PARAMLIST] = Cell(Seq([BV(z3.BitVecVal(c, 8)) for c in paramlist]))
        other.keyobj[PARAMLIST] = dhcp_option(PARAMLIST)
        for c, v in req["options"].items():
            other.d[c] = Cell(Seq([BV(t) for t in v]))
            other.keyobj[c] = dhcp_option(c)
        dnames = structs["Dhcp"][0]
        dvals = {n: Opaque("unused") for n in dnames}
        dvals["chaddr"] = Seq([BV(t) for t in req["chaddr"]])
        dvals["options"] = Adt("DhcpOptions", None, [other], ["other"])
        pkt = Adt("Dhcp", None, [dvals[n] for n in dnames], list(dnames))
        request = build(structs, "DHCPRequest", pkt=pkt, serverip=Adt("Ipv4Addr", None, [BV(req["serverip"])]), ifindex=BV(z3.BitVecVal(1, 32)),
                        if_mtu=NONE(), if_router=NONE())
        ropts = Adt("ResponseOptions", None, [KMap()], ["option"])
        response = build(structs, "Response", options=ropts, address=NONE(), minlease=NONE(), maxlease=NONE())
        cell = Cell(response)
        e.env["response"] = cell
        return e.call_fn(fn, [Ref(Cell(request)), Ref(Cell(pols)), Ref(cell, mut=True)])
    paths = ex.explore(run)
    failed, kinds = [], {}
    for outcome, val, pc, env in paths:
        if outcome == "panic":
            claims = [("policy evaluation never panics: " + str(val), z3.BoolVal(False))]
            kinds["panic"] = kinds.get("panic", 0) + 1
        else:
            tree, req = env["tree"], env["req"]
            ref, any_match = ref_apply_list(tree, req, Table())
            resp = env["response"].v
            actual = field(structs, field(structs, resp, "options"), "option")
            kinds["applied" if z3.is_true(z3.simplify(val.t)) else "other"] = kinds.get("applied" if z3.is_true(z3.simplify(val.t)) else "other", 0) + 1
            claims = [("a policy list applies exactly when the manual says one of its policies matches (first match; AND of conditions; condition-less => a sub-policy matches)",
                       val.t == any_match)]
            codes = set(ref.opts) | set(actual.d)
            parts = []
            for code in sorted(codes):
                present, isnull, vals = ref.get(code)
                cell = actual.d.get(code)
                if cell is None:
                    parts.append(z3.Not(present))
                else:
                    o = deref(ex, cell.v)
                    if o.variant == "None":
                        parts.append(z3.And(present, isnull))
                    else:
                        got = o.fields[0].items
                        parts.append(z3.And(present, z3.Not(isnull), z3.BoolVal(len(got) == 4), *[g.t == v for g, v in zip(got, vals)]) if len(got) == 4 else z3.BoolVal(False))
            claims.append(("option table = Model(config, request): outer then inner, inner overrides, null unsets, only requested options, netmask/broadcast defaults of the matched subnet",
                           z3.And(parts) if parts else z3.BoolVal(True)))
            addr = field(structs, resp, "address")
            aid = 0 if addr.variant == "None" else getattr(addr.fields[0], "pool_id", -1)
            claims.append(("address pool = the innermost applied policy's own pool, else the enclosing policy's", ref.addr == aid))
        for name, f in claims:
            m = check(ex, pc, f, name)
            if m is not None:
                ev = lambda t: m.eval(t, model_completion=True).as_long()  # noqa
                failed.append(dict(check="", description=name, location="dhcp/mod.rs apply_policies", kind="violation",
                                   counterexample=dict(acl_verdict=None, paramlist=list(paramlist), serverip=ev(env["req"]["serverip"]) if outcome != "panic" else None,
                                                       returned=str(val) if outcome != "panic" else "panic")))
    return failed, ex, len(paths), kinds


# ---------------------------------------------------------------------------------------------------------------- shapes
def shapes(tier):
    A, B = 42, 6          # two ordinary option codes (ntp-servers, dns-servers)
    out = []
    out.append(("siblings_first_match_wins", lambda: [P(chaddr=True, apply={A: "value"}), P(subnet=24, apply={A: "value", B: "value"}), P(match_all=True, apply={A: "null"})], [A, B, NETMASK], {}))
    out.append(("conditionless_outer_needs_matching_child", lambda: [P(apply={A: "value", B: "value"}, children=[P(chaddr=True, apply={A: "value"}), P(subnet=16, apply={B: "null"})]),
                                                                     P(match_all=True, apply={A: "value"})], [A, B], {}))
    out.append(("inner_overrides_and_null_unsets", lambda: [P(match_all=True, apply={A: "value", B: "value"}, address=True,
                                                              children=[P(chaddr=True, apply={A: "null"}, address=True), P(subnet=8, apply={B: "value"})])], [A, B], {}))
    out.append(("only_requested_options", lambda: [P(match_all=True, apply={A: "value", B: "value"}, children=[P(match_all=True, apply={B: "null"})])], [B], {}))
    out.append(("subnet_defaults_netmask_broadcast", lambda: [P(subnet=24, apply={A: "value"}, children=[P(chaddr=True, apply={NETMASK: "null"}), P(match_all=True, apply={BROADCAST: "value"})])],
                [A, NETMASK, BROADCAST], {}))
    out.append(("subnet_defaults_not_requested", lambda: [P(subnet=20, apply={NETMASK: "value"})], [A, BROADCAST], {}))
    out.append(("match_option_value_and_null", lambda: [P(match_opt={60: "value"}, apply={A: "value"}), P(match_opt={60: "null", 77: "value"}, apply={A: "value"}), P(match_opt={77: "null"}, apply={A: "null"})],
                [A], {60: True}))
    out.append(("match_option_absent_in_request", lambda: [P(match_opt={60: "value"}, apply={A: "value"}), P(match_opt={60: "null"}, apply={B: "value"})], [A, B], {}))
    out.append(("hardware_address_of_7_octets_is_not_the_6_octet_one", lambda: [P(chaddr=True, apply={A: "value"}, address=True), P(match_all=True, apply={B: "value"})], [A, B], {}, 7))
    out.append(("conditionless_nested_twice", lambda: [P(apply={A: "value"}, children=[P(apply={B: "value"}, children=[P(chaddr=True, apply={A: "value"})]), P(subnet=12)]),
                                                       P(chaddr=True, apply={A: "null"})], [A, B], {}))
    # several conditions in ONE policy are ANDed: any single failing condition (first, middle or last) means the policy does not apply
    out.append(("all_conditions_of_one_policy_must_hold", lambda: [P(chaddr=True, subnet=24, match_opt={60: "value"}, apply={A: "value"}, address=True),
                                                                   P(chaddr=True, subnet=16, apply={B: "value"}), P(match_all=True, apply={A: "null"})], [A, B], {60: True}))
    out.append(("hardware_address_and_option_condition", lambda: [P(chaddr=True, match_opt={60: "null"}, apply={A: "value"}), P(match_all=True, subnet=8, apply={B: "value"})], [A, B], {}))
    if tier == "thorough":
        out.append(("depth3", lambda: [P(apply={A: "value"}, children=[P(subnet=24, apply={B: "value"}, children=[P(chaddr=True, apply={A: "null", B: "value"}, address=True), P(match_all=True, apply={A: "value"})]),
                                                                     P(match_all=True, apply={B: "null"})])], [A, B, NETMASK], {}))
        out.append(("width3", lambda: [P(chaddr=True, apply={A: "value"}), P(match_opt={60: "value"}, apply={A: "value"}), P(subnet=30, apply={A: "value"}, address=True)], [A, NETMASK, BROADCAST], {60: True}))
    return out
