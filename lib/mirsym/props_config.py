"""C19 / C17 / C02 (configuration loader): the YAML walkers that Kani cannot reach (string splitting, LinkedHashMap), executed
from MIR on YAML documents of CONCRETE SHAPE (which keys are present, in which order, which values are null) with
SYMBOLIC SCALARS (integers over all of i64; addresses as symbolic dotted quads).

  radv::config::parse_interface      intervals / lifetimes / hop limit / flags / mtu / reachable / retransmit as arbitrary integers
  radv::config::parse_dnssl          (through parse_interface) `dns-search: {domains: null}` etc.
  dhcp::config::parse_policy         apply-range {start, end}, apply-subnet, apply-address with symbolic addresses

Claims: the loader returns Ok or Err - never panics or overflows (C19); an accepted document yields the documented
configuration (C17: null => DontSet, value => Value; C02: apply-range = [start, end] both ends, apply-subnet = all
host addresses)."""
import glob
import os
import re

import z3

from .interp import Exec
from .props_cache import build, field
from .props_pool import check
from .summaries import S, KMap, some, NONE, deref, summary
from .values import BV, Bool, Adt, Seq, Str, Cell, Ref, Opaque, Tup, Unsupported, Panic

YAML_VARIANTS = None


def yaml_variants():
    """variant order of yaml_rust::Yaml, read from the crate source in the cargo registry (the enum is not part of /repo)"""
    global YAML_VARIANTS
    if YAML_VARIANTS is None:
        cands = sorted(glob.glob(os.path.expanduser("~/.cargo/registry/src/*/yaml-rust-0.4*/src/yaml.rs")))
        if not cands:
            raise Unsupported("yaml-rust source not found in the cargo registry")
        src = open(cands[-1]).read()
        m = re.search(r"pub enum Yaml \{(.*?)\n\}", src, flags=re.S)
        body = re.sub(r"//[^\n]*", "", m.group(1))
        YAML_VARIANTS = re.findall(r"^\s*([A-Z]\w*)\s*(?:\(|,)", body, flags=re.M)
        if YAML_VARIANTS[:8] != ["Real", "Integer", "String", "Boolean", "Array", "Hash", "Alias", "Null"]:
            raise Unsupported(f"unexpected Yaml variants {YAML_VARIANTS}")
    return YAML_VARIANTS


def y_int(t):
    return Adt("Yaml", "Integer", [BV(t, True)])


def y_str(s):
    return Adt("Yaml", "String", [Str(text=s)])


def y_ip(t):
    return Adt("Yaml", "String", [Str(ip=t)])


def y_bool(t):
    return Adt("Yaml", "Boolean", [Bool(t)])


def y_null():
    return Adt("Yaml", "Null", [])


def y_arr(items):
    return Adt("Yaml", "Array", [Seq(list(items))])


def y_hash(pairs):
    return Adt("Yaml", "Hash", [Opaque("LinkedHashMap", entries=[(Cell(y_str(k)), Cell(v)) for k, v in pairs])])


# ---------------------------------------------------------------------------------------------------------------- summaries
CS = dict(S)


def csummary(*names):
    def deco(f):
        for n in names:
            CS[n] = f
        return f
    return deco


@csummary("Yaml::as_hash")
def _as_hash(ex, c):
    y = deref(ex, c.args[0])
    if y.variant == "Hash":
        return some(Ref(Cell(y.fields[0])))
    return NONE()


@csummary("Yaml::as_str")
def _as_str(ex, c):
    y = deref(ex, c.args[0])
    if y.variant == "String":
        return some(y.fields[0])
    return NONE()


@csummary("Yaml::as_i64")
def _as_i64(ex, c):
    y = deref(ex, c.args[0])
    return some(y.fields[0]) if y.variant == "Integer" else NONE()


@csummary("Yaml::as_vec")
def _as_vec(ex, c):
    y = deref(ex, c.args[0])
    return some(Ref(Cell(y.fields[0]))) if y.variant == "Array" else NONE()


@csummary("<&LinkedHashMap as IntoIterator>::into_iter", "<LinkedHashMap as IntoIterator>::into_iter", "LinkedHashMap::iter")
def _lhm_iter(ex, c):
    h = deref(ex, c.args[0])
    if not (isinstance(h, Opaque) and h.kind == "LinkedHashMap"):
        raise Unsupported(f"iteration over {h!r}")
    return Opaque("Iter", items=[Tup([Ref(k), Ref(v)]) for k, v in h.entries])


@csummary("LinkedHashMap::len")
def _lhm_len(ex, c):
    return BV(z3.BitVecVal(len(deref(ex, c.args[0]).entries), 64))


def find1(prog, name, nargs, hint):
    fs = [f for f in prog.find(name, nargs) if "{closure" not in f.name and "isomer_erbium_verif" not in f.name and (hint in f.name or hint in f.ret)]
    if len(fs) != 1:
        raise Unsupported(f"{name}/{nargs} ({hint}) not found uniquely ({[f.name for f in fs]})")
    return fs[0]


def mk_exec(prog, enums, unroll=12):
    en = dict(enums)
    en["Yaml"] = [yaml_variants()]
    return Exec(prog, CS, en, max_unroll=unroll, timeout_s=240, max_paths=6000)


def classify(val):
    if val.variant == "Err":
        return "err"
    inner = val.fields[0]
    if isinstance(inner, Adt) and inner.ty == "Option":
        return "ok:" + inner.variant
    return "ok"


# ---------------------------------------------------------------------------------------------------------------- RA interface
DUR_KEYS = ("lifetime", "reachable", "retransmit", "max-router-advertisement-interval", "min-router-advertisement-interval")


def interface_doc(keys, nulls=()):
    """-> (yaml hash, {key: term})"""
    pairs, terms = [], {}
    for k in keys:
        if k in nulls:
            pairs.append((k, y_null()))
            continue
        if k in DUR_KEYS or k in ("hop-limit", "mtu"):
            t = z3.BitVec("v_" + k.replace("-", "_"), 64)
            terms[k] = t
            pairs.append((k, y_int(t)))
        elif k in ("managed", "other"):
            t = z3.Bool("v_" + k)
            terms[k] = t
            pairs.append((k, y_bool(t)))
        elif k == "dns-search":
            pairs.append((k, y_hash([("domains", y_null())])))
        elif k == "dns-search-empty":
            pairs.append(("dns-search", y_hash([])))
        elif k == "dns-search-lifetime":
            t = z3.BitVec("v_dnssl_lifetime", 64)
            terms[k] = t
            pairs.append(("dns-search", y_hash([("lifetime", y_int(t))])))
        elif k == "dns-servers-null":
            pairs.append(("dns-servers", y_hash([("addresses", y_null())])))
        elif k == "dns-servers-lifetime":
            t = z3.BitVec("v_rdnss_lifetime", 64)
            terms[k] = t
            pairs.append(("dns-servers", y_hash([("lifetime", y_int(t))])))
        elif k == "prefixes-emptymap":
            pairs.append(("prefixes", y_arr([y_hash([])])))
        elif k == "prefixes-noprefix":
            t = z3.BitVec("v_prefix_valid", 64)
            terms[k] = t
            pairs.append(("prefixes", y_arr([y_hash([("valid", y_int(t))])])))
        elif k == "prefixes-full":
            tv, tp = z3.BitVec("v_prefix_valid", 64), z3.BitVec("v_prefix_preferred", 64)
            tl, ta = z3.Bool("v_prefix_onlink"), z3.Bool("v_prefix_auto")
            terms["prefix-valid"], terms["prefix-preferred"], terms["prefix-onlink"], terms["prefix-auto"] = tv, tp, tl, ta
            pairs.append(("prefixes", y_arr([y_hash([("prefix", y_str("2001:db8:1::/64")), ("on-link", y_bool(tl)), ("autonomous", y_bool(ta)), ("valid", y_int(tv)), ("preferred", y_int(tp))])])))
        elif k.startswith("pref64-len"):
            t = z3.BitVec("v_pref64_lifetime", 64)
            terms["pref64-lifetime"] = t
            pairs.append(("pref64", y_hash([("prefix", y_str("64:ff9b::/%d" % int(k[len("pref64-len"):]))), ("lifetime", y_int(t))])))
        elif k == "prefixes-empty":
            pairs.append(("prefixes", y_arr([])))
        elif k == "pref64-empty":
            pairs.append(("pref64", y_hash([])))
        elif k == "captive-portal-null":
            pairs.append(("captive-portal", y_null()))
        else:
            raise Unsupported(f"interface key {k}")
    return y_hash(pairs), terms


def interface_obligation(prog, enums, structs, keys, nulls=()):
    fn = find1(prog, "parse_interface", 2, "radv")
    ex = mk_exec(prog, enums)

    def run(e):
        doc, terms = interface_doc(keys, nulls)
        e.env.update(terms=terms)
        return e.call_fn(fn, [Str(text="eth0"), Ref(Cell(doc))])
    paths = ex.explore(run)
    failed, kinds = [], {}
    for outcome, val, pc, env in paths:
        claims = []
        terms = env.get("terms", {})
        if outcome == "panic":
            kinds["panic"] = kinds.get("panic", 0) + 1
            claims.append(("loading a router-advertisement interface section returns a configuration or an error, it never panics or overflows: " + str(val), z3.BoolVal(False)))
        else:
            k = classify(val)
            kinds[k] = kinds.get(k, 0) + 1
            if k == "err":
                for kk in keys:
                    if kk.startswith("pref64-len") and int(kk[len("pref64-len"):]) in (32, 40, 48, 56, 64, 96):
                        claims.append(("a NAT64 prefix of a legal length with a non-negative lifetime is accepted", terms["pref64-lifetime"] < 0))
            if k == "ok:Some":
                intf = val.fields[0].fields[0]

                def cv(name):
                    return field(structs, intf, name)

                def dur_secs(d):
                    return d.fields[0].t
                # documented bounds of the advertisement intervals (RFC 4861 6.2.1, quoted by the loader's own messages)
                mx, mn = cv("max_rtr_adv_interval"), cv("min_rtr_adv_interval")
                if "max-router-advertisement-interval" in terms and mx.variant == "Value":
                    t = terms["max-router-advertisement-interval"]
                    claims.append(("an accepted max-router-advertisement-interval lies within 4..=1800 s and is the configured value",
                                   z3.And(t >= 4, t <= 1800, dur_secs(mx.fields[0]) == t)))
                if "min-router-advertisement-interval" in terms and mn.variant == "Value":
                    t = terms["min-router-advertisement-interval"]
                    claims.append(("an accepted min-router-advertisement-interval is at least 3 s and is the configured value", z3.And(t >= 3, dur_secs(mn.fields[0]) == t)))
                if "min-router-advertisement-interval" in terms and "max-router-advertisement-interval" in terms and mx.variant == "Value" and mn.variant == "Value":
                    claims.append(("accepted intervals satisfy min <= 3/4 max",
                                   4 * terms["min-router-advertisement-interval"] <= 3 * terms["max-router-advertisement-interval"]))
                # tri-state: null => DontSet, value => Value(v), absent => NotSpecified
                for key, fname in (("lifetime", "lifetime"), ("mtu", "mtu")):
                    f = cv(fname)
                    if key in nulls:
                        claims.append((f"`{key}: null` is recorded as 'do not send'", z3.BoolVal(f.variant == "DontSet")))
                    elif key in terms:
                        claims.append((f"a configured {key} is recorded as that value", z3.BoolVal(f.variant == "Value")))
                    else:
                        claims.append((f"an absent {key} is recorded as not specified", z3.BoolVal(f.variant == "NotSpecified")))
                d = cv("dnssl")
                if "dns-search" in keys:
                    claims.append(("`dns-search: {domains: null}` suppresses the search list (recorded as 'do not send')", z3.BoolVal(d.variant == "DontSet")))
                elif not any(k.startswith("dns-search") for k in keys):
                    claims.append(("an absent dns-search is recorded as not specified", z3.BoolVal(d.variant == "NotSpecified")))
                r = cv("rdnss")
                if "dns-servers-null" in keys:
                    claims.append(("`dns-servers: {addresses: null}` suppresses the server list (recorded as 'do not send')", z3.BoolVal(r.variant == "DontSet")))
                if "dns-search-lifetime" in terms:
                    f = cv("dnssl_lifetime")
                    claims.append(("dns-search lifetime is recorded as configured", z3.And(z3.BoolVal(f.variant == "Value"), dur_secs(f.fields[0]) == terms["dns-search-lifetime"]) if f.variant == "Value" else z3.BoolVal(False)))
                if "dns-servers-lifetime" in terms:
                    f = cv("rdnss_lifetime")
                    claims.append(("dns-servers lifetime is recorded as configured", z3.And(z3.BoolVal(f.variant == "Value"), dur_secs(f.fields[0]) == terms["dns-servers-lifetime"]) if f.variant == "Value" else z3.BoolVal(False)))
                if "prefix-valid" in terms:
                    ps = cv("prefixes").items
                    if len(ps) != 1:
                        claims.append(("one configured prefix is recorded as one prefix", z3.BoolVal(False)))
                    else:
                        p0 = ps[0]
                        claims.append(("a prefix entry is recorded as configured (prefix 2001:db8:1::/64, on-link, autonomous, valid and preferred lifetimes)",
                                       z3.And(field(structs, p0, "prefixlen").t == 64, field(structs, p0, "onlink").t == terms["prefix-onlink"], field(structs, p0, "autonomous").t == terms["prefix-auto"],
                                              dur_secs(field(structs, p0, "valid")) == terms["prefix-valid"], dur_secs(field(structs, p0, "preferred")) == terms["prefix-preferred"])))
                for kk in keys:
                    if kk.startswith("pref64-len"):
                        n = int(kk[len("pref64-len"):])
                        p6 = cv("pref64")
                        claims.append(("a NAT64 prefix is accepted only with a length RFC 8781 can express (32, 40, 48, 56, 64, 96) and recorded with that length and lifetime",
                                       z3.And(z3.BoolVal(n in (32, 40, 48, 56, 64, 96) and p6.variant == "Some"), field(structs, p6.fields[0], "prefixlen").t == n,
                                              dur_secs(field(structs, p6.fields[0], "lifetime")) == terms["pref64-lifetime"]) if p6.variant == "Some" else z3.BoolVal(False)))
                if "hop-limit" in terms:
                    claims.append(("an accepted hop-limit fits the 8-bit field and is the configured value",
                                   z3.And(terms["hop-limit"] >= 0, terms["hop-limit"] <= 255, z3.ZeroExt(56, cv("hoplimit").t) == terms["hop-limit"])))
                for key, fname in (("managed", "managed"), ("other", "other")):
                    if key in terms:
                        claims.append((f"{key} flag is recorded as configured", cv(fname).t == terms[key]))
                for key, fname in (("reachable", "reachable"), ("retransmit", "retrans")):
                    if key in terms:
                        claims.append((f"{key} is recorded as configured", dur_secs(cv(fname)) == terms[key]))
        for name, f in claims:
            m = check(ex, pc, f, name)
            if m is not None:
                cex = dict(config_section="router-advertisements interface", keys=list(keys), nulls=list(nulls),
                           values={k: m.eval(t, model_completion=True).as_signed_long() if not z3.is_bool(t) else bool(z3.is_true(m.eval(t, model_completion=True))) for k, t in terms.items()},
                           outcome=outcome if outcome == "panic" else classify(val))
                failed.append(dict(check="", description=name, location="radv/config.rs parse_interface", kind="violation", counterexample=cex))
    return failed, ex, len(paths), kinds


def interface_shapes(tier):
    out = [("intervals_max_then_min", ["max-router-advertisement-interval", "min-router-advertisement-interval"], []),
           ("intervals_min_then_max", ["min-router-advertisement-interval", "max-router-advertisement-interval"], []),
           ("interval_max_only", ["max-router-advertisement-interval"], []),
           ("interval_min_only", ["min-router-advertisement-interval"], []),
           ("header_fields", ["hop-limit", "managed", "other", "lifetime", "reachable", "retransmit", "mtu"], []),
           ("nulls", ["lifetime", "mtu", "dns-search", "dns-servers-null", "captive-portal-null"], ["lifetime", "mtu"]),
           ("option_lifetimes", ["dns-search-lifetime", "dns-servers-lifetime"], []),
           ("empty_collections", ["dns-search-empty", "prefixes-empty", "pref64-empty"], []),
           ("prefix_entry_empty_mapping", ["prefixes-emptymap"], []),
           ("prefix_entry_without_prefix", ["prefixes-noprefix"], []),
           ("prefix_entry_full", ["prefixes-full"], []),
           ("pref64_len96", ["pref64-len96"], []), ("pref64_len64", ["pref64-len64"], []), ("pref64_len16", ["pref64-len16"], []), ("pref64_len33", ["pref64-len33"], []), ("pref64_len128", ["pref64-len128"], [])]
    return out


# ---------------------------------------------------------------------------------------------------------------- DHCP policy addresses
def policy_obligation(prog, enums, structs, kind, span):
    """kind: 'range' (apply-range {start,end}) / 'range_rev' (end key first) / 'subnet' (apply-subnet with a concrete prefix length
    `span`) / 'address'.  For ranges `span` bounds end - start (the expansion loop is unrolled)."""
    fn = find1(prog, "parse_policy" if kind != "routes" else "parse_routes", 1, "dhcp")
    ex = mk_exec(prog, enums, unroll=max(12, (span if kind.startswith("range") else (1 << max(0, 32 - span)) if kind == "subnet" else 1) + 4))
    if kind == "routes":
        ex.max_unroll = 600

    def run(e):
        start, end = z3.BitVec("start", 32), z3.BitVec("end", 32)
        e.env.update(start=start, end=end)
        if kind.startswith("range"):
            # bound on the number of addresses; the comparison is on 33 bits so that end = 255.255.255.255 stays in
            e.assume(z3.ULE(z3.ZeroExt(1, end), z3.ZeroExt(1, start) + span))
            kv = [("start", y_ip(start)), ("end", y_ip(end))]
            if kind == "range_rev":
                kv.reverse()
            doc = y_hash([("apply-range", y_hash(kv))])
        elif kind == "address":
            doc = y_hash([("apply-address", y_ip(start))])
        elif kind == "subnet":
            doc = y_hash([("apply-subnet", Adt("Yaml", "String", [Str(ip=start, plen=span)]))])
        elif kind == "routes":
            # apply-routes: [ {prefix: <start>/<span> (no "/<len>" at all when span < 0), next-hop: <end>} ]
            pfx = Adt("Yaml", "String", [Str(ip=start, plen=span if span >= 0 else None)])
            doc = y_arr([y_hash([("prefix", pfx), ("next-hop", y_ip(end))])])      # handed to Config::parse_routes directly
        else:
            raise Unsupported(kind)
        return e.call_fn(fn, [Ref(Cell(doc))])
    paths = ex.explore(run)
    failed, kinds = [], {}
    for outcome, val, pc, env in paths:
        claims = []
        start, end = env["start"], env["end"]
        if outcome == "panic":
            kinds["panic"] = kinds.get("panic", 0) + 1
            claims.append(("loading a dhcp policy returns a policy or an error, it never panics or overflows: " + str(val), z3.BoolVal(False)))
        else:
            k = "err" if val.variant == "Err" else "ok"
            kinds[k] = kinds.get(k, 0) + 1
            if kind == "routes":
                if k == "ok":
                    rs = val.fields[0]
                    good = rs.variant == "Some" and len(rs.fields[0].items) == 1
                    claims.append(("a route is accepted only with a prefix written as <network address>/<length 0..32>", z3.BoolVal(0 <= span <= 32 and good)))
                    if good and 0 <= span <= 32:
                        r0 = rs.fields[0].items[0]
                        sn = field(structs, r0, "prefix")
                        m_ = z3.BitVecVal(((0xFFFFFFFF << (32 - span)) & 0xFFFFFFFF) if span else 0, 32)
                        claims.append(("an accepted route carries the written prefix and next hop",
                                       z3.And(field(structs, sn, "addr").fields[0].t == start, field(structs, sn, "prefixlen").t == span, (start & ~m_) == 0,
                                              field(structs, r0, "nexthop").fields[0].t == end)))
                else:
                    # refusal is right when there is no length, the length is too long, or host bits are set
                    if 0 <= span <= 32:
                        m_ = z3.BitVecVal(((0xFFFFFFFF << (32 - span)) & 0xFFFFFFFF) if span else 0, 32)
                        claims.append(("a route whose prefix is a network address with a length 0..32 is accepted", (start & ~m_) != 0))
            elif k == "ok":
                pol = val.fields[0]
                aset = field(structs, pol, "apply_address")
                probe = z3.BitVec("probe", 32)
                from .props_addrset import set_member
                if aset.variant != "Some":
                    claims.append(("a policy with apply-range / apply-address has an address set", z3.BoolVal(False)))
                else:
                    member = set_member(ex, aset.fields[0], probe)
                    if kind == "subnet" and span > 32:
                        claims.append(("a prefix longer than /32 is refused", z3.BoolVal(False)))
                    elif kind == "subnet":
                        m_ = z3.BitVecVal(((0xFFFFFFFF << (32 - span)) & 0xFFFFFFFF) if span else 0, 32)
                        claims.append(("apply-subnet hands out exactly the host addresses of the subnet: everything between the network and the broadcast address",
                                       member == z3.And(z3.ULT(start & m_, probe), z3.ULT(probe, (start & m_) | ~m_), (probe & m_) == (start & m_))))
                    elif kind.startswith("range"):
                        claims.append(("apply-range hands out exactly the addresses from start to end, both ends included",
                                       member == z3.And(z3.ULE(start, probe), z3.ULE(probe, end))))
                    else:
                        claims.append(("apply-address hands out exactly that address", member == (probe == start)))
        for name, f in claims:
            m = check(ex, pc, f, name)
            if m is not None:
                ev = lambda t: m.eval(t, model_completion=True).as_long()  # noqa
                failed.append(dict(check="", description=name, location="dhcp/config.rs parse_policy", kind="violation",
                                   counterexample=dict(config_section="dhcp policy " + kind, start=ev(start), end=ev(end), outcome=outcome if outcome == "panic" else val.variant)))
    return failed, ex, len(paths), kinds


# ---------------------------------------------------------------------------------------------------------------- prefix strings
def prefix_string_obligation(prog, enums, structs, fname, family, plen):
    """config::str_prefix / str_prefix4 / str_prefix6 on "<address>/<plen>": IPv4 addresses symbolic (all 2^32), IPv6 text concrete"""
    fn = find1(prog, fname, 1, "config")
    ex = mk_exec(prog, enums)
    import ipaddress
    v6texts = ["2001:db8::", "::ffff:192.0.2.0", "::"]

    def run(e):
        if family == 4:
            a = z3.BitVec("addr", 32)
            e.env["addr"] = a
            s_ = Str(ip=a, plen=plen)
        else:
            k = e.choose([None] * len(v6texts))
            e.env["v6"] = v6texts[k]
            s_ = Str(text="%s/%d" % (v6texts[k], plen))
        return e.call_fn(fn, [some(s_)])
    paths = ex.explore(run)
    failed, kinds = [], {}
    limit = 32 if family == 4 else 128
    for outcome, val, pc, env in paths:
        claims = []
        if outcome == "panic":
            kinds["panic"] = kinds.get("panic", 0) + 1
            claims.append(("parsing a prefix string returns a prefix or an error, it never panics: " + str(val), z3.BoolVal(False)))
        else:
            k = classify(val)
            kinds[k] = kinds.get(k, 0) + 1
            wrong_family = (fname == "str_prefix4" and family == 6) or (fname == "str_prefix6" and family == 4)
            if k == "ok:Some":
                pf = val.fields[0].fields[0]
                if pf.variant in ("V4", "V6"):
                    pf = pf.fields[0]
                if not pf.names:
                    pf.names = ["addr", "prefixlen"]
                got_len = field(structs, pf, "prefixlen").t
                claims.append(("an accepted prefix has a length its address family allows (IPv4 <= 32, IPv6 <= 128) and it is the written one",
                               z3.And(z3.BoolVal(plen <= limit and not wrong_family), got_len == plen)))
                if family == 4 and not wrong_family:
                    claims.append(("an accepted IPv4 prefix carries the written address", field(structs, pf, "addr").fields[0].t == env["addr"]))
            elif k == "err":
                claims.append(("a well-formed prefix of a permitted length is accepted", z3.BoolVal(plen > limit or wrong_family)))
            else:
                claims.append(("a written prefix is not silently dropped", z3.BoolVal(False)))
        for name, f in claims:
            m = check(ex, pc, f, name)
            if m is not None:
                failed.append(dict(check="", description=name, location="config.rs " + fname, kind="violation",
                                   counterexample=dict(config_section="prefix string", parser=fname, text=("%s/%d" % (env.get("v6"), plen)) if family == 6 else "<a.b.c.d>/%d" % plen,
                                                       addr=(m.eval(env["addr"], model_completion=True).as_long() if family == 4 else None), outcome=outcome if outcome == "panic" else classify(val))))
    return failed, ex, len(paths), kinds


def prefix_string_cases(tier):
    out = []
    for fname, fam, lens in (("str_prefix4", 4, (0, 24, 32, 33, 255)), ("str_prefix", 4, (0, 32, 33, 200)), ("str_prefix", 6, (0, 64, 128, 129, 255)), ("str_prefix6", 6, (0, 96, 128, 129, 200)),
                             ("str_prefix6", 4, (24,)), ("str_prefix4", 6, (64,))):
        for n in lens:
            out.append((fname, fam, n))
    return out


# ---------------------------------------------------------------------------------------------------------------- dns-routes
@csummary("core::str::chars", "str::chars")
def _cfg_chars(ex, c):
    s_ = deref(ex, c.args[0])
    if s_.text is None:
        raise Unsupported("characters of symbolic text")
    return Opaque("Iter", items=[BV(z3.BitVecVal(ord(ch), 32)) for ch in s_.text])


@csummary("char::is_ascii", "core::char::methods::is_ascii", "core::char::is_ascii", "char::methods::is_ascii")
def _cfg_is_ascii(ex, c):
    ch = deref(ex, c.args[0]) if isinstance(c.args[0], Ref) else c.args[0]
    return Bool(z3.ULT(ch.t, 128))


def dns_route_obligation(prog, enums, structs, suffixes, kind):
    """dns::config::parse_dns_route on {domain-suffixes: [..concrete names..], type: kind}: the loaded route lists exactly the written
    suffixes, in the written order, label by label"""
    fn = find1(prog, "parse_dns_route", 2, "dns")
    ex = mk_exec(prog, enums, unroll=max(40, max([len(x) for x in suffixes] + [0]) + 6))

    def run(e):
        doc = y_hash([("domain-suffixes", y_arr([y_str(x) for x in suffixes])), ("type", y_str(kind))])
        return e.call_fn(fn, [Str(text="dns-routes"), Ref(Cell(doc))])
    paths = ex.explore(run)
    failed, kinds = [], {}
    for outcome, val, pc, env in paths:
        claims = []
        if outcome == "panic":
            kinds["panic"] = kinds.get("panic", 0) + 1
            claims.append(("loading a dns route returns a route or an error, it never panics: " + str(val), z3.BoolVal(False)))
        else:
            k = classify(val)
            kinds[k] = kinds.get(k, 0) + 1
            if k != "ok:Some":
                claims.append(("a well-formed route is accepted", z3.BoolVal(False)))
            else:
                route = val.fields[0].fields[0]
                got = field(structs, route, "suffixes").items
                want = [[lab.encode() for lab in x.split(".") if lab] for x in suffixes]
                ok_ = len(got) == len(want)
                if ok_:
                    for g, w in zip(got, want):
                        labs = g.fields[0].items
                        if len(labs) != len(w):
                            ok_ = False
                            break
                        for lg, lw in zip(labs, w):
                            bs = [z3.simplify(b.t) for b in lg.fields[0].items]
                            if len(bs) != len(lw) or any((not z3.is_bv_value(b)) or b.as_long() != o for b, o in zip(bs, lw)):
                                ok_ = False
                claims.append(("the loaded route lists exactly the written suffixes, in the written order (nested or repeated ones included)", z3.BoolVal(ok_)))
                dest = field(structs, route, "dest")
                claims.append(("the loaded route has the written type", z3.BoolVal(dest.variant == {"forward": "Forward", "forge-nxdomain": "ForgeNxDomain"}[kind])))
        for name, f in claims:
            m = check(ex, pc, f, name)
            if m is not None:
                failed.append(dict(check="", description=name, location="dns/config.rs parse_dns_route", kind="violation",
                                   counterexample=dict(config_section="dns-routes", suffixes=list(suffixes), type=kind, outcome=outcome if outcome == "panic" else classify(val))))
    return failed, ex, len(paths), kinds


def dns_route_cases(tier):
    out = [(["example.com", "vpn.partner.example.com"], "forward"), (["vpn.partner.example.com", "example.com"], "forge-nxdomain"), (["invalid"], "forge-nxdomain"), ([""], "forward"),
           (["a.b", "b", "a.b"], "forward"), (["Example.COM", "example.com"], "forward")]
    if tier == "thorough":
        out += [(["x.y.z", "y.z", "z", ""], "forward"), (["co", "com", "corp.example.com"], "forge-nxdomain")]
    return out
