"""Obligations over logic that lives inline in async fns, lifted verbatim into synchronous fns (lib/lift.py) and
compiled into the MIR dump under cfg isomer_erbium_mir: DNS route selection (C15) and the DNS ACL gate (C08)."""
import itertools

import z3

from .interp import Exec
from .props_cache import build, field
from .props_pool import check
from .summaries import S, lower8, some, err, ok
from .values import BV, Bool, Adt, Seq, Cell, Ref, Opaque, Str, Unsupported


def find(prog, name, nargs):
    fs = [f for f in prog.find(name, nargs) if "{closure" not in f.name]
    if len(fs) != 1:
        raise Unsupported(f"{name}/{nargs} not found uniquely in the MIR dump ({[f.name for f in fs]})")
    return fs[0]


def label(term):
    return Adt("Label", None, [Seq([BV(term)])])


def domain(terms):
    return Adt("Domain", None, [Seq([label(t) for t in terms])])


# ---------------------------------------------------------------------------------------------------------------- router
def router_obligation(prog, enums, structs, shape, multi=False):
    """shape: tuple of suffix label counts, one route per entry (multi: first route gets two suffixes (1 and 2 labels))"""
    fn = find(prog, "lifted_router_handle_query", 2)
    summ = dict(S)

    def next_handle(ex, c):
        ex.env["forwarded"] = c.args[2]
        return err(Adt("dns::Error", "Denied", [Str(text="")]))
    summ["NextShim::handle_query"] = next_handle
    ex = Exec(prog, summ, enums, max_unroll=12)

    def run(e):
        q = [z3.BitVec(f"q{i}", 8) for i in range(3)]
        e.env["q"] = q
        routes, info = [], []
        for r, n in enumerate(shape):
            s = [z3.BitVec(f"s{r}_{i}", 8) for i in range(3)]
            sufs = [(n, s)]
            if multi and r == 0:
                s2 = [z3.BitVec(f"s{r}b_{i}", 8) for i in range(3)]
                sufs = [(1, s), (2, s2)]
            nx = e.choose([None, None]) == 0
            server = z3.BitVecVal(100 + r, 32)
            dest = Adt("Handler", "ForgeNxDomain", []) if nx else Adt("Handler", "Forward", [Seq([BV(server)])])
            routes.append(build(structs, "Route", suffixes=Seq([domain(sv[3 - k:]) for k, sv in sufs]), dest=dest))
            info.append(dict(sufs=sufs, nx=nx, server=server))
        e.env["routes"] = info
        rd = z3.Bool("rd")
        e.env["rd"] = rd
        conf = Adt("ConfView", None, [Seq(routes)], ["dns_routes"])
        shim = Adt("RouterShim", None, [Adt("ConfShim", None, [Ref(Cell(conf))]), Adt("NextShim", None, [])], ["conf", "next"])
        question = build(structs, "Question", qdomain=domain(q), qclass=Adt("Class", None, [BV(z3.BitVecVal(1, 16))]),
                         qtype=Adt("Type", None, [BV(z3.BitVecVal(1, 16))]))
        msg = Adt("MsgShim", None, [Adt("QueryView", None, [BV(z3.BitVecVal(1, 16)), Bool(rd), question], ["qid", "rd", "question"])], ["in_query"])
        return e.call_fn(fn, [Ref(Cell(shim)), Ref(Cell(msg))])
    paths = ex.explore(run)
    failed = []
    kinds = {}
    for outcome, val, pc, env in paths:
        q = env["q"]
        info = env["routes"]
        rd = env["rd"]
        cands = []       # (match term, length, action)
        for r in info:
            for (k, sv) in r["sufs"]:
                m = z3.And([lower8(sv[i]) == lower8(q[i]) for i in range(3 - k, 3)]) if k else z3.BoolVal(True)
                cands.append((m, k, ("nx", None) if r["nx"] else ("fwd", r["server"])))
        if outcome == "panic":
            kinds["panic"] = kinds.get("panic", 0) + 1
            claims = [("route selection never panics: " + str(val), z3.BoolVal(False))]
        else:
            e = val.fields[0]
            fwd = env.get("forwarded")
            got = ("fwd", fwd.t) if fwd is not None else (e.variant, None)
            kinds[got[0]] = kinds.get(got[0], 0) + 1
            # expected: for every candidate c that matches and is strictly longer than every other matching candidate with a
            # different action, the outcome is c's action
            parts = []

            def same(a, b):
                return a[0] == b[0] and (a[0] == "nx" or a[1].as_long() == b[1].as_long())
            for i, (m, k, act) in enumerate(cands):
                # candidate i decides when it matches and every other matching candidate is shorter or has the same action
                decisive = z3.And([m] + [z3.Or(z3.Not(m2), z3.BoolVal(k2 < k or same(act, act2)))
                                         for j, (m2, k2, act2) in enumerate(cands) if j != i])
                if act[0] == "nx":
                    exp = z3.BoolVal(got[0] == "Blocked" and fwd is None)
                else:
                    sent_here = (got[1] == act[1]) if got[0] == "fwd" else z3.BoolVal(False)
                    exp = z3.If(rd, sent_here, z3.BoolVal(got[0] == "NotAuthoritative" and fwd is None))
                parts.append(z3.Implies(decisive, exp))
            none = z3.And([z3.Not(m) for m, _, _ in cands])
            parts.append(z3.Implies(none, z3.BoolVal(got[0] == "NoRouteConfigured" and fwd is None)))
            claims = [("outcome = action of the matching suffix with most labels (forge-nxdomain => Blocked, never upstream; forward => that route's server iff RD; none => NoRouteConfigured)",
                       z3.And(parts))]
        for name, f in claims:
            m = check(ex, pc, f, name)
            if m is not None:
                ev = lambda t: m.eval(t, model_completion=True).as_long()  # noqa
                cex = dict(query=[ev(x) for x in q], rd=str(m.eval(rd, model_completion=True)),
                           routes=[dict(suffixes=[[ev(x) for x in sv[3 - k:]] for k, sv in r["sufs"]], action="forge-nxdomain" if r["nx"] else "forward") for r in info],
                           outcome=outcome if outcome == "panic" else (val.fields[0].variant if env.get("forwarded") is None else "forwarded"))
                failed.append(dict(check="", description=name, location="dns/router.rs handle_query (lifted)", kind="violation", counterexample=cex))
    return failed, ex, len(paths), kinds


# ---------------------------------------------------------------------------------------------------------------- DNS ACL gate
def dnsacl_obligation(prog, enums, structs):
    fn = find(prog, "lifted_dnsacl_handle_query", 2)
    summ = dict(S)

    def require_permission(ex, c):
        # acl::require_permission itself is decided by the Kani harnesses (c08_acl_*); here: arbitrary verdict
        ex.env["perm_checked"] = ex.env.get("perm_checked", 0) + 1
        perm = c.args[2]
        ex.env["perm_kind"] = perm.variant
        if ex.choose([None, None]) == 0:
            ex.env["perm_ok"] = True
            return ok(Adt("()", None, []))
        ex.env["perm_ok"] = False
        return err(Adt("AclError", "NotAuthenticated", []))

    def next_handle(ex, c):
        ex.env["next_reached"] = True
        return err(Adt("dns::Error", "NotAuthoritative", []))

    def port(ex, c):
        if ex.choose([None, None]) == 0:
            return Adt("Option", "None", [])
        return some(BV(z3.BitVec("port", 16)))
    summ["require_permission"] = require_permission
    summ["acl::require_permission"] = require_permission
    summ["AclNext::handle_query"] = next_handle
    summ["<SockaddrStorage as NetAddrExt>::port"] = port
    ex = Exec(prog, summ, enums, max_unroll=4)

    def run(e):
        qtype = z3.BitVec("qtype", 16)
        e.env["qtype"] = qtype
        rd = z3.Bool("rd")
        question = build(structs, "Question", qdomain=domain([]), qclass=Adt("Class", None, [BV(z3.BitVecVal(1, 16))]),
                         qtype=Adt("Type", None, [BV(qtype)]))
        names = [f for f in structs["DNSPkt"] if "question" in f][0]
        vals = {n: Opaque("unused") for n in names}
        vals["question"] = question
        vals["rd"] = Bool(rd)
        pkt = Adt("DNSPkt", None, [vals[n] for n in names], list(names))
        mnames = [f for f in structs["DnsMessage"] if "in_query" in f][0]
        mvals = {n: Opaque("unused") for n in mnames}
        mvals["in_query"] = pkt
        mvals["remote_addr"] = Opaque("NetAddr")
        msg = Adt("DnsMessage", None, [mvals[n] for n in mnames], list(mnames))
        conf = Adt("AclConfView", None, [Seq([])], ["acls"])
        shim = Adt("AclShim", None, [Adt("AclLock", None, [Ref(Cell(conf))]), Adt("AclNext", None, [])], ["config", "next"])
        return e.call_fn(fn, [Ref(Cell(shim)), Ref(Cell(msg))])
    paths = ex.explore(run)
    failed = []
    kinds = {}
    for outcome, val, pc, env in paths:
        claims = []
        if outcome == "panic":
            claims.append(("the ACL gate never panics: " + str(val), z3.BoolVal(False)))
        else:
            e = val.fields[0] if val.variant == "Err" else None
            k = e.variant if e is not None else "Ok"
            kinds[k] = kinds.get(k, 0) + 1
            claims.append(("dns-recursion permission is checked exactly once for EVERY query (whatever RD, type, port)",
                           z3.BoolVal(env.get("perm_checked", 0) == 1 and env.get("perm_kind") == "DnsRecursion")))
            if env.get("perm_ok") is False or env.get("perm_checked", 0) == 0:
                claims.append(("a client refused by the ACL gets RefusedByAcl and its query never reaches routing, cache or upstream",
                               z3.BoolVal(k == "RefusedByAcl" and not env.get("next_reached"))))
            if env.get("next_reached"):
                claims.append(("the query is passed on only after the ACL granted dns-recursion", z3.BoolVal(env.get("perm_ok") is True)))
        for name, f in claims:
            m = check(ex, pc, f, name)
            if m is not None:
                failed.append(dict(check="", description=name, location="dns/acl.rs handle_query (lifted)", kind="violation",
                                   counterexample=dict(rd=str(m.eval(z3.Bool("rd"), model_completion=True)), qtype=m.eval(env["qtype"], model_completion=True).as_long(),
                                                       acl_verdict=env.get("perm_ok"), perm_checked=env.get("perm_checked", 0), next_reached=bool(env.get("next_reached")))))
    return failed, ex, len(paths), kinds


# ---------------------------------------------------------------------------------------------------------------- create_in_reply (C03)
def reply_obligation(prog, enums, structs, shape):
    """client reply assembled from the upstream reply: shape = (answers, authority, additional) record counts"""
    from .props_cache import mk_pkt
    fn = find(prog, "lifted_create_in_reply", 2)
    summ = dict(S)
    summ["<EdnsData as Default>::default"] = lambda ex, c: Adt("EdnsData", None, [Seq([])])
    summ["add_edns_shim"] = lambda ex, c: Adt("()", None, [])
    ex = Exec(prog, summ, enums, max_unroll=6)

    def run(e):
        upstream, _ = mk_pkt(structs, shape)
        # distinct symbolic header bits / rcode / id for the upstream reply are created by mk_pkt; the client's query:
        qnames = structs["DNSPkt"][0]
        qvals = {n: Opaque("unused") for n in qnames}
        qvals["qid"] = BV(z3.BitVec("client_qid", 16))
        qvals["edns_ver"] = Adt("Option", "Some", [BV(z3.BitVec("client_edns_ver", 8))]) if e.choose([None, None]) == 0 else Adt("Option", "None", [])
        qvals["question"] = build(structs, "Question", qdomain=Adt("Domain", None, [BV(z3.BitVec("client_qname", 32))]),
                                  qclass=Adt("Class", None, [BV(z3.BitVec("client_qclass", 16))]),
                                  qtype=Adt("Type", None, [BV(z3.BitVec("client_qtype", 16))]))
        query = Adt("DNSPkt", None, [qvals[n] for n in qnames], list(qnames))
        mnames = [f for f in structs["DnsMessage"] if "in_query" in f][0]
        mvals = {n: Opaque("unused") for n in mnames}
        mvals["in_query"] = query
        msg = Adt("DnsMessage", None, [mvals[n] for n in mnames], list(mnames))
        e.env["upstream"], e.env["query"] = upstream, query
        return e.call_fn(fn, [Ref(Cell(msg)), Ref(Cell(upstream))])
    paths = ex.explore(run)
    failed = []
    for outcome, val, pc, env in paths:
        if outcome == "panic":
            claims = [("assembling the client reply never panics: " + str(val), z3.BoolVal(False))]
        else:
            up, q = env["upstream"], env["query"]

            def rec_ids(pkt, sec):
                return [(field(structs, r, "domain").fields[0].t, field(structs, r, "ttl").t, field(structs, r, "rrtype").fields[0].t,
                         field(structs, r, "rdata").fields[0].items[0].t) for r in field(structs, pkt, sec).items]

            def same_section(sec):
                a, b = rec_ids(up, sec), rec_ids(val, sec)
                if len(a) != len(b):
                    return z3.BoolVal(False)
                return z3.And([z3.And([x == y for x, y in zip(ra, rb)]) for ra, rb in zip(a, b)]) if a else z3.BoolVal(True)
            qq, rq = field(structs, q, "question"), field(structs, val, "question")
            claims = [
                ("reply carries the client's own transaction id", field(structs, val, "qid").t == field(structs, q, "qid").t),
                ("reply carries the client's own question",
                 z3.And(field(structs, rq, "qdomain").fields[0].t == field(structs, qq, "qdomain").fields[0].t,
                        field(structs, rq, "qtype").fields[0].t == field(structs, qq, "qtype").fields[0].t,
                        field(structs, rq, "qclass").fields[0].t == field(structs, qq, "qclass").fields[0].t)),
                ("reply is marked as a response", field(structs, val, "qr").t),
                ("response code is the upstream's", field(structs, val, "rcode").fields[0].t == field(structs, up, "rcode").fields[0].t),
                ("answer section = upstream answer section (order, names, types, data, TTLs)", same_section("answer")),
                ("authority section = upstream authority section (records are never moved between sections)", same_section("nameserver")),
                ("additional section = upstream additional section", same_section("additional")),
            ]
        for name, f in claims:
            m = check(ex, pc, f, name)
            if m is not None:
                failed.append(dict(check="", description=name, location="dns/mod.rs create_in_reply (lifted)", kind="violation",
                                   counterexample=dict(shape=list(shape), note="see claim; the upstream reply has distinct symbolic records per section")))
    return failed, ex, len(paths), {}


# ---------------------------------------------------------------------------------------------------------------- cache handle_query wrapper (C06)
def cache_wrapper_obligation(prog, enums, structs):
    """key construction, class-IN gate and insert-only-if-cacheable of the async CacheHandler::handle_query (lifted)"""
    fn = find(prog, "lifted_cache_handle_query", 3)
    summ = dict(S)

    def get_entry(ex, c):
        ex.env["lookup_key"] = ex.load(c.args[1]) if isinstance(c.args[1], Ref) else c.args[1]
        if ex.choose([None, None]) == 0:
            ex.env["hit"] = True
            return some(err(Adt("dns::Error", "NotAuthoritative", [])))
        return Adt("Option", "None", [])

    def next_handle(ex, c):
        ex.env["upstream_calls"] = ex.env.get("upstream_calls", 0) + 1
        return err(Adt("dns::Error", "Blocked", []))

    def calc(ex, c):
        secs = z3.BitVec("lifetime_s", 64)
        ex.env["lifetime"] = secs
        return Adt("Duration", None, [BV(secs), BV(z3.BitVecVal(0, 32))])

    def insert(ex, c):
        ex.env["inserted_key"] = c.args[2]
        ex.env["inserted_expiry"] = c.args[4]
        return Adt("()", None, [])
    summ.update({"CacheShim::get_entry": get_entry, "NextShim::handle_query": next_handle, "CacheShim::calculate_expiry": calc,
                 "CacheShim::insert_cache_entry": insert, "LockShim::read": lambda ex, c: Opaque("Cache"), "LockShim::write": lambda ex, c: Opaque("Cache"),
                 "harness_now": lambda ex, c: Opaque("Instant"), "lifted::harness_now": lambda ex, c: Opaque("Instant")})
    ex = Exec(prog, summ, enums, max_unroll=4)

    def run(e):
        qn, qt, qc = z3.BitVec("qname", 32), z3.BitVec("qtype", 16), z3.BitVec("qclass", 16)
        do, cd = z3.Bool("do"), z3.Bool("cd")
        e.env["q"] = (qn, qt, qc, do, cd)
        question = build(structs, "Question", qdomain=Adt("Domain", None, [BV(qn)]), qclass=Adt("Class", None, [BV(qc)]), qtype=Adt("Type", None, [BV(qt)]))
        names = structs["DNSPkt"][0]
        vals = {n: Opaque("unused") for n in names}
        vals.update(question=question, edns_do=Bool(do), cd=Bool(cd), rd=Bool(z3.Bool("rd")), qid=BV(z3.BitVec("qid", 16)))
        for flag in ("tc", "aa", "qr", "ad", "ra"):       # every other header bit is an independent symbolic value too
            if flag in vals:
                vals[flag] = Bool(z3.Bool("hdr_" + flag))
        pkt = Adt("DNSPkt", None, [vals[n] for n in names], list(names))
        mnames = [f for f in structs["DnsMessage"] if "in_query" in f][0]
        mvals = {n: Opaque("unused") for n in mnames}
        mvals["in_query"] = pkt
        msg = Adt("DnsMessage", None, [mvals[n] for n in mnames], list(mnames))
        shim = Adt("CacheShim", None, [Adt("NextShim", None, []), Adt("LockShim", None, [])], ["next", "cache"])
        return e.call_fn(fn, [Ref(Cell(shim)), Ref(Cell(msg)), Opaque("SocketAddr")])
    paths = ex.explore(run)
    failed, kinds = [], {}
    for outcome, val, pc, env in paths:
        qn, qt, qc, do, cd = env["q"]
        claims = []
        if outcome == "panic":
            claims.append(("the cache wrapper never panics: " + str(val), z3.BoolVal(False)))
        else:
            def key_is_query(k):
                return z3.And(field(structs, k, "qname").fields[0].t == qn, field(structs, k, "qtype").fields[0].t == qt,
                              field(structs, k, "edns_do").t == do, field(structs, k, "cd").t == cd)
            lk = env.get("lookup_key")
            kinds["looked-up" if lk is not None else "bypass"] = kinds.get("looked-up" if lk is not None else "bypass", 0) + 1
            claims.append(("only class IN queries consult the cache; other classes go upstream", (qc == 1) == z3.BoolVal(lk is not None)))
            if lk is not None:
                claims.append(("the cache is consulted with exactly the query's name, type, DNSSEC-OK and checking-disabled bits", key_is_query(lk)))
            if env.get("hit"):
                claims.append(("a cache hit is answered without asking upstream", z3.BoolVal(env.get("upstream_calls", 0) == 0)))
            else:
                claims.append(("a miss is resolved upstream exactly once", z3.BoolVal(env.get("upstream_calls", 0) == 1)))
            ik = env.get("inserted_key")
            if ik is not None:
                claims.append(("an entry is stored under exactly the query's key and only with a positive lifetime",
                               z3.And(key_is_query(ik), z3.UGT(env["lifetime"], 0))))
            elif lk is not None and not env.get("hit"):
                claims.append(("a reply with a positive lifetime is stored", z3.Not(z3.UGT(env["lifetime"], 0))))
        for name, f in claims:
            m = check(ex, pc, f, name)
            if m is not None:
                failed.append(dict(check="", description=name, location="dns/cache/mod.rs handle_query (lifted)", kind="violation",
                                   counterexample=dict(acl_verdict=None, qclass=m.eval(qc, model_completion=True).as_long(), do=str(m.eval(do, model_completion=True)),
                                                       cd=str(m.eval(cd, model_completion=True)), hit=bool(env.get("hit")))))
    return failed, ex, len(paths), kinds


def outquery_obligation(prog, enums, structs):
    """the query sent upstream (dns/outquery.rs create_outquery): the client's question under the chosen id, as a recursive query"""
    fns = [f for f in prog.find("create_outquery", 2) if "{closure" not in f.name]
    if len(fns) != 1:
        raise Unsupported("create_outquery not found uniquely in the MIR dump")
    summ = dict(S)
    summ["EdnsData::new"] = lambda ex, c: Adt("EdnsData", None, [Seq([])])
    summ["<EdnsData as Default>::default"] = lambda ex, c: Adt("EdnsData", None, [Seq([])])
    ex = Exec(prog, summ, enums, max_unroll=6)

    def run(e):
        qnames = structs["DNSPkt"][0]
        qvals = {n: Opaque("unused") for n in qnames}
        qvals["edns_do"] = Bool(z3.Bool("client_do"))
        qvals["question"] = build(structs, "Question", qdomain=Adt("Domain", None, [BV(z3.BitVec("client_qname", 32))]),
                                  qclass=Adt("Class", None, [BV(z3.BitVec("client_qclass", 16))]), qtype=Adt("Type", None, [BV(z3.BitVec("client_qtype", 16))]))
        query = Adt("DNSPkt", None, [qvals[n] for n in qnames], list(qnames))
        e.env["query"] = query
        e.env["id"] = z3.BitVec("chosen_id", 16)
        return e.call_fn(fns[0], [BV(e.env["id"]), Ref(Cell(query))])
    paths = ex.explore(run)
    failed = []
    for outcome, val, pc, env in paths:
        if outcome == "panic":
            claims = [("building the upstream query never panics: " + str(val), z3.BoolVal(False))]
        else:
            q = env["query"]
            qq, oq = field(structs, q, "question"), field(structs, val, "question")
            claims = [
                ("the upstream query carries the client's question (name, type, class)",
                 z3.And(field(structs, oq, "qdomain").fields[0].t == field(structs, qq, "qdomain").fields[0].t,
                        field(structs, oq, "qtype").fields[0].t == field(structs, qq, "qtype").fields[0].t,
                        field(structs, oq, "qclass").fields[0].t == field(structs, qq, "qclass").fields[0].t)),
                ("the upstream query is sent under the freshly chosen id", field(structs, val, "qid").t == env["id"]),
                ("the upstream query is a standard recursive query: QR clear, opcode QUERY, RD set, TC clear, no records",
                 z3.And(z3.Not(field(structs, val, "qr").t), field(structs, val, "opcode").fields[0].t == 0, field(structs, val, "rd").t, z3.Not(field(structs, val, "tc").t),
                        z3.BoolVal(len(field(structs, val, "answer").items) == 0 and len(field(structs, val, "nameserver").items) == 0 and len(field(structs, val, "additional").items) == 0))),
                ("the DNSSEC-OK bit of the client is passed on", field(structs, val, "edns_do").t == field(structs, q, "edns_do").t),
            ]
        for name, f in claims:
            m = check(ex, pc, f, name)
            if m is not None:
                failed.append(dict(check="", description=name, location="dns/outquery.rs create_outquery", kind="violation", counterexample=dict(outquery=True, note="see claim")))
    return failed, ex, len(paths), {}


def accept_reply_obligation(prog, enums, structs):
    """which upstream reply is used (dns/outquery.rs handle_query_internal, lifted): a UDP reply only if it carries the query's id and
    is not truncated, otherwise the exchange is repeated over TCP; TCP clients are served over TCP"""
    fns = [f for f in prog.find("lifted_outquery_accept_reply", 4)]
    if len(fns) != 1:
        raise Unsupported("lifted_outquery_accept_reply not found in the MIR dump")
    summ = dict(S)

    def mk_reply(tag):
        names = structs["DNSPkt"][0]
        vals = {n: Opaque("unused") for n in names}
        vals["qid"] = BV(z3.BitVec(tag + "_qid", 16))
        vals["tc"] = Bool(z3.Bool(tag + "_tc"))
        vals["rcode"] = Adt("RCode", None, [BV(z3.BitVec(tag + "_rcode", 16))])
        return Adt("DNSPkt", None, [vals[n] for n in names], list(names))

    def udp_shim(ex, c):
        ex.env["udp_calls"] = ex.env.get("udp_calls", 0) + 1
        return Adt("Result", "Ok", [ex.env["udp_reply"]])

    def tcp_shim(ex, c):
        ex.env["tcp_calls"] = ex.env.get("tcp_calls", 0) + 1
        return Adt("Result", "Ok", [ex.env["tcp_reply"]])
    summ["udp_shim"] = udp_shim
    summ["tcp_shim"] = tcp_shim
    ex = Exec(prog, summ, enums, max_unroll=6)

    def run(e):
        e.env["udp_reply"], e.env["tcp_reply"] = mk_reply("udp"), mk_reply("tcp")
        e.env["id"] = z3.BitVec("query_id", 16)
        proto = ["Udp", "Tcp"][e.choose([None, None])]
        e.env["proto"] = proto
        msg = Adt("ProtoShim", None, [Adt("Protocol", proto, [])], ["protocol"])
        names = structs["DNSPkt"][0]
        # the upstream query was built by create_outquery(id, ..) just before (decided by c03_outquery_carries_the_question): it carries the chosen id
        ovals = {n: Opaque("unused") for n in names}
        ovals["qid"] = BV(e.env["id"])
        oq = Adt("DNSPkt", None, [ovals[n] for n in names], list(names))
        return e.call_fn(fns[0], [Ref(Cell(msg)), Opaque("SocketAddr"), BV(e.env["id"]), oq])
    paths = ex.explore(run)
    failed, kinds = [], {}
    for outcome, val, pc, env in paths:
        if outcome == "panic":
            claims = [("choosing the upstream reply never panics: " + str(val), z3.BoolVal(False))]
        elif val.variant != "Ok":
            claims = [("both exchanges succeeded, so a reply is produced", z3.BoolVal(False))]
        else:
            got = val.fields[0]
            udp, tcp, qid = env["udp_reply"], env["tcp_reply"], env["id"]
            u_calls, t_calls = env.get("udp_calls", 0), env.get("tcp_calls", 0)
            is_udp = got is udp
            is_tcp = got is tcp
            k = "%s/%s" % (env["proto"], "udp reply" if is_udp else "tcp reply" if is_tcp else "other")
            kinds[k] = kinds.get(k, 0) + 1
            u_qid, u_tc = field(structs, udp, "qid").t, field(structs, udp, "tc").t
            claims = [("the reply used is one of the two upstream replies", z3.BoolVal(is_udp or is_tcp))]
            if env["proto"] == "Udp":
                claims.append(("a UDP reply is used only if it carries the id of the query and is not truncated", z3.BoolVal(not is_udp) if not is_udp else z3.And(u_qid == qid, z3.Not(u_tc))))
                claims.append(("an id-mismatched or truncated UDP reply is discarded and the query repeated once over TCP",
                               z3.BoolVal(u_calls == 1) if is_udp else z3.And(z3.BoolVal(is_tcp and u_calls == 1 and t_calls == 1), z3.Or(u_qid != qid, u_tc))))
                claims.append(("a matching, complete UDP reply is used without a TCP exchange", z3.Implies(z3.And(u_qid == qid, z3.Not(u_tc)), z3.BoolVal(is_udp and t_calls == 0))))
            else:
                claims.append(("a query that arrived over TCP is resolved over TCP only", z3.BoolVal(is_tcp and u_calls == 0 and t_calls == 1)))
        for name, f in claims:
            m = check(ex, pc, f, name)
            if m is not None:
                failed.append(dict(check="", description=name, location="dns/outquery.rs handle_query_internal (lifted)", kind="violation",
                                   counterexample=dict(outquery=True, protocol=env.get("proto"), query_id=m.eval(env["id"], model_completion=True).as_long(),
                                                       udp_reply_id=m.eval(field(structs, env["udp_reply"], "qid").t, model_completion=True).as_long(),
                                                       udp_reply_tc=bool(z3.is_true(m.eval(field(structs, env["udp_reply"], "tc").t, model_completion=True))))))
    return failed, ex, len(paths), kinds


def adapt_timeout_obligation(prog, enums, structs):
    """the adaptive retransmission timeout (dns/outquery.rs send_udp, lifted): one update from any in-bounds value stays in bounds
    (inductive: so does every history) and never panics"""
    from .summaries import duration
    fns = [f for f in prog.find("lifted_outquery_adapt_timeout", 4)]
    bfn = [f for f in prog.find("verif_timeout_bounds", 0)]
    if len(fns) != 1 or len(bfn) != 1:
        raise Unsupported("lifted_outquery_adapt_timeout / verif_timeout_bounds not found in the MIR dump")
    ex = Exec(prog, dict(S), enums, max_unroll=6)
    NANOS = 1000000000

    def dur_sym(tag):
        s_, n_ = z3.BitVec(tag + "_s", 64), z3.BitVec(tag + "_ns", 32)
        return s_, n_

    def le(a, b):       # (secs, nanos) lexicographic
        return z3.Or(z3.ULT(a[0], b[0]), z3.And(a[0] == b[0], z3.ULE(a[1], b[1])))

    def run(e):
        bounds = e.call_fn(bfn[0], [])
        mn, mx = bounds.items[0], bounds.items[1]
        mnt, mxt = (mn.fields[0].t, mn.fields[1].t), (mx.fields[0].t, mx.fields[1].t)
        e.env["bounds"] = (mnt, mxt)
        cur, ini, d = dur_sym("timeout"), dur_sym("initial"), dur_sym("elapsed")
        for x in (cur, ini, d):
            e.assume(z3.ULT(x[1], NANOS))
        e.assume(z3.And(le(mnt, cur), le(cur, mxt), le(mnt, ini), le(ini, mxt)))
        e.assume(z3.ULE(d[0], 86400))                  # a reply that took more than a day is outside the bound
        n = z3.BitVec("attempts", 64)
        e.assume(z3.ULE(n, 8))
        cell = Cell(duration(cur[0], cur[1]))
        e.env["cell"] = cell
        return e.call_fn(fns[0], [BV(n), duration(d[0], d[1]), duration(ini[0], ini[1]), Ref(cell, mut=True)])
    paths = ex.explore(run)
    failed, kinds = [], {}
    for outcome, val, pc, env in paths:
        if outcome == "panic":
            kinds["panic"] = kinds.get("panic", 0) + 1
            claims = [("updating the retransmission timeout never panics or overflows: " + str(val), z3.BoolVal(False))]
        else:
            kinds["ok"] = kinds.get("ok", 0) + 1
            c = env["cell"].v
            got = (c.fields[0].t, c.fields[1].t)
            mnt, mxt = env["bounds"]
            claims = [("the retransmission timeout stays within its documented bounds (MIN_DNS_TIMEOUT..MAX_DNS_TIMEOUT) after every update", z3.And(le(mnt, got), le(got, mxt)))]
        for name, f in claims:
            m = check(ex, pc, f, name)
            if m is not None:
                failed.append(dict(check="", description=name, location="dns/outquery.rs send_udp (lifted)", kind="violation", counterexample=dict(outquery=True, note="timeout update")))
    return failed, ex, len(paths), kinds
