"""Obligations over the lease pool (dhcp/pool.rs), decided by symbolic execution of its MIR with the SQL model.

One inductive step: allocate_address from an ARBITRARY lease table satisfying the representation invariant, for an
arbitrary client, request, pool set and (non-decreasing) clock.  Because the step starts from every table the
invariant admits, histories of any length, pool changes between messages and restarts (which do not change the
table) are covered by induction; the invariant is re-established by every successful step (checked).
"""
import time

import os

import z3

from . import sqlmodel
from .interp import Exec, Unwind
from .summaries import S, make_pool_set, duration
from .values import BV, Adt, Cell, Ref, Opaque, Str, Unsupported, Tup

U32MAX = 0xFFFFFFFF


def invariant(rows):
    cs = sqlmodel.table_invariant(rows)
    for r in rows:
        # every row was written as start = ts, expiry = ts + lease >= ts
        cs.append(z3.Implies(r.present, z3.ULE(r.start, r.expiry)))
    return cs


class Step:
    """symbolic inputs of one allocate_address step"""

    def __init__(self, n_rows, pool_size, with_request, defaults):
        self.n_rows = n_rows
        self.pool_size = pool_size
        self.with_request = with_request
        self.defaults = defaults


def setup_step(ex, step):
    rows = sqlmodel.fresh_table(step.n_rows)
    spare = step.n_rows - 1
    ex.env["table"] = rows
    ex.env["spare"] = spare
    ex.env["pre"] = rows
    for c in invariant(rows):
        ex.assume(c)
    ex.assume(z3.Not(rows[spare].present))
    # clock: seconds since 1970 as u64; the (ts as u32) casts are exact below 2^32 - margin (2106 wrap outside the claim)
    # bound: now + largest lease < 2^32 (the year-2106 wrap of `(ts + lease) as u32` is outside the claim)
    ex.env["clock_max"] = U32MAX - 367 * 86400
    ex.env["clock_min"] = 1_000_000_000
    client = z3.BitVec("client", 32)
    ex.env["client"] = client
    clientid = Ref(Cell(Opaque("Blob", id=client)))
    pool_terms = [z3.BitVec(f"pool{i}", 32) for i in range(step.pool_size)]
    if len(pool_terms) > 1:
        ex.assume(z3.Distinct(pool_terms))
    ex.env["pool"] = pool_terms
    hs = Ref(Cell(make_pool_set(pool_terms)))
    if step.with_request:
        req = z3.BitVec("requested", 32)
        ex.env["requested"] = req
        requested = Adt("Option", "Some", [Adt("Ipv4Addr", None, [BV(req)])])
    else:
        ex.env["requested"] = None
        requested = Adt("Option", "None", [])
    if step.defaults:
        mn, mx = z3.BitVecVal(300, 64), z3.BitVecVal(86400, 64)
    else:
        mn, mx = z3.BitVec("min_lease", 64), z3.BitVec("max_lease", 64)
        ex.assume(z3.ULE(mn, mx))
        ex.assume(z3.ULE(mx, z3.BitVecVal(366 * 86400, 64)))
    ex.env["min"], ex.env["max"] = mn, mx
    raw = Ref(Cell(Opaque("Blob", id=z3.BitVec("rawopts", 32))))
    pool = Ref(Cell(Adt("Pool", None, [Opaque("Connection")])), mut=True)
    return [pool, clientid, requested, hs, duration(mn), duration(mx), raw]


def in_pool(pool_terms, x):
    return z3.Or([p == x for p in pool_terms]) if pool_terms else z3.BoolVal(False)


def ext32(t):
    return z3.ZeroExt(32, t)


class PoolObligations:
    def __init__(self, prog, enums, tier, log):
        self.prog = prog
        self.enums = enums
        self.tier = tier
        self.log = log

    def find(self, name, nargs):
        fs = [f for f in self.prog.find(name, nargs) if "pool" in f.name and "{closure" not in f.name and "isomer_erbium_verif" not in f.name]
        if len(fs) != 1:
            raise Unsupported(f"function {name}/{nargs} not found uniquely in the MIR dump ({[f.name for f in fs]})")
        return fs[0]

    def shapes(self):
        if self.tier == "quick":
            rows, pools = [3], [0, 1, 2]
        else:
            rows, pools = [3, 4], [0, 1, 2, 3]
        for n in rows:
            for k in pools:
                for req in (False, True):
                    yield Step(n, k, req, defaults=False)

    def run_allocate(self):
        """explore allocate_address for every shape; returns list of (step, paths, exec)"""
        fn = self.find("allocate_address", 7)
        out = []
        for step in self.shapes():
            ex = Exec(self.prog, S, self.enums, max_unroll=step.pool_size + 3)

            def run(e, step=step):
                args = setup_step(e, step)
                return e.call_fn(fn, args)
            t0 = time.time()
            paths = ex.explore(run)
            out.append((step, paths, ex, time.time() - t0))
        return out


# ----------------------------------------------------------------------------------------------------------------
# property predicates over one finished path
# ----------------------------------------------------------------------------------------------------------------
def lease_fields(val):
    """Result<Lease, Error> -> ('ok', ip_term, secs_term, nanos_term, lease_type) | ('err', variant)"""
    if val.variant == "Ok":
        lease = val.fields[0]
        return ("ok", lease.fields[0].fields[0].t, lease.fields[1].fields[0].t, lease.fields[1].fields[1].t, lease.fields[2].variant)
    e = val.fields[0]
    return ("err", e.variant)


def check(ex, pc, claim, what, extra=(), prefer=()):
    """is pc /\\ extra /\\ not claim satisfiable?  -> None (holds) or a model.  `prefer`: soft constraints used only to
    pick a counterexample that can be replayed on the real clock (dropped if they make the query unsat)."""
    ex.queries += 1
    s = z3.Solver()
    s.set("timeout", 2 * int(os.environ.get("VERIF_Z3_TIMEOUT_MS", "60000")))
    for c in pc:
        s.add(c)
    for c in extra:
        s.add(c)
    s.add(z3.Not(claim))
    t = time.time()
    r = s.check()
    ex.solver_time += time.time() - t
    if r == z3.unsat:
        return None
    if r == z3.unknown:
        raise Unsupported(f"solver unknown on {what}")
    if prefer:
        s.push()
        for c in prefer:
            s.add(c)
        if s.check() == z3.sat:
            return s.model()
        s.pop()
        s.check()
    return s.model()


def replayable(env):
    """soft constraints: no clock tick between the two reads, every stored time within 400 days of now, sane leases"""
    cs = []
    clock = env.get("clock_reads", [])
    if not clock:
        return cs
    t1 = clock[0]
    for t in clock[1:]:
        cs.append(t == t1)
    day = 86400
    for r in env["pre"]:
        cs.append(z3.Implies(r.present, z3.And(r.start + 400 * day >= t1, r.start <= t1 + 400 * day,
                                               r.expiry + 400 * day >= t1, r.expiry <= t1 + 400 * day)))
    if "max" in env:
        cs.append(z3.ULE(env["max"], z3.BitVecVal(30 * day, 64)))
    return cs


def describe(model, env, extra=None):
    """render a counterexample as a history script (pre-state rows relative to the clock, request, outcome)"""
    def ev(t):
        v = model.eval(t, model_completion=True)
        return v.as_long() if z3.is_bv_value(v) else (z3.is_true(v) if z3.is_bool(v) else str(v))
    rows = []
    for r in env["pre"]:
        if ev(r.present):
            rows.append(dict(address=ev(r.address), client=ev(r.clientid), start=ev(r.start), expiry=ev(r.expiry)))
    d = dict(rows=rows, client=ev(env["client"]), requested=(ev(env["requested"]) if env.get("requested") is not None else None),
             pool=[ev(p) for p in env["pool"]], clock=[ev(t) for t in env.get("clock_reads", [])],
             min_lease=ev(env["min"]), max_lease=ev(env["max"]))
    if extra:
        d.update(extra)
    return d


# ----------------------------------------------------------------------------------------------------------------
# claims
# ----------------------------------------------------------------------------------------------------------------
def rows_equal(a, b):
    return z3.And(a.present == b.present,
                  z3.Implies(a.present, z3.And(a.address == b.address, a.clientid == b.clientid, a.start == b.start, a.expiry == b.expiry)))


def claims_for_path(pid, outcome, val, env):
    """-> list of (claim name, z3 formula that must hold on this path)"""
    pre, post = env["pre"], env["table"]
    c = env["client"]
    pool = env["pool"]
    req = env.get("requested")
    clock = env.get("clock_reads", [])
    out = []
    if outcome == "panic":
        return [("no-panic: " + str(val), z3.BoolVal(False))]
    res = lease_fields(val)
    t1 = clock[0]
    held_by_c = [z3.And(r.present, r.clientid == c, r.expiry > t1, in_pool(pool, r.address)) for r in pre]   # the set A
    any_held = z3.Or(held_by_c)
    # known finding F-C09-1 (see known_findings.json): the client ALSO holds an unexpired lease on an address outside
    # the pool it is being served from (the pool shrank / the client moved); the LIMIT 1 queries then rank that row
    # first and never look at the client's in-pool lease.  Violations are reported as known only under this
    # condition; the same claims are still checked, and must hold, whenever the condition is false.
    shadow = z3.Or([z3.And(r.present, r.clientid == c, r.expiry > t1, z3.Not(in_pool(pool, r.address))) for r in pre])
    f_c09_1 = [("F-C09-1", shadow)]
    if res[0] == "ok":
        _, x, secs, nanos, ltype = res
        t2 = clock[1]
        mine = [z3.And(p.present, p.address == x) for p in post]
        if pid == "C01":
            out.append(("granted address not held unexpired by another client at reply time",
                        z3.And([z3.Implies(z3.And(r.present, r.address == x, r.clientid != c), r.expiry <= t2) for r in pre])))
            out.append(("exactly one stored row for the granted address and it belongs to the asking client",
                        z3.And(z3.Or(mine), z3.And([z3.Implies(m, p.clientid == c) for m, p in zip(mine, post)]),
                               z3.And([z3.Implies(z3.And(mine[i], mine[j]), z3.BoolVal(i == j)) for i in range(len(post)) for j in range(len(post))]))))
            out.append(("representation invariant re-established (inductive step)", z3.And(invariant(post))))
        if pid in ("C02", "C01"):
            out.append(("granted address is a member of the pool the client is served from", in_pool(pool, x)))
        if pid == "C13":
            out.append(("only the row of the granted address changes",
                        z3.And([z3.Or(rows_equal(a, b), z3.And(b.present, b.address == x)) for a, b in zip(pre, post)])))
        if pid == "C09":
            out.append(("client with an unexpired lease inside the pool keeps one of those addresses",
                        z3.Implies(any_held, z3.Or([z3.And(h, r.address == x) for h, r in zip(held_by_c, pre)])), f_c09_1))
            if req is not None:
                out.append(("named address is granted when the client holds it",
                            z3.Implies(z3.Or([z3.And(h, r.address == req) for h, r in zip(held_by_c, pre)]), x == req), f_c09_1))
        if pid == "C10":
            mn, mx = env["min"], env["max"]
            out.append(("advertised lease within [min, max]",
                        z3.And(z3.UGE(secs, mn), z3.Or(z3.ULT(secs, mx), z3.And(secs == mx, nanos == 0)))))
            out.append(("server record: start = reply time, expiry = start + advertised lease (no wrap), expiry >= now + lease",
                        z3.And([z3.Implies(m, z3.And(p.start == t2, p.expiry == t2 + secs, z3.UGE(p.expiry, t2 + secs),
                                                     p.expiry - p.start == secs)) for m, p in zip(mine, post)])))
    else:
        variant = res[1]
        if pid in ("C13", "C01"):
            out.append(("a refused request leaves every stored lease exactly as it was",
                        z3.And([rows_equal(a, b) for a, b in zip(pre, post)] + [z3.BoolVal(env.get("writes", 0) == 0)])))
        if pid == "C09":
            out.append(("a client holding an unexpired lease inside the pool is never refused", z3.Not(any_held), f_c09_1))
            out.append(("refusal only with NoAssignableAddress", z3.BoolVal(variant == "NoAssignableAddress")))
            out.append(("refused only if every pool address is held, unexpired, by another client",
                        z3.And([z3.Or([z3.And(r.present, r.address == p, r.clientid != c, r.expiry > t1) for r in pre]) for p in pool]), f_c09_1))
    return out


def metrics_obligation(prog, enums, n_rows):
    """get_pool_metrics over an arbitrary table (incl. the empty one)"""
    po = PoolObligations(prog, enums, "quick", None)
    fn = po.find("get_pool_metrics", 1)
    ex = Exec(prog, S, enums, max_unroll=4)

    def run(e):
        rows = sqlmodel.fresh_table(n_rows)
        e.env["table"] = rows
        e.env["pre"] = rows
        e.env["spare"] = n_rows - 1
        e.env["clock_max"] = U32MAX - 4 * 86400
        for c in invariant(rows):
            e.assume(c)
        pool = Ref(Cell(Adt("Pool", None, [Opaque("Connection")])), mut=True)
        return e.call_fn(fn, [pool])
    paths = ex.explore(run)
    results = []
    for outcome, val, pc, env in paths:
        rows = env["pre"]
        now = env["clock_reads"][0]
        active = sum([z3.If(z3.And(r.present, r.expiry > now), z3.BitVecVal(1, 32), z3.BitVecVal(0, 32)) for r in rows], z3.BitVecVal(0, 32))
        expired = sum([z3.If(z3.And(r.present, r.expiry <= now), z3.BitVecVal(1, 32), z3.BitVecVal(0, 32)) for r in rows], z3.BitVecVal(0, 32))
        if outcome == "panic":
            claims = [("no-panic: " + str(val), z3.BoolVal(False))]
        elif val.variant == "Ok":
            a, b = val.fields[0].items
            claims = [("first gauge value = number of leases whose expiry lies in the future", a.t == active),
                      ("second gauge value = number of leases whose expiry has passed", b.t == expired)]
        else:
            claims = [("gauges are reported for every lease table, including the empty one", z3.BoolVal(False))]
        for name, f in claims:
            m = check(ex, pc, f, name)
            results.append((name, m, env, val if outcome != "panic" else None))
    return results, ex
