"""SQL -> SMT for exactly the statement shapes erbium's lease pool uses.  The SQL text is taken from the MIR string
constant at each call site; anything outside the subset raises Unsupported (=> inconclusive)."""
import re

import z3

from .values import Unsupported

KEYWORDS = {"SELECT", "FROM", "WHERE", "AND", "OR", "NOT", "GROUP", "BY", "ORDER", "LIMIT", "AS", "DESC", "ASC", "CASE",
            "WHEN", "THEN", "ELSE", "END", "INSERT", "REPLACE", "INTO", "VALUES", "TRUE", "FALSE", "NULL", "SUM", "MAX",
            "MIN", "COUNT", "COALESCE", "IFNULL", "ON", "CONFLICT", "DO", "UPDATE", "SET", "NOTHING"}

TOK = re.compile(r"\s*(\?\d+|\d+|[A-Za-z_][A-Za-z_0-9]*(?:\.[A-Za-z_][A-Za-z_0-9]*)?|<>|!=|>=|<=|==|=|>|<|\(|\)|,|\*|;)")

# schema of the leases table (pool.rs upgrade_schema_from_no_version); address is the PRIMARY KEY
COLUMNS = {"address": "text", "chaddr": "blob", "clientid": "blob", "start": "int", "expiry": "int", "options": "blob"}
PRIMARY_KEY = "address"


def tokenize(sql):
    pos, out = 0, []
    sql = sql.strip()
    while pos < len(sql):
        m = TOK.match(sql, pos)
        if not m:
            raise Unsupported(f"SQL token at: {sql[pos:pos + 20]!r}")
        out.append(m.group(1))
        pos = m.end()
    return out


class P:
    def __init__(self, toks):
        self.t = toks
        self.i = 0

    def peek(self):
        return self.t[self.i].upper() if self.i < len(self.t) else None

    def raw(self):
        return self.t[self.i]

    def eat(self, kw=None):
        tok = self.t[self.i]
        if kw is not None and tok.upper() != kw:
            raise Unsupported(f"SQL: expected {kw}, got {tok}")
        self.i += 1
        return tok

    def accept(self, kw):
        if self.peek() == kw:
            self.i += 1
            return True
        return False

    # expressions -------------------------------------------------------------------------------------
    def expr(self):
        e = self.and_expr()
        while self.accept("OR"):
            e = ("or", e, self.and_expr())
        return e

    def and_expr(self):
        e = self.not_expr()
        while self.accept("AND"):
            e = ("and", e, self.not_expr())
        return e

    def not_expr(self):
        if self.accept("NOT"):
            return ("not", self.not_expr())
        return self.cmp()

    def cmp(self):
        a = self.prim()
        if self.peek() in ("=", "==", "!=", "<>", ">=", "<=", ">", "<"):
            op = self.eat()
            op = {"==": "=", "<>": "!="}.get(op, op)
            return ("cmp", op, a, self.prim())
        return a

    def prim(self):
        tok = self.peek()
        if tok is None:
            raise Unsupported("SQL: unexpected end")
        if tok.startswith("?"):
            self.eat()
            return ("param", int(tok[1:]))
        if tok.isdigit():
            self.eat()
            return ("int", int(tok))
        if tok == "TRUE":
            self.eat()
            return ("int", 1)
        if tok == "FALSE":
            self.eat()
            return ("int", 0)
        if tok == "NULL":
            self.eat()
            return ("null",)
        if tok == "(":
            self.eat()
            e = self.expr()
            self.eat(")")
            return e
        if tok == "CASE":
            self.eat()
            self.eat("WHEN")
            c = self.expr()
            self.eat("THEN")
            a = self.expr()
            self.eat("ELSE")
            b = self.expr()
            self.eat("END")
            return ("case", c, a, b)
        if tok in ("COALESCE", "IFNULL"):
            self.eat()
            self.eat("(")
            a = self.expr()
            self.eat(",")
            b = self.expr()
            self.eat(")")
            return ("coalesce", a, b)
        if tok in ("SUM", "MAX", "MIN", "COUNT"):
            self.eat()
            self.eat("(")
            e = self.expr()
            self.eat(")")
            return ("agg", tok, e)
        if tok in KEYWORDS:
            raise Unsupported(f"SQL: unexpected keyword {tok}")
        name = self.eat()
        return ("col", name.lower())

    # statements --------------------------------------------------------------------------------------
    def select(self):
        self.eat("SELECT")
        items = []
        while True:
            e = self.expr()
            alias = None
            if self.accept("AS"):
                alias = self.eat().lower()
            items.append((e, alias))
            if not self.accept(","):
                break
        self.eat("FROM")
        table = self.eat().lower()
        where = None
        group = None
        order = []
        limit = None
        if self.accept("WHERE"):
            where = self.expr()
        if self.accept("GROUP"):
            self.eat("BY")
            g = self.eat()
            group = int(g) if g.isdigit() else g.lower()
        if self.accept("ORDER"):
            self.eat("BY")
            while True:
                e = self.expr()
                desc = False
                if self.accept("DESC"):
                    desc = True
                elif self.accept("ASC"):
                    pass
                order.append((e, desc))
                if not self.accept(","):
                    break
        offset = None
        if self.accept("LIMIT"):
            limit = int(self.eat())
            if self.accept("OFFSET"):
                offset = self.expr()
        self.accept(";")
        if self.i != len(self.t):
            raise Unsupported(f"SQL: trailing tokens {self.t[self.i:]}")
        return dict(kind="select", items=items, table=table, where=where, group=group, order=order, limit=limit, offset=offset)

    def insert(self):
        self.eat("INSERT")
        replace = False
        if self.accept("OR"):
            self.eat("REPLACE")
            replace = True
        self.eat("INTO")
        table = self.eat().lower()
        self.eat("(")
        cols = []
        while True:
            cols.append(self.eat().lower())
            if not self.accept(","):
                break
        self.eat(")")
        self.eat("VALUES")
        self.eat("(")
        vals = []
        while True:
            vals.append(self.expr())
            if not self.accept(","):
                break
        self.eat(")")
        upsert = None
        if self.accept("ON"):
            self.eat("CONFLICT")
            self.eat("(")
            target = [self.eat().lower()]
            while self.accept(","):
                target.append(self.eat().lower())
            self.eat(")")
            self.eat("DO")
            if self.accept("NOTHING"):
                upsert = dict(target=target, sets=None)
            else:
                self.eat("UPDATE")
                self.eat("SET")
                sets = []
                while True:
                    col = self.eat().lower()
                    self.eat("=")
                    sets.append((col, self.expr()))
                    if not self.accept(","):
                        break
                upsert = dict(target=target, sets=sets)
        self.accept(";")
        if self.i != len(self.t):
            raise Unsupported(f"SQL: trailing tokens {self.t[self.i:]}")
        return dict(kind="insert", replace=replace, table=table, cols=cols, vals=vals, upsert=upsert)


_cache = {}


def parse_sql(sql):
    if sql in _cache:
        return _cache[sql]
    p = P(tokenize(sql))
    if p.peek() == "SELECT":
        ast = p.select()
    elif p.peek() == "INSERT":
        ast = p.insert()
    else:
        raise Unsupported(f"SQL statement kind: {sql[:40]!r}")
    if ast["table"] != "leases":
        raise Unsupported(f"SQL: table {ast['table']}")
    _cache[sql] = ast
    return ast


# ------------------------------------------------------------------------------------------------------------
# symbolic relation
# ------------------------------------------------------------------------------------------------------------
class Row:
    def __init__(self, present, address, clientid, start, expiry, tie=None):
        self.tie = tie            # position of the slot in SQLite's (unspecified but fixed) order among rows with equal sort keys
        self.present = present    # z3 Bool
        self.address = address    # BV32  (the TEXT column always holds the canonical rendering of an address)
        self.clientid = clientid  # BV32 identity of the BLOB (equality is all SQL does with it)
        self.start = start        # BV64 (SQLite INTEGER)
        self.expiry = expiry      # BV64

    def cols(self):
        return dict(address=("text", self.address), clientid=("blob", self.clientid), start=("int", self.start),
                    expiry=("int", self.expiry))


def fresh_table(n, tag="r"):
    rows = []
    for i in range(n):
        rows.append(Row(z3.Bool(f"{tag}{i}_present"), z3.BitVec(f"{tag}{i}_addr", 32), z3.BitVec(f"{tag}{i}_client", 32),
                        z3.BitVec(f"{tag}{i}_start", 64), z3.BitVec(f"{tag}{i}_expiry", 64), tie=z3.BitVec(f"{tag}{i}_tie", 8)))
    return rows


# unique keys of the leases table, re-read from the DDL text in the current source by extract_schema()
UNIQUE_KEYS = [[PRIMARY_KEY]]


def extract_schema(mir_text):
    """Read the DDL that creates a fresh lease database from the MIR string constants of pool.rs and set the unique keys.
    Anything on `leases` beyond CREATE TABLE (with one PRIMARY KEY) / CREATE [UNIQUE] INDEX / ALTER TABLE ADD COLUMN is
    outside the model => Unsupported."""
    global UNIQUE_KEYS
    ddl = []
    for m in re.finditer(r'const "((?:CREATE|ALTER|DROP)[^"]*)"', mir_text):
        txt = bytes(m.group(1), "utf-8").decode("unicode_escape")
        if re.search(r"\bleases\b", txt):
            ddl.append(" ".join(txt.split()))
    ddl = sorted(set(ddl))
    keys = []
    seen_table = False
    for d in ddl:
        mt = re.match(r"^CREATE TABLE (?:IF NOT EXISTS )?leases \((.*)\)$", d, re.I)
        if mt:
            body = mt.group(1)
            pk = re.findall(r"PRIMARY KEY \(([^)]*)\)", body, re.I)
            inline_pk = re.findall(r"(\w+) \w+[^,]*PRIMARY KEY", re.sub(r"PRIMARY KEY \([^)]*\)", "", body, flags=re.I), re.I)
            uniq = re.findall(r"UNIQUE \(([^)]*)\)", body, re.I) + [u for u in re.findall(r"(\w+) \w+[^,]*\bUNIQUE\b", body, re.I)]
            cols = [c.strip().split()[0].lower() for c in re.sub(r"(PRIMARY KEY|UNIQUE) \([^)]*\)", "", body, flags=re.I).split(",") if c.strip()]
            for c in cols:
                if c not in COLUMNS:
                    raise Unsupported(f"SQL schema: unknown column {c} in CREATE TABLE leases")
            allpk = [[x.strip().lower() for x in p.split(",")] for p in pk] + [[x.lower()] for x in inline_pk]
            if seen_table and allpk != [[PRIMARY_KEY]]:
                raise Unsupported("SQL schema: CREATE TABLE variants disagree on the primary key")
            if allpk != [[PRIMARY_KEY]]:
                raise Unsupported(f"SQL schema: primary key {allpk} (the model requires PRIMARY KEY (address))")
            seen_table = True
            keys += [[x.strip().lower() for x in u.split(",")] for u in uniq]
            continue
        mi = re.match(r"^CREATE (UNIQUE )?INDEX (?:IF NOT EXISTS )?\w+ ON leases \(([^)]*)\)$", d, re.I)
        if mi:
            if mi.group(1):
                keys.append([x.strip().lower() for x in mi.group(2).split(",")])
            continue
        if re.match(r"^ALTER TABLE leases ADD COLUMN \w+ \w+$", d, re.I):
            continue
        raise Unsupported(f"SQL schema statement outside the model: {d[:80]}")
    if not seen_table:
        raise Unsupported("SQL schema: CREATE TABLE leases not found in the MIR string constants")
    for k in keys:
        for c in k:
            if c not in ("address", "clientid", "start", "expiry"):
                raise Unsupported(f"SQL schema: unique key over unmodelled column {c}")
    UNIQUE_KEYS = [[PRIMARY_KEY]] + [k for k in keys if k != [PRIMARY_KEY]]
    return ddl, UNIQUE_KEYS


def same_key(a, b, key):
    return z3.And([getattr(a, c) == getattr(b, c) for c in key])


def table_invariant(rows):
    """representation invariant: every UNIQUE key of the schema (at least PRIMARY KEY(address)); integer columns were
    written from u32 values"""
    cs = []
    for i, r in enumerate(rows):
        cs.append(z3.ULE(r.start, z3.BitVecVal(0xFFFFFFFF, 64)))
        cs.append(z3.ULE(r.expiry, z3.BitVecVal(0xFFFFFFFF, 64)))
        for j in range(i):
            for key in UNIQUE_KEYS:
                cs.append(z3.Implies(z3.And(r.present, rows[j].present), z3.Not(same_key(r, rows[j], key))))
            if r.tie is not None and rows[j].tie is not None:
                cs.append(r.tie != rows[j].tie)
    return cs


def to_int(v):
    k, t = v
    if k == "int":
        return t
    if k == "bool":
        return z3.If(t, z3.BitVecVal(1, 64), z3.BitVecVal(0, 64))
    raise Unsupported(f"SQL: {k} used as integer")


def to_bool(v):
    k, t = v
    if k == "bool":
        return t
    if k == "int":
        return t != z3.BitVecVal(0, 64)
    raise Unsupported(f"SQL: {k} used as boolean")


def ip_of_text(text):
    m = re.match(r"^(\d{1,3})\.(\d{1,3})\.(\d{1,3})\.(\d{1,3})$", text)
    if not m:
        return None
    o = [int(x) for x in m.groups()]
    if any(x > 255 for x in o) or any(len(g) > 1 and g[0] == "0" for g in m.groups()):
        return None
    return (o[0] << 24) | (o[1] << 16) | (o[2] << 8) | o[3]


def eval_expr(e, row, params, aliases):
    k = e[0]
    if k == "int":
        return ("int", z3.BitVecVal(e[1], 64))
    if k == "null":
        return ("null", None)
    if k == "param":
        if e[1] - 1 >= len(params):
            raise Unsupported(f"SQL: parameter ?{e[1]} not bound")
        return params[e[1] - 1]
    if k == "col":
        name = e[1]
        if name in aliases:
            return eval_expr(aliases[name], row, params, {})
        cols = row.cols()
        if name not in cols:
            raise Unsupported(f"SQL: column {name}")
        return cols[name]
    if k == "and":
        return ("bool", z3.And(to_bool(eval_expr(e[1], row, params, aliases)), to_bool(eval_expr(e[2], row, params, aliases))))
    if k == "or":
        return ("bool", z3.Or(to_bool(eval_expr(e[1], row, params, aliases)), to_bool(eval_expr(e[2], row, params, aliases))))
    if k == "not":
        return ("bool", z3.Not(to_bool(eval_expr(e[1], row, params, aliases))))
    if k == "case":
        c = to_bool(eval_expr(e[1], row, params, aliases))
        return ("int", z3.If(c, to_int(eval_expr(e[2], row, params, aliases)), to_int(eval_expr(e[3], row, params, aliases))))
    if k == "cmp":
        op = e[1]
        a = eval_expr(e[2], row, params, aliases)
        b = eval_expr(e[3], row, params, aliases)
        if a[0] == "null" or b[0] == "null":
            return ("bool", z3.BoolVal(False))
        if a[0] in ("int", "bool") and b[0] in ("int", "bool"):
            x, y = to_int(a), to_int(b)
            return ("bool", {"=": x == y, "!=": x != y, ">": x > y, ">=": x >= y, "<": x < y, "<=": x <= y}[op])
        if a[0] == b[0] == "blob":
            if op not in ("=", "!="):
                raise Unsupported("SQL: ordering comparison on BLOB")
            return ("bool", a[1] == b[1] if op == "=" else a[1] != b[1])
        if a[0] in ("text", "ctext") and b[0] in ("text", "ctext"):
            if op not in ("=", "!="):
                raise Unsupported("SQL: ordering comparison on TEXT")
            eq = text_eq(a, b)
            return ("bool", eq if op == "=" else z3.Not(eq))
        # SQLite: values of different storage classes are never equal and order as INTEGER < TEXT < BLOB
        rank = {"int": 1, "bool": 1, "text": 2, "ctext": 2, "blob": 3}
        if a[0] in rank and b[0] in rank and rank[a[0]] != rank[b[0]]:
            lt = rank[a[0]] < rank[b[0]]
            return ("bool", z3.BoolVal({"=": False, "!=": True, "<": lt, "<=": lt, ">": not lt, ">=": not lt}[op]))
        raise Unsupported(f"SQL: comparison {a[0]} {op} {b[0]}")
    if k == "agg":
        raise Unsupported("SQL: aggregate in row context")
    raise Unsupported(f"SQL expr {e}")


def text_eq(a, b):
    if a[0] == "text" and b[0] == "text":
        return a[1] == b[1]
    if a[0] == "ctext" and b[0] == "ctext":
        return z3.BoolVal(a[1] == b[1])
    if a[0] == "ctext":
        a, b = b, a
    ip = ip_of_text(b[1])
    return z3.BoolVal(False) if ip is None else a[1] == z3.BitVecVal(ip, 32)


def has_agg(e):
    if not isinstance(e, tuple):
        return False
    if e[0] == "agg":
        return True
    return any(has_agg(x) for x in e[1:] if isinstance(x, tuple))


def select_plan(ast, rows, params):
    """-> list of outcomes (condition, columns or None):  None = no row (QueryReturnedNoRows).
    Each `columns` is a list of (kind, term) for the selected row; kind 'null' for SQL NULL."""
    items = ast["items"]
    aliases = {}
    group = ast["group"]
    if group is not None:
        # only GROUP BY the primary key is supported: every group is exactly one row, so an aggregate over the
        # group is the row's own value (and bare columns are that row's columns)
        gcol = None
        if isinstance(group, int):
            ge = items[group - 1][0]
            gcol = ge[1] if ge[0] == "col" else None
        else:
            gcol = group
        if gcol != PRIMARY_KEY:
            raise Unsupported(f"SQL: GROUP BY {group} (only the primary key is supported)")

        def degroup(e):
            if isinstance(e, tuple) and e[0] == "agg":
                if e[1] not in ("MAX", "MIN", "SUM"):
                    raise Unsupported("SQL: COUNT under GROUP BY")
                return degroup(e[2])
            if isinstance(e, tuple):
                return tuple(degroup(x) if isinstance(x, tuple) else x for x in e)
            return e
        items = [(degroup(e), a) for e, a in items]
    for e, a in items:
        if a:
            aliases[a] = e
    where = ast["where"]
    conds = []
    for r in rows:
        c = r.present
        if where is not None:
            c = z3.And(c, to_bool(eval_expr(where, r, params, {})))
        conds.append(c)
    if group is None and any(has_agg(e) for e, _ in items):
        # aggregate over the whole (filtered) table: exactly one result row
        cols = []
        for e, _ in items:
            default = None
            if e[0] == "coalesce" and e[2][0] == "int":
                default = z3.BitVecVal(e[2][1], 64)
                e = e[1]
            if e[0] != "agg" or e[1] != "SUM":
                raise Unsupported("SQL: only [COALESCE(]SUM(...)[, n)] aggregates without GROUP BY")
            total = z3.BitVecVal(0, 64)
            for r, c in zip(rows, conds):
                total = total + z3.If(c, to_int(eval_expr(e[2], r, params, {})), z3.BitVecVal(0, 64))
            anyrow = z3.Or(conds) if conds else z3.BoolVal(False)
            if default is not None:
                cols.append(("int", z3.If(anyrow, total, default)))
            else:
                cols.append(("sum", total, anyrow))  # NULL when no row contributed
        return [(z3.BoolVal(True), cols)]
    if ast["limit"] not in (None, 1):
        raise Unsupported("SQL: LIMIT other than 1")
    # ordering keys
    keys = []
    for r in rows:
        ks = []
        for e, desc in ast["order"]:
            v = to_int(eval_expr(e, r, params, aliases))
            ks.append((v, desc))
        keys.append(ks)

    def no_worse(i, j):
        """row i sorts before-or-equal row j"""
        res = z3.BoolVal(True)
        for (vi, desc), (vj, _) in reversed(list(zip(keys[i], keys[j]))):
            better = (vi > vj) if desc else (vi < vj)
            res = z3.Or(better, z3.And(vi == vj, res))
        return res
    if ast.get("offset") is not None:
        # LIMIT 1 OFFSET k: the row that exactly k matching rows precede.  Rows with equal sort keys come in SQLite's own order,
        # unspecified but the same for every statement over the same data: the slots' `tie` positions (distinct, arbitrary).
        if any(r.tie is None for r in rows):
            raise Unsupported("SQL: OFFSET over rows without a tie order")
        k = to_int(eval_expr(ast["offset"], rows[0] if rows else None, params, aliases))

        def before(j, i):
            """row j comes strictly before row i"""
            strictly = z3.Not(no_worse(i, j)) if ast["order"] else z3.BoolVal(False)
            equal = z3.And(no_worse(i, j), no_worse(j, i)) if ast["order"] else z3.BoolVal(True)
            return z3.Or(strictly, z3.And(equal, z3.ULT(rows[j].tie, rows[i].tie)))
        one, zero = z3.BitVecVal(1, 64), z3.BitVecVal(0, 64)
        total = zero
        for c in conds:
            total = total + z3.If(c, one, zero)
        outcomes = [(z3.ULE(total, k), None)]
        for i, r in enumerate(rows):
            ahead = zero
            for j in range(len(rows)):
                if j != i:
                    ahead = ahead + z3.If(z3.And(conds[j], before(j, i)), one, zero)
            cols = [eval_expr(e, r, params, aliases) for e, _ in items]
            outcomes.append((z3.And(conds[i], ahead == k), cols))
        return outcomes
    outcomes = [(z3.Not(z3.Or(conds)) if conds else z3.BoolVal(True), None)]
    for i, r in enumerate(rows):
        c = conds[i]
        if ast["order"]:
            c = z3.And(c, *[z3.Implies(conds[j], no_worse(i, j)) for j in range(len(rows)) if j != i])
        cols = [eval_expr(e, r, params, aliases) for e, _ in items]
        outcomes.append((c, cols))
    return outcomes


def apply_insert(ast, rows, params, spare_index):
    """INSERT OR REPLACE / INSERT .. ON CONFLICT(primary key) DO UPDATE: returns the new rows (same slots).
    `spare_index` names a slot that the caller guarantees to be absent in the pre-state (so a fresh address always finds room)."""
    if ast.get("upsert"):
        return apply_upsert(ast, rows, params, spare_index)
    if not ast["replace"]:
        raise Unsupported("SQL: plain INSERT (constraint failure not modelled)")
    vals = {}
    blank = Row(z3.BoolVal(False), z3.BitVecVal(0, 32), z3.BitVecVal(0, 32), z3.BitVecVal(0, 64), z3.BitVecVal(0, 64))
    for c, e in zip(ast["cols"], ast["vals"]):
        if c not in COLUMNS:
            raise Unsupported(f"SQL: unknown column {c}")
        vals[c] = eval_expr(e, blank, params, {})
    if PRIMARY_KEY not in vals or vals[PRIMARY_KEY][0] != "text":
        raise Unsupported("SQL: INSERT without a symbolic-address primary key")
    for need in ("clientid", "start", "expiry"):
        if need not in vals:
            raise Unsupported(f"SQL: INSERT without column {need}")
    addr = vals["address"][1]
    new = Row(z3.BoolVal(True), addr, vals["clientid"][1], to_int(vals["start"]), to_int(vals["expiry"]))
    matched = [z3.And(r.present, r.address == addr) for r in rows]
    anym = z3.Or(matched)
    # REPLACE: every row that conflicts with the new row on ANY unique key is deleted before the insert
    conflict = [z3.And(r.present, z3.Or([same_key(r, new, key) for key in UNIQUE_KEYS])) for r in rows]
    out = []
    for i, r in enumerate(rows):
        m = matched[i]
        if i == spare_index:
            m = z3.Or(m, z3.Not(anym))
        gone = z3.And(conflict[i], z3.Not(m))
        out.append(Row(z3.If(m, new.present, z3.And(r.present, z3.Not(gone))), z3.If(m, new.address, r.address), z3.If(m, new.clientid, r.clientid),
                       z3.If(m, new.start, r.start), z3.If(m, new.expiry, r.expiry), tie=r.tie))
    return out


def apply_upsert(ast, rows, params, spare_index):
    up = ast["upsert"]
    if up["target"] != [PRIMARY_KEY]:
        raise Unsupported(f"SQL: ON CONFLICT target {up['target']}")
    if len(UNIQUE_KEYS) > 1:
        raise Unsupported("SQL: upsert with additional unique keys")
    blank = Row(z3.BoolVal(False), z3.BitVecVal(0, 32), z3.BitVecVal(0, 32), z3.BitVecVal(0, 64), z3.BitVecVal(0, 64))
    vals = {}
    for c, e in zip(ast["cols"], ast["vals"]):
        if c not in COLUMNS:
            raise Unsupported(f"SQL: unknown column {c}")
        vals[c] = eval_expr(e, blank, params, {})
    for need in ("address", "clientid", "start", "expiry"):
        if need not in vals:
            raise Unsupported(f"SQL: INSERT without column {need}")
    addr = vals["address"][1]
    new = Row(z3.BoolVal(True), addr, vals["clientid"][1], to_int(vals["start"]), to_int(vals["expiry"]))
    matched = [z3.And(r.present, r.address == addr) for r in rows]
    anym = z3.Or(matched)
    out = []
    for i, r in enumerate(rows):
        upd = dict(address=r.address, clientid=r.clientid, start=r.start, expiry=r.expiry)
        if up["sets"] is not None:
            for col, e in up["sets"]:
                if col not in COLUMNS:
                    raise Unsupported(f"SQL: SET of unknown column {col}")
                if col not in upd:
                    continue        # unmodelled column (options, chaddr)
                if e[0] == "col" and e[1].startswith("excluded."):
                    v = vals[e[1].split(".", 1)[1]]
                else:
                    v = eval_expr(e, r, params, {})
                upd[col] = v[1] if col in ("address", "clientid") else to_int(v)
        m = matched[i]
        ins = z3.And(z3.BoolVal(i == spare_index), z3.Not(anym))
        out.append(Row(z3.Or(r.present, ins),
                       z3.If(ins, new.address, z3.If(m, upd["address"], r.address)),
                       z3.If(ins, new.clientid, z3.If(m, upd["clientid"], r.clientid)),
                       z3.If(ins, new.start, z3.If(m, upd["start"], r.start)),
                       z3.If(ins, new.expiry, z3.If(m, upd["expiry"], r.expiry)), tie=r.tie))
    return out
