"""DHCP message handling (dhcp/mod.rs handle_pkt -> handle_discover / handle_request -> Pool::allocate_address)
executed from MIR on top of the lease-pool model: C13 (dispatch, server-id, echoed header, lease-store locality),
C10 (option 51 in OFFER and ACK = recorded lease), C01/C09 (yiaddr = the address the pool recorded; the client key
and the requested address handed to the pool are the documented ones)."""
import z3

from . import sqlmodel
from .interp import Exec
from .props_cache import build, field
from .props_pool import invariant, check, rows_equal, in_pool, U32MAX
from .summaries import S, KMap, make_pool_set, duration, some, NONE, deref
from .values import BV, Bool, Adt, Seq, Cell, Ref, Opaque, Str, Tup, Unsupported

DISCOVER, OFFER, REQUEST, ACK = 1, 2, 3, 5


def ip(term):
    return Adt("Ipv4Addr", None, [BV(term)])


def find(prog, name, nargs, hint="dhcp"):
    fs = [f for f in prog.find(name, nargs) if "{closure" not in f.name and "isomer_erbium_verif" not in f.name and (hint in f.name or "::" not in f.name)]
    if len(fs) != 1:
        raise Unsupported(f"{name}/{nargs} not found uniquely in the MIR dump ({[f.name for f in fs]})")
    return fs[0]


def obligation(prog, enums, structs, kind, policy_sets, n_rows=2, only=None):
    """kind: 'discover' | 'request' | 'other' (any other / absent message type); policy_sets: option code a matching policy
    overrides (51, 54) or None"""
    fn = find(prog, "handle_pkt", 4)
    summ = dict(S)

    def get_messagetype(ex, c):
        t = ex.env["msgtype"]
        return NONE() if t is None else some(Adt("MessageType", None, [BV(t)]))

    def get_serverid(ex, c):
        t = ex.env["serverid"]
        return NONE() if t is None else some(ip(t))

    def get_address_request(ex, c):
        t = ex.env["opt50"]
        return NONE() if t is None else some(ip(t))

    def get_client_id(ex, c):
        return Opaque("Blob", id=ex.env["client"])

    def get_clientid_option(ex, c):
        # option 61 itself: present (then it IS the client identifier) or absent (the identifier is the hardware address)
        if "has_opt61" not in ex.env:
            ex.env["has_opt61"] = ex.choose([None, None]) == 0
        return some(Opaque("Blob", id=ex.env["client"])) if ex.env["has_opt61"] else NONE()

    def build_default_config(ex, c):
        return Opaque("Policy")

    def req_serialise(ex, c):
        return Adt("()", None, [])

    def apply_policies(ex, c):
        """arbitrary policy outcome: whether a policy applied, which address set it granted, lease bounds, and (second call)
        one overridden option"""
        n = ex.env["policy_calls"] = ex.env.get("policy_calls", 0) + 1
        resp = c.args[2]
        pols = deref(ex, c.args[1])
        is_base = isinstance(pols, Seq) and len(pols.items) == 1 and isinstance(deref(ex, pols.items[0]), Opaque) and deref(ex, pols.items[0]).kind == "Policy"
        ex.env["policy_order"] = ex.env.get("policy_order", []) + ["base" if is_base else "conf"]
        if ex.choose([None, None]) == 1:
            return Bool(False)
        ex.env["policy_matched"] = True
        rnames = [f for f in structs["Response"] if "address" in f][0]
        if ex.choose([None, None]) == 0:
            ex.store(Ref(resp.cell, resp.path + (rnames.index("address"),)), some(make_pool_set(ex.env["pool"])))
            ex.env["address_set"] = True
        if n == 2:
            ex.store(Ref(resp.cell, resp.path + (rnames.index("minlease"),)), some(duration(ex.env["min"])))
            ex.store(Ref(resp.cell, resp.path + (rnames.index("maxlease"),)), some(duration(ex.env["max"])))
            ex.env["lease_bounds_set"] = True
            if policy_sets is not None:
                k = ex.choose([None, None, None])
                if k > 0:
                    ropts = deref(ex, Ref(resp.cell, resp.path + (rnames.index("options"),)))
                    m = ropts.fields[0]
                    val = some(Seq([BV(z3.BitVec(f"policy_opt{policy_sets}_{i}", 8)) for i in range(4)])) if k == 1 else NONE()
                    m.d[policy_sets] = Cell(val)
                    m.keyobj = getattr(m, "keyobj", {})
                    m.keyobj[policy_sets] = Adt("DhcpOption", None, [BV(z3.BitVecVal(policy_sets, 8))])
                    ex.env["policy_override"] = (policy_sets, k)
        return Bool(True)

    real_alloc = find(prog, "allocate_address", 7, "pool")

    def allocate(ex, c):
        ex.env["alloc_args"] = c.args
        return ex.call_fn(real_alloc, c.args)
    summ.update({"DhcpOptions::get_messagetype": get_messagetype, "DhcpOptions::get_serverid": get_serverid,
                 "DhcpOptions::get_address_request": get_address_request, "Dhcp::get_client_id": get_client_id, "DhcpOptions::get_clientid": get_clientid_option,
                 "build_default_config": build_default_config, "<DhcpOptions as Serialise>::serialise": req_serialise,
                 "apply_policies": apply_policies, "Pool::allocate_address": allocate})
    ex = Exec(prog, summ, enums, max_unroll=8)

    def run(e):
        rows = sqlmodel.fresh_table(n_rows)
        e.env.update(table=rows, pre=rows, spare=n_rows - 1)
        for cst in invariant(rows):
            e.assume(cst)
        e.assume(z3.Not(rows[n_rows - 1].present))
        e.env["clock_max"] = U32MAX - 367 * 86400
        e.env["clock_min"] = 1_000_000_000
        e.env["client"] = z3.BitVec("client", 32)
        e.env["pool"] = [z3.BitVec("pool0", 32)]
        mn, mx = z3.BitVec("min_lease", 64), z3.BitVec("max_lease", 64)
        e.assume(z3.ULE(mn, mx))
        e.assume(z3.ULE(mx, z3.BitVecVal(366 * 86400, 64)))
        e.env["min"], e.env["max"] = mn, mx
        if kind == "discover":
            e.env["msgtype"] = z3.BitVecVal(DISCOVER, 8)
        elif kind == "request":
            e.env["msgtype"] = z3.BitVecVal(REQUEST, 8)
        else:
            if e.choose([None, None]) == 0:
                e.env["msgtype"] = None
            else:
                t = z3.BitVec("msgtype", 8)
                e.assume(z3.And(t != DISCOVER, t != REQUEST))
                e.env["msgtype"] = t
        # the set of addresses this server has identified itself with: empty (before its first reply) or one address
        ids = [] if (kind == "request" and e.choose([None, None]) == 0) else [z3.BitVec("ourid0", 32)]
        e.env["ids"] = ids
        e.env["serverid"] = z3.BitVec("serverid", 32) if e.choose([None, None]) == 0 else None
        e.env["opt50"] = z3.BitVec("opt50", 32) if e.choose([None, None]) == 0 else None
        hdr = dict(xid=z3.BitVec("xid", 32), flags=z3.BitVec("flags", 16), ciaddr=z3.BitVec("ciaddr", 32), giaddr=z3.BitVec("giaddr", 32),
                   chaddr=[z3.BitVec(f"chaddr{i}", 8) for i in range(6)], serverip=z3.BitVec("serverip", 32))
        e.env["hdr"] = hdr
        pkt = build(structs, "Dhcp", op=Adt("DhcpOp", None, [BV(z3.BitVec("op", 8))]), htype=Adt("HwType", None, [BV(z3.BitVec("htype", 8))]),
                    hlen=BV(z3.BitVecVal(6, 8)), hops=BV(z3.BitVec("hops", 8)), xid=BV(hdr["xid"]), secs=BV(z3.BitVec("secs", 16)),
                    flags=BV(hdr["flags"]), ciaddr=ip(hdr["ciaddr"]), yiaddr=ip(z3.BitVec("req_yiaddr", 32)), siaddr=ip(z3.BitVec("req_siaddr", 32)),
                    giaddr=ip(hdr["giaddr"]), chaddr=Seq([BV(b) for b in hdr["chaddr"]]), sname=Seq([]), file=Seq([]),
                    options=Adt("DhcpOptions", None, [Opaque("ReqOptions")], ["other"]))
        req = build(structs, "DHCPRequest", pkt=pkt, serverip=ip(hdr["serverip"]), ifindex=BV(z3.BitVecVal(1, 32)),
                    if_mtu=NONE(), if_router=NONE())
        cnames = [f for f in structs["Config"] if "dhcp" in f][0]
        cvals = {n: Opaque("unused") for n in cnames}
        cvals["dhcp"] = Adt("dhcp::config::Config", None, [Seq([])], ["policies"])
        conf = Adt("Config", None, [cvals[n] for n in cnames], list(cnames))
        pool = Ref(Cell(Adt("Pool", None, [Opaque("Connection")])), mut=True)
        return e.call_fn(fn, [pool, Ref(Cell(req)), make_pool_set(ids), Ref(Cell(conf))])
    paths = ex.explore(run)
    failed, kinds = [], {}
    for outcome, val, pc, env in paths:
        pre, post = env["pre"], env["table"]
        hdr = env["hdr"]
        claims = []
        if outcome == "panic":
            kinds["panic"] = kinds.get("panic", 0) + 1
            claims.append(("message handling never panics: " + str(val), z3.BoolVal(False)))
        elif val.variant == "Err":
            k = "err:" + val.fields[0].variant
            kinds[k] = kinds.get(k, 0) + 1
            claims.append(("a message that is not answered leaves every stored lease exactly as it was",
                           z3.And([rows_equal(a, b) for a, b in zip(pre, post)] + [z3.BoolVal(env.get("writes", 0) == 0)])))
        else:
            reply = val.fields[0]
            kinds["reply"] = kinds.get("reply", 0) + 1
            mt = env["msgtype"]
            sid = env["serverid"]
            claims.append(("only DISCOVER and REQUEST are answered", z3.BoolVal(kind in ("discover", "request"))))
            if kind == "request" and sid is not None:
                claims.append(("a REQUEST naming a server is answered only if it names an address this server identified itself with",
                               z3.Or([sid == i for i in env["ids"]]) if env["ids"] else z3.BoolVal(False)))
            y = field(structs, reply, "yiaddr").fields[0].t
            claims.append(("reply echoes transaction id, flags, relay address and hardware address; op = BOOTREPLY",
                           z3.And([field(structs, reply, "xid").t == hdr["xid"], field(structs, reply, "flags").t == hdr["flags"],
                                   field(structs, reply, "giaddr").fields[0].t == hdr["giaddr"],
                                   field(structs, reply, "op").fields[0].t == 2] +
                                  [a.t == b for a, b in zip(field(structs, reply, "chaddr").items, hdr["chaddr"])] +
                                  [z3.BoolVal(len(field(structs, reply, "chaddr").items) == 6)])))
            claims.append(("the lease store changes only at the row of yiaddr, and that row is the asking client's",
                           z3.And([z3.Or(rows_equal(a, b), z3.And(b.present, b.address == y)) for a, b in zip(pre, post)] +
                                  [z3.Or([z3.And(b.present, b.address == y, b.clientid == env["client"]) for b in post])])))
            opts = field(structs, reply, "options").fields[0]
            if not isinstance(opts, KMap):
                raise Unsupported("reply options are not a concrete-key map")

            def opt_bytes(code):
                cell = opts.d.get(code)
                return None if cell is None else deref(ex, cell.v)

            def be(seq):
                t = seq.items[0].t
                for b in seq.items[1:]:
                    t = z3.Concat(t, b.t)
                return t
            o53, o54, o51 = opt_bytes(53), opt_bytes(54), opt_bytes(51)
            want53 = OFFER if kind == "discover" else ACK
            claims.append(("reply message type is OFFER for DISCOVER / ACK for REQUEST",
                           z3.BoolVal(o53 is not None and len(o53.items) == 1) if o53 is None or len(o53.items) != 1 else o53.items[0].t == want53))
            if o54 is None or len(o54.items) != 4:
                claims.append(("reply carries a server identifier", z3.BoolVal(False)))
            else:
                wantid = hdr["serverip"] if (kind == "discover" or sid is None) else sid
                claims.append(("server identifier names this server (the receiving address, or the id the client accepted)", be(o54) == wantid))
            mine = [z3.And(b.present, b.address == y) for b in post]
            if o51 is None or len(o51.items) != 4:
                claims.append(("every OFFER and ACK carries an IP-address-lease-time", z3.BoolVal(False)))
            else:
                claims.append(("advertised lease time (option 51) = recorded expiry - recorded start, within [min, max]",
                               z3.And([z3.Implies(m, z3.And(z3.ZeroExt(32, be(o51)) == b.expiry - b.start)) for m, b in zip(mine, post)] +
                                      ([z3.UGE(z3.ZeroExt(32, be(o51)), env["min"]), z3.ULE(z3.ZeroExt(32, be(o51)), env["max"])] if env.get("lease_bounds_set") else
                                       [z3.UGE(z3.ZeroExt(32, be(o51)), 300), z3.ULE(z3.ZeroExt(32, be(o51)), 86400)]))))
            a = env.get("alloc_args")
            if a is not None:
                reqarg = a[2]
                if kind == "request":
                    want = z3.If(hdr["ciaddr"] != 0, hdr["ciaddr"], env["opt50"]) if env["opt50"] is not None else hdr["ciaddr"]
                    has = z3.Or(hdr["ciaddr"] != 0, z3.BoolVal(env["opt50"] is not None))
                else:
                    want = env["opt50"]
                    has = z3.BoolVal(env["opt50"] is not None)
                if reqarg.variant == "Some":
                    claims.append(("address named to the pool = ciaddr if set, else the requested-address option (REQUEST) / the requested-address option (DISCOVER)",
                                   z3.And(has, reqarg.fields[0].fields[0].t == want) if want is not None else z3.BoolVal(False)))
                else:
                    claims.append(("a named address is handed to the pool", z3.Not(has)))
                cid = deref(ex, a[1])
                claims.append(("pool is asked on behalf of the client identifier (option 61, else hardware address)",
                               (cid.id == env["client"]) if (isinstance(cid, Opaque) and cid.kind == "Blob" and not getattr(cid, "empty", False)) else z3.BoolVal(False)))
        if env.get("policy_order"):
            claims.append(("top-level defaults (the generated base policy) are applied first and dhcp-policies after them, so that policies override the defaults",
                           z3.BoolVal(env["policy_order"] == ["base", "conf"])))
        for name, f in claims:
            if only is not None and not name.startswith(only):
                continue
            m = check(ex, pc, f, name)
            if m is not None:
                ev = lambda t: m.eval(t, model_completion=True).as_long()  # noqa
                cex = dict(kind=kind, msgtype=(None if env["msgtype"] is None else ev(env["msgtype"])),
                           serverid=(None if env["serverid"] is None else ev(env["serverid"])), our_ids=[ev(i) for i in env["ids"]],
                           ciaddr=ev(hdr["ciaddr"]), opt50=(None if env["opt50"] is None else ev(env["opt50"])), serverip=ev(hdr["serverip"]),
                           policy_override=env.get("policy_override"), outcome=(outcome if outcome == "panic" else val.variant))
                failed.append(dict(check="", description=name, location="dhcp/mod.rs handle_pkt", kind="violation", counterexample=cex))
    return failed, ex, len(paths), kinds
