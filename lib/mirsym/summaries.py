"""Summaries of callees outside the crate (and of crate fns that are deliberately abstracted).  Each summary is part
of the claim; the names actually used on a run are listed in the evidence."""
import itertools
import re

import z3

from . import sqlmodel
from .values import (BV, Bool, UNIT, Tup, Adt, Seq, Str, Cell, Ref, Opaque, Closure, FnItem, INT_TYPES, Panic,
                     Unsupported, bv_const)
from .interp import base_type_name

S = {}


def summary(*names):
    def deco(f):
        for n in names:
            S[n] = f
        return f
    return deco


def deref(ex, v):
    while isinstance(v, Ref):
        v = ex.load(v)
    return v


def some(v):
    return Adt("Option", "Some", [v])


NONE = lambda: Adt("Option", "None", [])  # noqa


def ok(v):
    return Adt("Result", "Ok", [v])


def err(v):
    return Adt("Result", "Err", [v])


def duration(secs, nanos=None):
    return Adt("Duration", None, [BV(secs, False), BV(nanos if nanos is not None else z3.BitVecVal(0, 32), False)])


# ------------------------------------------------------------------ clock
@summary("SystemTime::now", "std::time::SystemTime::now")
def _now(ex, c):
    k = ex.env.setdefault("clock_reads", [])
    t = z3.BitVec(f"now{len(k)}", 64)
    if k:
        ex.assume(z3.UGE(t, k[-1]))          # wall clock does not go backwards between reads (stated assumption)
    ex.assume(z3.ULE(t, z3.BitVecVal(ex.env.get("clock_max", 0xFFFFFFFF - 3 * 86400 * 366), 64)))
    ex.assume(z3.UGE(t, z3.BitVecVal(ex.env.get("clock_min", 0), 64)))
    k.append(t)
    return Opaque("SystemTime", secs=t)


@summary("std::time::SystemTime::UNIX_EPOCH", "SystemTime::UNIX_EPOCH")
def _epoch(ex, c):
    return Opaque("SystemTime", secs=z3.BitVecVal(0, 64))


@summary("SystemTime::duration_since", "std::time::SystemTime::duration_since")
def _dur_since(ex, c):
    a, b = deref(ex, c.args[0]), deref(ex, c.args[1])
    if ex.branch(z3.UGE(a.secs, b.secs)):
        return ok(duration(a.secs - b.secs, z3.BitVec(f"nanos{len(ex.env.get('clock_reads', []))}", 32)))
    return err(Opaque("SystemTimeError"))


@summary("Duration::from_secs", "std::time::Duration::from_secs", "core::time::Duration::from_secs")
def _from_secs(ex, c):
    return duration(c.args[0].t)


@summary("Duration::as_secs", "std::time::Duration::as_secs", "core::time::Duration::as_secs")
def _as_secs(ex, c):
    return deref(ex, c.args[0]).fields[0]


def dur_le(a, b):
    return z3.Or(z3.ULT(a.fields[0].t, b.fields[0].t), z3.And(a.fields[0].t == b.fields[0].t, z3.ULE(a.fields[1].t, b.fields[1].t)))


def pick(ex, cond, a, b):
    """value-level if-then-else for BV / Duration; forks otherwise"""
    if isinstance(a, BV) and isinstance(b, BV):
        return BV(z3.If(cond, a.t, b.t), a.signed)
    if isinstance(a, Adt) and a.ty == "Duration":
        return Adt("Duration", None, [BV(z3.If(cond, a.fields[0].t, b.fields[0].t)), BV(z3.If(cond, a.fields[1].t, b.fields[1].t))])
    return a if ex.branch(cond) else b


def le(ex, a, b):
    if isinstance(a, BV):
        return (a.t <= b.t) if a.signed else z3.ULE(a.t, b.t)
    if isinstance(a, Adt) and a.ty == "Duration":
        return dur_le(a, b)
    raise Unsupported(f"ordering on {a!r}")


@summary("std::cmp::max", "core::cmp::max", "std::cmp::Ord::max", "<Duration as Ord>::max")
def _max(ex, c):
    a, b = c.args
    return pick(ex, le(ex, a, b), b, a)      # max(a,b) = b if a <= b else a


@summary("std::cmp::min", "core::cmp::min", "std::cmp::Ord::min", "<Duration as Ord>::min")
def _min(ex, c):
    a, b = c.args
    return pick(ex, le(ex, a, b), a, b)


@summary("core::num::saturating_sub")
def _sat_sub(ex, c):
    a, b = c.args
    return BV(z3.If(z3.ULT(a.t, b.t), z3.BitVecVal(0, a.width), a.t - b.t), a.signed)


@summary("core::num::saturating_mul")
def _sat_mul(ex, c):
    a, b = c.args
    w = a.width
    wide = z3.ZeroExt(w, a.t) * z3.ZeroExt(w, b.t)
    mx = z3.BitVecVal((1 << w) - 1, 2 * w)
    return BV(z3.If(z3.UGT(wide, mx), z3.BitVecVal((1 << w) - 1, w), z3.Extract(w - 1, 0, wide)), a.signed)


@summary("core::num::saturating_add")
def _sat_add(ex, c):
    a, b = c.args
    w = a.width
    wide = z3.ZeroExt(1, a.t) + z3.ZeroExt(1, b.t)
    return BV(z3.If(z3.Extract(w, w, wide) == 1, z3.BitVecVal((1 << w) - 1, w), a.t + b.t), a.signed)


@summary("core::num::wrapping_sub")
def _wsub(ex, c):
    return BV(c.args[0].t - c.args[1].t, c.args[0].signed)


@summary("core::num::wrapping_add")
def _wadd(ex, c):
    return BV(c.args[0].t + c.args[1].t, c.args[0].signed)


@summary("core::num::checked_sub")
def _csub(ex, c):
    a, b = c.args
    if ex.branch(z3.ULT(a.t, b.t) if not a.signed else z3.Not(z3.BVSubNoOverflow(a.t, b.t))):
        return NONE()
    return some(BV(a.t - b.t, a.signed))


@summary("core::num::checked_shr", "core::num::checked_shl")
def _cshift(ex, c):
    a, n = c.args
    w = a.width
    if ex.branch(z3.UGE(n.t, w)):
        return NONE()
    amt = z3.ZeroExt(w - n.width, n.t) if w > n.width else z3.Extract(w - 1, 0, n.t)
    if c.name.endswith("shl"):
        return some(BV(a.t << amt, a.signed))
    return some(BV(a.t >> amt if a.signed else z3.LShR(a.t, amt), a.signed))


@summary("core::num::checked_add")
def _cadd(ex, c):
    a, b = c.args
    if a.signed:
        raise Unsupported("signed checked_add")
    if ex.branch(z3.Not(z3.BVAddNoOverflow(a.t, b.t, False))):
        return NONE()
    return some(BV(a.t + b.t, False))


@summary("core::num::checked_mul")
def _cmul(ex, c):
    a, b = c.args
    if a.signed:
        raise Unsupported("signed checked_mul")
    if ex.branch(z3.Not(z3.BVMulNoOverflow(a.t, b.t, False))):
        return NONE()
    return some(BV(a.t * b.t, False))


def int_conv(ex, c):
    v = c.args[0]
    mi = re.search(r"as (?:\w+::)*Into<([\w:]+)>", c.path)
    mf = re.match(r"^<([\w:]+) as (?:\w+::)*From<", c.path)
    if mi:
        ty = mi.group(1).split("::")[-1]
    elif mf:
        ty = mf.group(1).split("::")[-1]
    else:
        ty = (c.dest_ty or "").strip().split("::")[-1]
    if ty in INT_TYPES and isinstance(v, BV):
        return ex.cast(v, ty, "IntToInt")
    if ty in INT_TYPES and isinstance(v, Bool):
        return ex.cast(v, ty, "IntToInt")
    if isinstance(v, Adt) and v.ty == "Ipv4Addr" and ty == "u32":
        return v.fields[0]
    if isinstance(v, BV) and ty in ("Ipv4Addr", "std::net::Ipv4Addr"):
        return Adt("Ipv4Addr", None, [v])
    raise Unsupported(f"conversion {c.path} of {v!r} to {ty}")


for _t in INT_TYPES:
    S[f"<{_t} as Into>::into"] = int_conv
    S[f"<{_t} as From>::from"] = int_conv
S["<u32 as Into>::into"] = int_conv
S["<Ipv4Addr as From>::from"] = int_conv
S["<Ipv4Addr as Into>::into"] = int_conv


# ------------------------------------------------------------------ Option / Result
@summary("Option::map")
def _opt_map(ex, c):
    o, f = c.args
    if o.variant == "None":
        return NONE()
    return some(ex.call_callable(f, [o.fields[0]]))


@summary("Option::unwrap_or_else")
def _opt_uoe(ex, c):
    o, f = c.args
    return o.fields[0] if o.variant == "Some" else ex.call_callable(f, [])


@summary("Option::unwrap_or")
def _opt_uo(ex, c):
    o, d = c.args
    return o.fields[0] if o.variant == "Some" else d


@summary("Option::unwrap_or_default")
def _opt_uod(ex, c):
    o = c.args[0]
    if o.variant == "Some":
        return o.fields[0]
    raise Unsupported("unwrap_or_default on None")


@summary("Option::is_none")
def _is_none(ex, c):
    return Bool(deref(ex, c.args[0]).variant == "None")


@summary("Option::is_some")
def _is_some(ex, c):
    return Bool(deref(ex, c.args[0]).variant == "Some")


@summary("Option::unwrap", "Option::expect")
def _opt_unwrap(ex, c):
    o = c.args[0]
    if o.variant == "None":
        raise Panic("unwrap on None")
    return o.fields[0]


@summary("Option::ok_or")
def _ok_or(ex, c):
    o, e = c.args
    return ok(o.fields[0]) if o.variant == "Some" else err(e)


@summary("Option::as_ref", "Option::as_mut")
def _as_ref(ex, c):
    r = c.args[0]
    o = deref(ex, r)
    if o.variant == "None":
        return NONE()
    return some(Ref(r.cell, r.path + (0,)))


@summary("Option::copied", "Option::cloned")
def _opt_copied(ex, c):
    o = c.args[0]
    return NONE() if o.variant == "None" else some(deref(ex, o.fields[0]))


@summary("Result::expect", "Result::unwrap")
def _res_unwrap(ex, c):
    r = c.args[0]
    if r.variant == "Err":
        raise Panic("unwrap/expect on Err")
    return r.fields[0]


@summary("Result::or_else")
def _or_else(ex, c):
    r, f = c.args
    return r if r.variant == "Ok" else ex.call_callable(f, [r.fields[0]])


@summary("Result::map_err")
def _map_err(ex, c):
    r, f = c.args
    return r if r.variant == "Ok" else err(ex.call_callable(f, [r.fields[0]]))


@summary("Result::map")
def _res_map(ex, c):
    r, f = c.args
    return ok(ex.call_callable(f, [r.fields[0]])) if r.variant == "Ok" else r


@summary("Result::ok")
def _res_ok(ex, c):
    r = c.args[0]
    return some(r.fields[0]) if r.variant == "Ok" else NONE()


@summary("Result::is_ok")
def _res_is_ok(ex, c):
    return Bool(deref(ex, c.args[0]).variant == "Ok")


@summary("Result::is_err")
def _res_is_err(ex, c):
    return Bool(deref(ex, c.args[0]).variant == "Err")


@summary("<Result as Try>::branch")
def _res_branch(ex, c):
    r = c.args[0]
    if r.variant == "Ok":
        return Adt("ControlFlow", "Continue", [r.fields[0]])
    return Adt("ControlFlow", "Break", [err(r.fields[0])])


@summary("<Option as Try>::branch")
def _opt_branch(ex, c):
    o = c.args[0]
    if o.variant == "Some":
        return Adt("ControlFlow", "Continue", [o.fields[0]])
    return Adt("ControlFlow", "Break", [NONE()])


@summary("<Result as FromResidual>::from_residual")
def _res_from_res(ex, c):
    r = c.args[0]
    e = r.fields[0]
    m = re.search(r"^<Result<.*,\s*(.*)> as FromResidual<Result<Infallible,\s*(.*)>>>", c.path.replace("std::convert::", ""))
    if m and m.group(1).strip() != m.group(2).strip():
        # error conversion through From: only identity-like conversions are summarised
        raise Unsupported(f"error conversion {m.group(2)} -> {m.group(1)}")
    return err(e)


@summary("<Option as FromResidual>::from_residual")
def _opt_from_res(ex, c):
    return NONE()


# ------------------------------------------------------------------ strings / addresses
@summary("<Ipv4Addr as ToString>::to_string")
def _ip_to_string(ex, c):
    ip = deref(ex, c.args[0])
    return Str(ip=ip.fields[0].t)


@summary("<String as Deref>::deref", "String::as_str", "<String as AsRef>::as_ref", "<String as Borrow>::borrow")
def _str_deref(ex, c):
    return deref(ex, c.args[0])


@summary("core::str::parse")
def _str_parse(ex, c):
    s = deref(ex, c.args[0])
    ty = c.generics[0] if c.generics else ""
    if not ty and c.dest_ty:
        m = re.match(r"^(?:\w+::)*Result<\s*([^,]+),", c.dest_ty)
        ty = m.group(1) if m else ""
    if base_type_name(ty) == "IpAddr":
        if s.ip is not None:
            return ok(Adt("IpAddr", "V4", [Adt("Ipv4Addr", None, [BV(s.ip)])]))
        ip = sqlmodel.ip_of_text(s.text)
        if ip is not None:
            return ok(Adt("IpAddr", "V4", [Adt("Ipv4Addr", None, [BV(z3.BitVecVal(ip, 32))])]))
        if ":" in s.text:
            import ipaddress
            try:
                v6 = int(ipaddress.IPv6Address(s.text))
            except ValueError:
                return err(Opaque("AddrParseError"))
            return ok(Adt("IpAddr", "V6", [Adt("Ipv6Addr", None, [BV(z3.BitVecVal(v6, 128))])]))
        return err(Opaque("AddrParseError"))
    if base_type_name(ty) in INT_TYPES:
        if s.text is None:
            raise Unsupported("integer parse of symbolic text")
        w, sg = INT_TYPES[base_type_name(ty)]
        if not re.match(r"^[+-]?[0-9]+$", s.text) or (s.text.startswith("-") and not sg):
            return err(Opaque("ParseIntError"))
        v = int(s.text)
        lo, hi = (-(1 << (w - 1)), (1 << (w - 1)) - 1) if sg else (0, (1 << w) - 1)
        if not lo <= v <= hi:
            return err(Opaque("ParseIntError"))
        return ok(bv_const(v, base_type_name(ty)))
    if base_type_name(ty) != "Ipv4Addr":
        # a type of the crate: its own FromStr impl, executed from MIR
        return ex.do_call(f"<{ty} as std::str::FromStr>::from_str", [c.args[0]], c.dest_ty, 0)
    if s.ip is not None and s.plen is None:
        return ok(Adt("Ipv4Addr", None, [BV(s.ip)]))
    if s.ip is not None:
        return err(Opaque("AddrParseError"))
    ip = sqlmodel.ip_of_text(s.text)
    if ip is None:
        return err(Opaque("AddrParseError"))
    return ok(Adt("Ipv4Addr", None, [BV(z3.BitVecVal(ip, 32))]))


@summary("<&str as Into>::into", "<String as Into>::into", "<str as Into>::into", "<str as ToString>::to_string", "<str as ToOwned>::to_owned", "<String as From>::from",
         "<String as Clone>::clone", "must_use")
def _str_id(ex, c):
    return deref(ex, c.args[0])


@summary("core::fmt::rt::Argument::new_display", "core::fmt::rt::Argument::new_debug")
def _fmt_arg(ex, c):
    return Opaque("fmt::Argument")


@summary("Arguments::new", "core::fmt::Arguments::new", "Arguments::new_const", "Arguments::new_v1", "Arguments::from_str")
def _fmt_args(ex, c):
    return Opaque("fmt::Arguments")


@summary("format", "alloc::fmt::format", "std::fmt::format")
def _format(ex, c):
    return Str(text="<formatted>")


@summary("<Error as ToString>::to_string")
def _err_to_string(ex, c):
    return Str(text="<error>")


@summary("<Ipv4Addr as PartialEq>::eq")
def _ip_eq(ex, c):
    a, b = deref(ex, c.args[0]), deref(ex, c.args[1])
    return Bool(a.fields[0].t == b.fields[0].t)


@summary("<Ipv4Addr as PartialEq>::ne")
def _ip_ne(ex, c):
    a, b = deref(ex, c.args[0]), deref(ex, c.args[1])
    return Bool(a.fields[0].t != b.fields[0].t)


@summary("<Error as PartialEq>::eq")
def _err_eq(ex, c):
    a, b = deref(ex, c.args[0]), deref(ex, c.args[1])
    if isinstance(a, Adt) and isinstance(b, Adt) and a.variant and b.variant:
        if a.variant != b.variant:
            return Bool(False)
        if not a.fields and not b.fields:
            return Bool(True)
    raise Unsupported(f"Error eq on {a!r} {b!r}")


# ------------------------------------------------------------------ pool address set (HashSet<Ipv4Addr>)
def make_pool_set(terms):
    """HashSet<Ipv4Addr> of concrete cardinality with symbolic, pairwise distinct members"""
    return Opaque("HashSet", items=[Cell(Adt("Ipv4Addr", None, [BV(t)])) for t in terms])


@summary("HashSet::contains")
def _hs_contains(ex, c):
    hs = deref(ex, c.args[0])
    if isinstance(hs, KSet):
        return Bool(key_of(ex, c.args[1]) in hs.keys)
    x = deref(ex, c.args[1])
    return Bool(z3.Or([cell.v.fields[0].t == x.fields[0].t for cell in hs.items]) if hs.items else z3.BoolVal(False))


@summary("HashSet::iter")
def _hs_iter(ex, c):
    hs = deref(ex, c.args[0])
    return Opaque("Iter", items=[Ref(cell) for cell in hs.items])


@summary("HashSet::len")
def _hs_len(ex, c):
    return bv_const(len(deref(ex, c.args[0]).items), "usize")


@summary("calculate_hash")
def _calc_hash(ex, c):
    # consistent hash of (client, address): only its ORDER matters to the caller, which sort_unstable abstracts
    return ex.fresh_bv("hash", 64)


# ------------------------------------------------------------------ iterators (eager lists)
def _lazy_range(it):
    """a Range whose bounds are symbolic is kept as a lazy pipeline: (lo, hi, stages); its elements are never enumerated -
    a property decides membership through the generator (props_addrset)"""
    if isinstance(it, Adt) and base_type_name(it.ty or "").startswith("Range") and len(it.fields) == 2:
        lo, hi = it.fields
        if not (z3.is_bv_value(z3.simplify(lo.t)) and z3.is_bv_value(z3.simplify(hi.t))):
            return Opaque("LazyIter", lo=lo, hi=hi, stages=[])
    return None


@summary("<* as Iterator>::map")
def _it_map(ex, c):
    it, f = c.args
    lz = _lazy_range(it)
    if lz is not None:
        it = lz
    if isinstance(it, Opaque) and it.kind == "LazyIter":
        return Opaque("LazyIter", lo=it.lo, hi=it.hi, stages=it.stages + [("map", f)])
    if isinstance(it, Adt):
        it = _range_items(ex, it)
    return Opaque("Iter", items=[ex.call_callable(f, [x]) for x in it.items])


def _range_items(ex, rng):
    lo, hi = (z3.simplify(x.t) for x in rng.fields[:2])
    if not (z3.is_bv_value(lo) and z3.is_bv_value(hi)) or hi.as_long() - lo.as_long() > 64:
        raise Unsupported("eager iteration over a long or symbolic range")
    return Opaque("Iter", items=[BV(z3.BitVecVal(i, lo.size()), rng.fields[0].signed) for i in range(lo.as_long(), hi.as_long())])


@summary("<* as Iterator>::filter")
def _it_filter(ex, c):
    it, f = c.args
    if isinstance(it, Opaque) and it.kind == "LazyIter":
        return Opaque("LazyIter", lo=it.lo, hi=it.hi, stages=it.stages + [("filter", f)])
    out = []
    for x in it.items:
        r = ex.call_callable(f, [Ref(Cell(x))])
        if ex.branch(r.t):
            out.append(x)
    return Opaque("Iter", items=out)


@summary("<* as Iterator>::copied", "<* as Iterator>::cloned")
def _it_copied(ex, c):
    return Opaque("Iter", items=[deref1(ex, x) for x in c.args[0].items])


def deref1(ex, v):
    return ex.load(v) if isinstance(v, Ref) else v


@summary("<* as Iterator>::collect")
def _it_collect(ex, c):
    ty = c.generics[0] if c.generics else ""
    if isinstance(c.args[0], Opaque) and c.args[0].kind == "LazyIter":
        if not base_type_name(ty).startswith("HashSet"):
            raise Unsupported(f"collect::<{ty}> of a lazy range pipeline")
        return Opaque("HashSet", items=[], lazy=c.args[0])
    if base_type_name(ty).startswith("HashSet") and "Ipv4Addr" in ty:
        return Opaque("HashSet", items=[Cell(x) for x in c.args[0].items])
    if base_type_name(ty).startswith("HashSet"):
        return KSet(key_of(ex, x) for x in c.args[0].items)
    if base_type_name(ty) == "Result" and re.match(r"^(?:\w+::)*Result<\s*(?:\w+::)*Vec<", ty):
        out = []
        for x in c.args[0].items:
            if x.variant == "Err":
                return x
            out.append(x.fields[0])
        return ok(Seq(out))
    if not base_type_name(ty).startswith("Vec"):
        raise Unsupported(f"collect::<{ty}>")
    return Seq(list(c.args[0].items))


@summary("<* as Iterator>::next")
def _it_next(ex, c):
    it = deref(ex, c.args[0])
    if not it.items:
        return NONE()
    return some(it.items.pop(0))


@summary("<Vec as IntoIterator>::into_iter", "<* as IntoIterator>::into_iter")
def _into_iter(ex, c):
    if c.path.startswith("<&") and isinstance(c.args[0], Ref):
        # (&Vec<T>).into_iter() yields references to the elements
        base = c.args[0]
        while isinstance(ex.load(base), Ref):
            base = ex.load(base)
        seq = ex.load(base)
        if isinstance(seq, Seq):
            return Opaque("Iter", items=[Ref(base.cell, base.path + (("i", i),)) for i in range(len(seq.items))])
    v = deref(ex, c.args[0])
    if isinstance(v, Adt) and base_type_name(v.ty) in ("Range", "RangeInclusive"):
        return v
    if isinstance(v, Seq):
        return Opaque("Iter", items=list(v.items))
    if isinstance(v, Opaque) and v.kind == "Iter":
        return v
    raise Unsupported(f"into_iter on {v!r}")


@summary("core::slice::iter")
def _slice_iter(ex, c):
    r = c.args[0]
    seq = deref(ex, r)
    base = r
    while isinstance(base, Ref) and isinstance(ex.load(base), Ref):
        base = ex.load(base)
    return Opaque("Iter", items=[Ref(base.cell, base.path + (("i", i),)) for i in range(len(seq.items))])


@summary("<Vec as Deref>::deref", "<Vec as DerefMut>::deref_mut", "Vec::as_slice", "Vec::as_mut_slice")
def _vec_deref(ex, c):
    return c.args[0]


@summary("Vec::new")
def _vec_new(ex, c):
    return Seq([])


@summary("Vec::len", "core::slice::len")
def _vec_len(ex, c):
    return bv_const(len(deref(ex, c.args[0]).items), "usize")


@summary("core::slice::sort_unstable", "core::slice::sort")
def _sort(ex, c):
    """the sort key is an abstracted hash: every permutation of the elements is a possible outcome"""
    r = c.args[0]
    seq = deref(ex, r)
    n = len(seq.items)
    if n > 4:
        raise Unsupported("sort of more than 4 elements")
    perms = list(itertools.permutations(range(n)))
    k = ex.choose([None] * len(perms)) if len(perms) > 1 else 0
    seq.items[:] = [seq.items[i] for i in perms[k]]
    return UNIT


# ------------------------------------------------------------------ rusqlite boundary
def sql_param(ex, v):
    v = deref(ex, v)
    if isinstance(v, BV):
        t = v.t
        if v.width < 64:
            t = z3.SignExt(64 - v.width, t) if v.signed else z3.ZeroExt(64 - v.width, t)
        return ("int", t)
    if isinstance(v, Str):
        return ("text", v.ip) if v.ip is not None else ("ctext", v.text)
    if isinstance(v, Opaque) and v.kind == "Blob":
        return ("blob", v.id)
    if isinstance(v, Bool):
        return ("bool", v.t)
    if isinstance(v, Seq):
        return ("blob", z3.BitVecVal(0, 32))     # byte vector bound to an unmodelled BLOB column (options)
    raise Unsupported(f"SQL parameter {v!r}")


def sql_params(ex, p):
    seq = deref(ex, p)
    if not isinstance(seq, Seq):
        raise Unsupported(f"SQL params {seq!r}")
    return [sql_param(ex, x) for x in seq.items]


def rusqlite_err(variant):
    return Adt("rusqlite::Error", variant, [])


@summary("rusqlite::Connection::query_row")
def _query_row(ex, c):
    conn, sql, params, f = c.args
    sql = deref(ex, sql)
    ast = sqlmodel.parse_sql(sql.text)
    if ast["kind"] != "select":
        raise Unsupported("query_row on a non-SELECT")
    ex.env.setdefault("sql", []).append(sql.text)
    rows = ex.env["table"]
    outcomes = sqlmodel.select_plan(ast, rows, sql_params(ex, params))
    k = ex.choose([cnd for cnd, _ in outcomes])
    cols = outcomes[k][1]
    if cols is None:
        return err(rusqlite_err("QueryReturnedNoRows"))
    ex.env.setdefault("chosen_rows", []).append(k - 1)
    row = Opaque("Row", cols=cols)
    return ex.call_callable(f, [Ref(Cell(row))])


@summary("rusqlite::Row::get", "Row::get")
def _row_get(ex, c):
    row = deref(ex, c.args[0])
    idx = z3.simplify(c.args[1].t).as_long()
    ty = c.generics[1].strip() if len(c.generics) > 1 else (c.dest_ty or "")
    if idx >= len(row.cols):
        return err(rusqlite_err("InvalidColumnIndex"))
    col = row.cols[idx]
    kind = col[0]
    if kind == "sum":
        # SUM over no rows is NULL
        if not ex.branch(col[2]):
            return err(rusqlite_err("InvalidColumnType"))
        kind, term = "int", col[1]
    else:
        term = col[1]
    bt = base_type_name(ty)
    if bt == "String":
        if kind == "text":
            return ok(Str(ip=term))
        if kind == "ctext":
            return ok(Str(text=term))
        return err(rusqlite_err("InvalidColumnType"))
    if bt in INT_TYPES:
        if kind == "bool":
            term = z3.If(term, z3.BitVecVal(1, 64), z3.BitVecVal(0, 64))
            kind = "int"
        if kind != "int":
            return err(rusqlite_err("InvalidColumnType"))
        w, s = INT_TYPES[bt]
        if w < 64:
            lo, hi = (-(1 << (w - 1)), (1 << (w - 1)) - 1) if s else (0, (1 << w) - 1)
            inr = z3.And(term >= z3.BitVecVal(lo, 64), term <= z3.BitVecVal(hi, 64))
            if not ex.branch(inr):
                return err(rusqlite_err("IntegralValueOutOfRange"))
            return ok(BV(z3.Extract(w - 1, 0, term), s))
        return ok(BV(term, s))
    raise Unsupported(f"Row::get::<{ty}>")


@summary("rusqlite::Connection::execute")
def _execute(ex, c):
    conn, sql, params = c.args
    sql = deref(ex, sql)
    ast = sqlmodel.parse_sql(sql.text)
    if ast["kind"] != "insert":
        raise Unsupported("execute of a non-INSERT")
    ex.env.setdefault("sql", []).append(sql.text)
    ex.env["table"] = sqlmodel.apply_insert(ast, ex.env["table"], sql_params(ex, params), ex.env["spare"])
    ex.env["writes"] = ex.env.get("writes", 0) + 1
    return ok(bv_const(1, "usize"))


# ------------------------------------------------------------------ logging / metrics: no-ops
@summary("log::max_level", "log::__private_api::enabled")
def _log_level(ex, c):
    return bv_const(0, "usize")


# ------------------------------------------------------------------ tokio::time::Instant (secs, nanos) / Duration arithmetic
NANOS = 1_000_000_000


def instant(secs, nanos):
    return Adt("Instant", None, [BV(secs), BV(nanos)])


def tlex_le(a, b):
    return z3.Or(z3.ULT(a.fields[0].t, b.fields[0].t), z3.And(a.fields[0].t == b.fields[0].t, z3.ULE(a.fields[1].t, b.fields[1].t)))


@summary("<Instant as PartialOrd>::ge")
def _inst_ge(ex, c):
    a, b = deref(ex, c.args[0]), deref(ex, c.args[1])
    return Bool(tlex_le(b, a))


@summary("<Instant as PartialOrd>::le")
def _inst_le(ex, c):
    a, b = deref(ex, c.args[0]), deref(ex, c.args[1])
    return Bool(tlex_le(a, b))


@summary("<Instant as PartialOrd>::gt")
def _inst_gt(ex, c):
    a, b = deref(ex, c.args[0]), deref(ex, c.args[1])
    return Bool(z3.Not(tlex_le(a, b)))


@summary("<Instant as PartialOrd>::lt")
def _inst_lt(ex, c):
    a, b = deref(ex, c.args[0]), deref(ex, c.args[1])
    return Bool(z3.Not(tlex_le(b, a)))


def time_add(a, d):
    n = z3.ZeroExt(1, a.fields[1].t) + z3.ZeroExt(1, d.fields[1].t)
    carry = z3.UGE(n, z3.BitVecVal(NANOS, 33))
    secs = a.fields[0].t + d.fields[0].t + z3.If(carry, z3.BitVecVal(1, 64), z3.BitVecVal(0, 64))
    nanos = z3.Extract(31, 0, z3.If(carry, n - z3.BitVecVal(NANOS, 33), n))
    return secs, nanos


@summary("<Instant as Add>::add")
def _inst_add(ex, c):
    a, d = c.args
    secs, nanos = time_add(a, d)
    return instant(secs, nanos)


@summary("<Duration as Add>::add")
def _dur_add(ex, c):
    a, d = c.args
    secs, nanos = time_add(a, d)
    return duration(secs, nanos)


@summary("<Instant as Sub>::sub", "Instant::duration_since", "Instant::saturating_duration_since")
def _inst_sub(ex, c):
    """Instant - Instant saturates to zero (std >= 1.60)"""
    a, b = deref(ex, c.args[0]), deref(ex, c.args[1])
    if isinstance(b, Adt) and b.ty == "Duration":
        raise Unsupported("Instant - Duration")
    neg = z3.Not(tlex_le(b, a))
    borrow = z3.ULT(a.fields[1].t, b.fields[1].t)
    secs = a.fields[0].t - b.fields[0].t - z3.If(borrow, z3.BitVecVal(1, 64), z3.BitVecVal(0, 64))
    nanos = z3.If(borrow, a.fields[1].t + z3.BitVecVal(NANOS, 32) - b.fields[1].t, a.fields[1].t - b.fields[1].t)
    return duration(z3.If(neg, z3.BitVecVal(0, 64), secs), z3.If(neg, z3.BitVecVal(0, 32), nanos))


@summary("<Duration as PartialOrd>::gt")
def _dur_gt(ex, c):
    a, b = deref(ex, c.args[0]), deref(ex, c.args[1])
    return Bool(z3.Not(dur_le(a, b)))


@summary("<Duration as PartialOrd>::le")
def _dur_le(ex, c):
    a, b = deref(ex, c.args[0]), deref(ex, c.args[1])
    return Bool(dur_le(a, b))


# ------------------------------------------------------------------ logging / metrics (side effects outside every property)
@summary("<Level as PartialOrd>::le")
def _lvl_le(ex, c):
    return Bool(False)      # logging disabled: the formatting code is never entered


@summary("max_level", "log::max_level", "log::STATIC_MAX_LEVEL")
def _max_level(ex, c):
    return Opaque("LevelFilter")


@summary("<DNS_CACHE as Deref>::deref", "<DNS_CACHE_SIZE as Deref>::deref", "MetricVec::with_label_values", "GenericCounter::inc",
         "GenericGauge::set", "GenericCounter::inc_by")
def _metric(ex, c):
    return Opaque("metric")


# ------------------------------------------------------------------ containers
@summary("<* as Iterator>::chain")
def _it_chain(ex, c):
    a, b = c.args
    return Opaque("Iter", items=list(a.items) + list(b.items))


@summary("<* as Iterator>::min")
def _it_min(ex, c):
    items = c.args[0].items
    if not items:
        return NONE()
    best = items[0]
    for x in items[1:]:
        best = pick(ex, le(ex, x, best), x, best)
    return some(best)


def deep(v):
    """structural copy (Clone of plain data)"""
    if isinstance(v, Adt):
        return Adt(v.ty, v.variant, [deep(f) for f in v.fields], v.names)
    if isinstance(v, Tup):
        return Tup([deep(f) for f in v.items])
    if isinstance(v, Seq):
        return Seq([deep(f) for f in v.items], v.kind)
    return v


@summary("<* as Clone>::clone")
def _clone(ex, c):
    return deep(deref(ex, c.args[0]))


@summary("<Domain as PartialEq>::eq")
def _domain_eq(ex, c):
    a, b = deref(ex, c.args[0]), deref(ex, c.args[1])
    if len(a.fields) == 1 and isinstance(a.fields[0], BV):
        return Bool(a.fields[0].t == b.fields[0].t)     # names abstracted to identities (equality only)
    raise Unsupported("Domain equality on concrete label vectors")


@summary("HashMap::get")
def _hm_get(ex, c):
    """map of bounded concrete size: entries = list of (key, Cell(value)); lookup by the crate's own PartialEq"""
    m = deref(ex, c.args[0])
    k = c.args[1]
    if isinstance(m, KMap):
        cell = m.d.get(key_of(ex, k))
        return some(Ref(cell)) if cell is not None else NONE()
    for (sk, cell) in m.entries:
        r = ex.do_call(f"<{m.key_ty} as PartialEq>::eq", [Ref(Cell(sk)), k], None, 0)
        if ex.branch(r.t):
            return some(Ref(cell))
    return NONE()


# ------------------------------------------------------------------ ranges, indexing, zips
@summary("<Range as Iterator>::next")
def _range_next(ex, c):
    r = c.args[0]
    rng = deref(ex, r)
    start, end = rng.fields[0], rng.fields[1]
    if ex.branch(z3.ULT(start.t, end.t)):
        base = r
        while isinstance(ex.load(base), Ref):
            base = ex.load(base)
        ex.store(Ref(base.cell, base.path + (0,)), BV(start.t + 1, start.signed))
        return some(start)
    return NONE()


def concrete_index(ex, idx, n):
    v = z3.simplify(idx.t)
    if z3.is_bv_value(v):
        return v.as_long()
    k = ex.choose([idx.t == i for i in range(n)] + [z3.UGE(idx.t, n)])
    return k


@summary("<Vec as Index>::index", "<Vec as IndexMut>::index_mut", "core::slice::index", "<[T] as Index>::index", "<* as Index>::index", "<* as IndexMut>::index_mut")
def _vec_index(ex, c):
    base = c.args[0]
    while isinstance(base, Ref) and isinstance(ex.load(base), Ref):
        base = ex.load(base)
    seq = ex.load(base)
    idx = c.args[1]
    if isinstance(idx, Adt) and base_type_name(idx.ty) == "RangeFrom":
        st = z3.simplify(idx.fields[0].t)
        if not z3.is_bv_value(st):
            raise Unsupported("symbolic range start")
        if st.as_long() > len(seq.items):
            raise Panic("range start out of bounds")
        return Ref(Cell(Seq(seq.items[st.as_long():], "slice")))     # read-only view sharing the element objects
    if isinstance(idx, Adt) and base_type_name(idx.ty) == "RangeTo":
        en = z3.simplify(idx.fields[0].t)
        if not z3.is_bv_value(en):
            raise Unsupported("symbolic range end")
        if en.as_long() > len(seq.items):
            raise Panic("range end out of bounds")
        return Ref(Cell(Seq(seq.items[:en.as_long()], "slice")))
    if isinstance(idx, Adt) and base_type_name(idx.ty) == "Range":
        a, b = z3.simplify(idx.fields[0].t), z3.simplify(idx.fields[1].t)
        if not (z3.is_bv_value(a) and z3.is_bv_value(b)):
            raise Unsupported("symbolic range")
        if a.as_long() > b.as_long() or b.as_long() > len(seq.items):
            raise Panic("range out of bounds")
        return Ref(Cell(Seq(seq.items[a.as_long():b.as_long()], "slice")))
    if isinstance(idx, BV):
        k = concrete_index(ex, idx, len(seq.items))
        if k >= len(seq.items):
            raise Panic("index out of bounds")
        return Ref(base.cell, base.path + (("i", k),))
    raise Unsupported(f"index with {idx!r}")


@summary("<* as Iterator>::zip")
def _it_zip(ex, c):
    a, b = c.args
    bi = b.items if isinstance(b, Opaque) else deref(ex, b).items
    return Opaque("Iter", items=[Tup([x, y]) for x, y in zip(a.items, bi)])


@summary("<* as Iterator>::all")
def _it_all(ex, c):
    it = deref(ex, c.args[0])
    f = c.args[1]
    for x in list(it.items):
        r = ex.call_callable(f, [x])
        if not ex.branch(r.t):
            return Bool(False)
    return Bool(True)


@summary("<* as Iterator>::any")
def _it_any(ex, c):
    it = deref(ex, c.args[0])
    f = c.args[1]
    for x in list(it.items):
        r = ex.call_callable(f, [x])
        if ex.branch(r.t):
            return Bool(True)
    return Bool(False)


def lower8(t):
    return z3.If(z3.And(z3.UGE(t, 65), z3.ULE(t, 90)), t + 32, t)


@summary("core::slice::ascii::eq_ignore_ascii_case")
def _eq_ci(ex, c):
    a, b = deref(ex, c.args[0]), deref(ex, c.args[1])
    if len(a.items) != len(b.items):
        return Bool(False)
    return Bool(z3.And([lower8(x.t) == lower8(y.t) for x, y in zip(a.items, b.items)]) if a.items else z3.BoolVal(True))


def bytes_of(label):
    return [b.t for b in label.fields[0].items]


def seq_cmp_terms(a, b):
    """lexicographic order of two label vectors -> (lt, eq) z3 terms (derived Ord: Vec<Label> of Vec<u8>)"""
    def cmp_bytes(x, y):
        lt, eq = z3.BoolVal(False), z3.BoolVal(True)
        for p, q in zip(x, y):
            lt = z3.Or(lt, z3.And(eq, z3.ULT(p, q)))
            eq = z3.And(eq, p == q)
        if len(x) < len(y):
            lt = z3.Or(lt, eq)
            eq = z3.BoolVal(False)
        elif len(x) > len(y):
            eq = z3.BoolVal(False)
        return lt, eq
    lt, eq = z3.BoolVal(False), z3.BoolVal(True)
    for la, lb in zip(a, b):
        l2, e2 = cmp_bytes(bytes_of(la), bytes_of(lb))
        lt = z3.Or(lt, z3.And(eq, l2))
        eq = z3.And(eq, e2)
    if len(a) < len(b):
        lt = z3.Or(lt, eq)
        eq = z3.BoolVal(False)
    elif len(a) > len(b):
        eq = z3.BoolVal(False)
    return lt, eq


@summary("<Vec as Ord>::cmp")
def _vec_cmp(ex, c):
    a, b = deref(ex, c.args[0]), deref(ex, c.args[1])
    lt, eq = seq_cmp_terms(a.items, b.items)
    k = ex.choose([lt, eq, z3.And(z3.Not(lt), z3.Not(eq))])
    return Adt("Ordering", ["Less", "Equal", "Greater"][k], [])


@summary("<Ordering as PartialEq>::eq")
def _ord_eq(ex, c):
    a, b = deref(ex, c.args[0]), deref(ex, c.args[1])
    return Bool(a.variant == b.variant)


@summary("<Option as PartialEq>::eq")
def _opt_eq(ex, c):
    a, b = deref(ex, c.args[0]), deref(ex, c.args[1])
    if a.variant != b.variant:
        return Bool(False)
    if a.variant == "None":
        return Bool(True)
    x, y = a.fields[0], b.fields[0]
    if isinstance(x, BV) and isinstance(y, BV):
        return Bool(x.t == y.t)
    raise Unsupported("Option eq on non-integers")


# ------------------------------------------------------------------ maps with concrete keys (DHCP option tables)
class KMap(Opaque):
    """HashMap whose keys are concrete integers (DhcpOption codes): ordered dict key -> Cell(value)"""

    def __init__(self):
        Opaque.__init__(self, "KMap")
        self.d = {}


def key_of(ex, k):
    k = deref(ex, k)
    if isinstance(k, Adt) and len(k.fields) == 1:
        k = k.fields[0]
    v = z3.simplify(k.t)
    if not z3.is_bv_value(v):
        raise Unsupported("symbolic map key")
    return v.as_long()


@summary("<HashMap as Default>::default", "HashMap::new")
def _hm_new(ex, c):
    return KMap()


@summary("HashMap::insert")
def _hm_insert(ex, c):
    m = deref(ex, c.args[0])
    if not isinstance(m, KMap):
        raise Unsupported("HashMap::insert on a non-concrete-key map")
    k = key_of(ex, c.args[1])
    old = m.d.get(k)
    m.d[k] = Cell(c.args[2])
    m.keyobj = getattr(m, "keyobj", {})
    m.keyobj[k] = deref(ex, c.args[1])
    return some(old.v) if old is not None else NONE()


@summary("HashMap::contains_key")
def _hm_contains(ex, c):
    m = deref(ex, c.args[0])
    if isinstance(m, KMap):
        return Bool(key_of(ex, c.args[1]) in m.d)
    raise Unsupported("contains_key on a non-concrete-key map")


@summary("<&HashMap as IntoIterator>::into_iter", "<HashMap as IntoIterator>::into_iter", "HashMap::iter")
def _hm_iter(ex, c):
    m = deref(ex, c.args[0])
    if not isinstance(m, KMap):
        raise Unsupported("iteration over a non-concrete-key map")
    return Opaque("Iter", items=[Tup([Ref(Cell(m.keyobj[k])), Ref(cell)]) for k, cell in m.d.items()])


@summary("std::slice::to_vec", "core::slice::to_vec", "alloc::slice::to_vec", "<[T]>::to_vec")
def _to_vec(ex, c):
    v = deref(ex, c.args[0])
    if isinstance(v, Seq):
        return Seq(list(v.items))
    return v


@summary("Vec::push")
def _vec_push(ex, c):
    deref(ex, c.args[0]).items.append(c.args[1])
    return UNIT


@summary("Ipv4Addr::octets")
def _octets(ex, c):
    ip = deref(ex, c.args[0]).fields[0].t
    return Seq([BV(z3.Extract(31 - 8 * i, 24 - 8 * i, ip)) for i in range(4)], "array")


@summary("core::num::to_be_bytes")
def _to_be(ex, c):
    v = c.args[0]
    n = v.width // 8
    return Seq([BV(z3.Extract(v.width - 1 - 8 * i, v.width - 8 - 8 * i, v.t)) for i in range(n)], "array")


@summary("Ipv4Addr::is_unspecified")
def _is_unspec(ex, c):
    return Bool(deref(ex, c.args[0]).fields[0].t == 0)


@summary("std::net::Ipv4Addr::UNSPECIFIED", "Ipv4Addr::UNSPECIFIED")
def _unspec(ex, c):
    return Adt("Ipv4Addr", None, [BV(z3.BitVecVal(0, 32))])


@summary("<Option as Default>::default")
def _opt_default(ex, c):
    return NONE()


@summary("<T as Serialise>::serialise")
def _dyn_serialise(ex, c):
    """call inside a generic body (`T` is not substituted in unmonomorphised MIR): dispatch on the runtime value"""
    v = deref(ex, c.args[0])
    if isinstance(v, BV):
        want = {8: "u8", 16: "u16", 32: "i32" if v.signed else "u32"}[v.width]
    elif isinstance(v, Adt):
        want = v.ty.split("::")[-1]
    else:
        raise Unsupported(f"serialise of {v!r}")
    cands = [f for f in ex.prog.by_short.get("serialise", []) if f.nparams == 2 and base_type_name(f.param_types.get(1, "")) == want
             and "dhcppkt" in f.name]
    if len(cands) != 1:
        raise Unsupported(f"Serialise impl for {want}: {[f.name for f in cands]}")
    return ex.call_fn(cands[0], c.args)


# ------------------------------------------------------------------ byte vectors / linked lists (DNS codec)
def base_seq_ref(ex, r):
    while isinstance(r, Ref) and isinstance(ex.load(r), Ref):
        r = ex.load(r)
    return r


@summary("Vec::is_empty", "core::slice::is_empty", "LinkedList::is_empty")
def _is_empty(ex, c):
    return Bool(len(deref(ex, c.args[0]).items) == 0)


@summary("Vec::extend_from_slice")
def _extend_from_slice(ex, c):
    deref(ex, c.args[0]).items.extend(deref(ex, c.args[1]).items)
    return UNIT


@summary("<Vec as Extend>::extend", "Vec::extend")
def _extend(ex, c):
    src = c.args[1]
    items = src.items if isinstance(src, Opaque) else deref(ex, src).items
    deref(ex, c.args[0]).items.extend([deref1(ex, x) if isinstance(x, Ref) else x for x in items])
    return UNIT


@summary("Vec::truncate")
def _truncate(ex, c):
    n = z3.simplify(c.args[1].t)
    if not z3.is_bv_value(n):
        raise Unsupported("truncate to a symbolic length")
    v = deref(ex, c.args[0])
    del v.items[n.as_long():]
    return UNIT


@summary("Vec::splice")
def _splice(ex, c):
    v = deref(ex, c.args[0])
    rng = c.args[1]
    a, b = z3.simplify(rng.fields[0].t), z3.simplify(rng.fields[1].t)
    if not (z3.is_bv_value(a) and z3.is_bv_value(b)):
        raise Unsupported("splice with a symbolic range")
    a, b = a.as_long(), b.as_long()
    if a > b or b > len(v.items):
        raise Panic("splice range out of bounds")
    src = c.args[2]
    new = [deref1(ex, x) if isinstance(x, Ref) else x for x in (src.items if isinstance(src, Opaque) else deref(ex, src).items)]
    removed = v.items[a:b]
    v.items[a:b] = new
    return Opaque("Splice", items=removed)


@summary("LinkedList::new", "<LinkedList as Default>::default")
def _ll_new(ex, c):
    return Seq([], "list")


@summary("LinkedList::push_back")
def _ll_push(ex, c):
    deref(ex, c.args[0]).items.append(c.args[1])
    return UNIT


@summary("<LinkedList as IntoIterator>::into_iter", "LinkedList::iter_mut", "LinkedList::iter")
def _ll_iter(ex, c):
    base = base_seq_ref(ex, c.args[0])
    seq = ex.load(base)
    return Opaque("Iter", items=[Ref(base.cell, base.path + (("i", i),)) for i in range(len(seq.items))])


@summary("<Vec as PartialEq>::eq", "<[T] as PartialEq>::eq", "core::slice::cmp::eq")
def _vec_eq(ex, c):
    a, b = deref(ex, c.args[0]), deref(ex, c.args[1])
    if len(a.items) != len(b.items):
        return Bool(False)
    if not a.items:
        return Bool(True)
    if all(isinstance(x, BV) for x in a.items + b.items):
        return Bool(z3.And([x.t == y.t for x, y in zip(a.items, b.items)]))
    raise Unsupported("Vec equality on non-integer elements")


@summary("<u16 as TryFrom>::try_from")
def _u16_try_from(ex, c):
    v = c.args[0]
    if ex.branch(z3.ULE(v.t, z3.BitVecVal(0xFFFF, v.width))):
        return ok(BV(z3.Extract(15, 0, v.t)))
    return err(Opaque("TryFromIntError"))


@summary("<u8 as From>::from")
def _u8_from(ex, c):
    v = c.args[0]
    if isinstance(v, Bool):
        return BV(z3.If(v.t, z3.BitVecVal(1, 8), z3.BitVecVal(0, 8)))
    return BV(z3.Extract(7, 0, v.t)) if v.width > 8 else v


@summary("panic", "core::panicking::panic", "core::panicking::assert_failed", "core::panicking::panic_fmt", "std::rt::begin_panic")
def _panic(ex, c):
    msg = c.args[0].text if c.args and isinstance(c.args[0], Str) else "explicit panic / assertion"
    raise Panic(str(msg))


@summary("<* as Iterator>::for_each")
def _for_each(ex, c):
    it, f = c.args
    for x in list(it.items):
        ex.call_callable(f, [x])
    return UNIT


@summary("Option::unwrap_or_default")
def _opt_unwrap_or_default2(ex, c):
    o = c.args[0]
    if o.variant == "Some":
        return o.fields[0]
    ty = (c.dest_ty or "")
    if "EdnsData" in ty or "EdnsData" in c.path:
        return Adt("EdnsData", None, [Seq([])])
    bt = base_type_name(ty)
    if bt == "Vec":
        return Seq([])
    if bt in INT_TYPES:
        return bv_const(0, bt)
    if bt == "bool":
        return Bool(False)
    if bt == "String":
        return Str(text="")
    raise Unsupported("unwrap_or_default on None of " + ty)





def _int_default(ex, c):
    m = re.match(r"^<(\w+) as", c.path)
    return bv_const(0, m.group(1))


for _t in INT_TYPES:
    S[f"<{_t} as Default>::default"] = _int_default


# ------------------------------------------------------------------ more Option / Vec / slice combinators (DNS parser)
@summary("Option::is_some_and")
def _is_some_and(ex, c):
    o, f = c.args
    if o.variant == "None":
        return Bool(False)
    return ex.call_callable(f, [o.fields[0]])


@summary("Option::map_or")
def _map_or(ex, c):
    o, d, f = c.args
    return d if o.variant == "None" else ex.call_callable(f, [o.fields[0]])


@summary("Option::and_then")
def _and_then(ex, c):
    o, f = c.args
    return NONE() if o.variant == "None" else ex.call_callable(f, [o.fields[0]])


@summary("Option::filter")
def _opt_filter(ex, c):
    o, f = c.args
    if o.variant == "None":
        return o
    r = ex.call_callable(f, [Ref(Cell(o.fields[0]))])
    return o if ex.branch(r.t) else NONE()


@summary("<* as Iterator>::find")
def _it_find(ex, c):
    it = deref(ex, c.args[0])
    f = c.args[1]
    for x in list(it.items):
        r = ex.call_callable(f, [Ref(Cell(x))])
        if ex.branch(r.t):
            return some(x)
    return NONE()


@summary("Vec::retain")
def _retain(ex, c):
    base = base_seq_ref(ex, c.args[0])
    v = ex.load(base)
    f = c.args[1]
    keep = []
    for i, x in enumerate(list(v.items)):
        r = ex.call_callable(f, [Ref(base.cell, base.path + (("i", i),))])
        if ex.branch(r.t):
            keep.append(x)
    v.items[:] = keep
    return UNIT


@summary("core::slice::split_first")
def _split_first(ex, c):
    r = c.args[0]
    base = base_seq_ref(ex, r)
    seq = ex.load(base)
    if not seq.items:
        return NONE()
    return some(Tup([Ref(base.cell, base.path + (("i", 0),)), Ref(Cell(Seq(seq.items[1:], "slice")))]))


@summary("Vec::shrink_to_fit", "Vec::reserve", "Vec::with_capacity")
def _vec_noop(ex, c):
    if c.name.endswith("with_capacity"):
        return Seq([])
    return UNIT


@summary("core::fmt::rt::Argument::new_lower_hex", "core::fmt::rt::Argument::new_upper_hex")
def _fmt_hex(ex, c):
    return Opaque("fmt::Argument")


@summary("panic_fmt")
def _panic_fmt(ex, c):
    raise Panic("panic!()")


@summary("<String as PartialEq>::eq", "<str as PartialEq>::eq")
def _str_eq(ex, c):
    a, b = deref(ex, c.args[0]), deref(ex, c.args[1])
    if a.text is not None and b.text is not None:
        return Bool(a.text == b.text)
    if a.ip is not None and b.ip is not None:
        return Bool(a.ip == b.ip)          # canonical renderings are equal exactly when the addresses are
    other = a.text if a.text is not None else b.text
    if other is not None and sqlmodel.ip_of_text(other) is None:
        return Bool(False)                  # a dotted quad is never equal to text that is not one
    if other is not None:
        sym = a.ip if a.ip is not None else b.ip
        return Bool(sym == z3.BitVecVal(sqlmodel.ip_of_text(other), 32))
    raise Unsupported("string equality on symbolic text")


@summary("Duration::is_zero")
def _dur_is_zero(ex, c):
    d = deref(ex, c.args[0])
    return Bool(z3.And(d.fields[0].t == 0, d.fields[1].t == 0))


@summary("Duration::as_millis")
def _dur_as_millis(ex, c):
    d = deref(ex, c.args[0])
    return BV(z3.ZeroExt(64, d.fields[0].t) * 1000 + z3.ZeroExt(96, z3.UDiv(d.fields[1].t, z3.BitVecVal(1000000, 32))))


@summary("core::slice::get", "Vec::get")
def _slice_get(ex, c):
    base = base_seq_ref(ex, c.args[0])
    seq = ex.load(base)
    idx = c.args[1]
    n = len(seq.items)
    if isinstance(idx, Adt):
        kind = base_type_name(idx.ty)
        vals = [z3.simplify(f.t) for f in idx.fields]
        if not all(z3.is_bv_value(v) for v in vals):
            raise Unsupported("slice::get with a symbolic range")
        vals = [v.as_long() for v in vals]
        if kind == "RangeTo":
            a, b = 0, vals[0]
        elif kind == "RangeFrom":
            a, b = vals[0], n
        elif kind == "Range":
            a, b = vals
        else:
            raise Unsupported("slice::get with " + kind)
        if a > b or b > n:
            return NONE()
        return some(Ref(Cell(Seq(seq.items[a:b], "slice"))))
    v = z3.simplify(idx.t)
    if not z3.is_bv_value(v):
        raise Unsupported("slice::get with a symbolic index")
    if v.as_long() >= n:
        return NONE()
    return some(Ref(base.cell, base.path + (("i", v.as_long()),)))


@summary("u16::from_be_bytes", "core::num::from_be_bytes")
def _from_be(ex, c):
    seq = deref(ex, c.args[0])
    t = seq.items[0].t
    for b in seq.items[1:]:
        t = z3.Concat(t, b.t)
    return BV(t)


class KSet(Opaque):
    def __init__(self, keys):
        Opaque.__init__(self, "KSet")
        self.keys = set(keys)


@summary("<DhcpOption as From>::from")
def _dhcpopt_from(ex, c):
    return Adt("DhcpOption", None, [c.args[0]])


# ------------------------------------------------------------------ address-set algebra (HashSet<Ipv4Addr>), Mutex<RefCell<..>>
@summary("<HashSet as Sub>::sub")
def _hs_sub(ex, c):
    return Opaque("HashSet", items=[], diff=(c.args[0], c.args[1]))


@summary("HashSet::new", "<HashSet as Default>::default")
def _hs_new(ex, c):
    return Opaque("HashSet", items=[])


@summary("<HashSet as Extend>::extend", "HashSet::extend")
def _hs_extend(ex, c):
    ref, src = c.args
    hs = deref(ex, ref)
    if isinstance(src, Opaque) and src.kind == "Iter":
        new = [Cell(deref1(ex, x)) for x in src.items]
    else:
        s2 = deref(ex, src)
        if getattr(s2, "lazy", None) is not None or getattr(s2, "diff", None) is not None or getattr(s2, "pred", None) is not None:
            raise Unsupported("extend with a non-explicit set")
        new = [Cell(cell.v) for cell in s2.items]
    if not isinstance(hs, Opaque) or hs.kind != "HashSet" or getattr(hs, "lazy", None) is not None:
        raise Unsupported("extend of a non-explicit set")
    hs.items = list(hs.items) + new
    return UNIT


@summary("<HashSet as Clone>::clone")
def _hs_clone(ex, c):
    hs = deref(ex, c.args[0])
    if getattr(hs, "lazy", None) is not None or getattr(hs, "diff", None) is not None:
        return hs
    o = Opaque("HashSet", items=[Cell(cell.v) for cell in hs.items])
    for k in ("pred", "pool_id"):
        if hasattr(hs, k):
            setattr(o, k, getattr(hs, k))
    return o


@summary("<HashSet as IntoIterator>::into_iter")
def _hs_into_iter(ex, c):
    hs = deref(ex, c.args[0])
    if getattr(hs, "lazy", None) is not None or getattr(hs, "diff", None) is not None or getattr(hs, "pred", None) is not None:
        raise Unsupported("iteration over a non-explicit set")
    return Opaque("Iter", items=[cell.v for cell in hs.items])


@summary("Mutex::lock")
def _mutex_lock(ex, c):
    m = deref(ex, c.args[0])
    if not hasattr(m, "inner"):
        raise Unsupported("Mutex without modelled content")
    return Adt("Result", "Ok", [Ref(m.inner, mut=True)])


@summary("<MutexGuard as Deref>::deref", "<MutexGuard as DerefMut>::deref_mut", "<std::cell::Ref as Deref>::deref", "<Ref as Deref>::deref")
def _guard_deref(ex, c):
    g = c.args[0]
    v = ex.load(g)
    return v if isinstance(v, Ref) else g


@summary("RefCell::borrow")
def _refcell_borrow(ex, c):
    r = deref(ex, c.args[0])
    if not hasattr(r, "inner"):
        raise Unsupported("RefCell without modelled content")
    return Ref(r.inner)


@summary("RefCell::replace")
def _refcell_replace(ex, c):
    r = deref(ex, c.args[0])
    old = r.inner.v
    r.inner.v = c.args[1]
    return old


@summary("<bool as Default>::default")
def _bool_default(ex, c):
    return Bool(False)


@summary("<Vec as Default>::default")
def _vec_default(ex, c):
    return Seq([])


@summary("<Mutex as Default>::default")
def _mutex_default(ex, c):
    # Mutex<RefCell<Option<_>>> (dhcp::config::Policy::address_cache): empty cache
    return Opaque("Mutex", inner=Cell(Opaque("RefCell", inner=Cell(NONE()))))


@summary("<* as Iterator>::fold")
def _it_fold(ex, c):
    it, acc, f = c.args
    if not (isinstance(it, Opaque) and it.kind == "Iter"):
        raise Unsupported("fold over a non-list iterator")
    for x in it.items:
        acc = ex.call_callable(f, [acc, x])
    return acc


@summary("Result::and_then")
def _res_and_then(ex, c):
    r, f = c.args
    return r if r.variant == "Err" else ex.call_callable(f, [r.fields[0]])


@summary("Option::ok_or_else")
def _opt_ok_or_else(ex, c):
    o, f = c.args
    return ok(o.fields[0]) if o.variant == "Some" else err(ex.call_callable(f, []))


@summary("Option::transpose")
def _opt_transpose(ex, c):
    o = c.args[0]
    if o.variant == "None":
        return ok(NONE())
    r = o.fields[0]
    return ok(some(r.fields[0])) if r.variant == "Ok" else r


@summary("Option::flatten")
def _opt_flatten(ex, c):
    o = c.args[0]
    return NONE() if o.variant == "None" else o.fields[0]


@summary("Option::take")
def _opt_take(ex, c):
    r = c.args[0]
    old = deref(ex, r)
    base = r
    while isinstance(ex.load(base), Ref):
        base = ex.load(base)
    ex.store(base, NONE())
    return old


@summary("Option::get_or_insert_with")
def _opt_goiw(ex, c):
    r, f = c.args
    base = r
    while isinstance(ex.load(base), Ref):
        base = ex.load(base)
    cur = ex.load(base)
    if cur.variant == "None":
        ex.store(base, some(ex.call_callable(f, [])))
    return Ref(base.cell, base.path + (0,), mut=True)


@summary("<Duration as PartialOrd>::lt")
def _dur_lt(ex, c):
    a, b = deref(ex, c.args[0]), deref(ex, c.args[1])
    return Bool(z3.Not(dur_le(b, a)))


@summary("<Duration as PartialOrd>::ge")
def _dur_ge(ex, c):
    a, b = deref(ex, c.args[0]), deref(ex, c.args[1])
    return Bool(dur_le(b, a))


def _dur_mul(ex, d, n):
    """Duration * u32 (std: checked_mul(..).expect("overflow when multiplying duration by scalar"))"""
    secs, nanos = d.fields[0].t, d.fields[1].t
    n64 = z3.ZeroExt(32, n.t)
    total_nanos = z3.ZeroExt(32, nanos) * n64                     # < 10^9 * 2^32 < 2^62
    extra = z3.UDiv(total_nanos, z3.BitVecVal(NANOS, 64))
    rem = z3.Extract(31, 0, z3.URem(total_nanos, z3.BitVecVal(NANOS, 64)))
    ovf = z3.Or(z3.Not(z3.BVMulNoOverflow(secs, n64, False)), z3.Not(z3.BVAddNoOverflow(secs * n64, extra, False)))
    if ex.branch(ovf):
        raise Panic("overflow when multiplying duration by scalar")
    return duration(secs * n64 + extra, rem)


@summary("<u32 as Mul>::mul")
def _u32_mul_dur(ex, c):
    a, b = c.args
    if isinstance(b, Adt) and b.ty == "Duration":
        return _dur_mul(ex, b, a)
    raise Unsupported("u32 * non-Duration through the Mul trait")


@summary("<Duration as Mul>::mul")
def _dur_mul_u32(ex, c):
    return _dur_mul(ex, c.args[0], c.args[1])


@summary("<Duration as Div>::div")
def _dur_div(ex, c):
    d, n = c.args
    secs, nanos = d.fields[0].t, d.fields[1].t
    if ex.branch(n.t == 0):
        raise Panic("divide by zero error when dividing duration by scalar")
    n64 = z3.ZeroExt(32, n.t)
    q = z3.UDiv(secs, n64)
    carry = z3.URem(secs, n64)                                    # < 2^32
    extra_nanos = z3.UDiv(carry * z3.BitVecVal(NANOS, 64) + z3.ZeroExt(32, nanos), n64)   # (carry*1e9 + nanos)/n < 1e9 ... fits
    return duration(q, z3.Extract(31, 0, extra_nanos))


def _int_try_from(target):
    tw, tsigned = INT_TYPES[target]

    def f(ex, c):
        v = c.args[0]
        if not isinstance(v, BV):
            raise Unsupported(f"{target}::try_from on {v!r}")
        w = v.width
        # value of v as a mathematical integer must lie in the target's range
        wide = max(w, tw) + 1
        x = z3.SignExt(wide - w, v.t) if v.signed else z3.ZeroExt(wide - w, v.t)
        lo = -(1 << (tw - 1)) if tsigned else 0
        hi = (1 << (tw - 1)) - 1 if tsigned else (1 << tw) - 1
        fits = z3.And(x >= z3.BitVecVal(lo, wide), x <= z3.BitVecVal(hi, wide))
        if ex.branch(fits):
            return ok(BV(z3.Extract(tw - 1, 0, x), tsigned))
        return err(Opaque("TryFromIntError"))
    return f


for _t in INT_TYPES:
    S[f"<{_t} as TryFrom>::try_from"] = _int_try_from(_t)


@summary("Vec::drain")
def _vec_drain(ex, c):
    r, rng = c.args
    if not (isinstance(rng, Adt) and rng.ty == "RangeFull"):
        raise Unsupported("Vec::drain of a sub-range")
    base = r
    while isinstance(ex.load(base), Ref):
        base = ex.load(base)
    seq = ex.load(base)
    ex.store(base, Seq([]))
    return Opaque("Iter", items=list(seq.items))


@summary("Vec::shrink_to_fit", "Vec::reserve", "Vec::shrink_to")
def _vec_noop(ex, c):
    return UNIT


@summary("core::str::starts_with")
def _str_starts_with(ex, c):
    a, b = deref(ex, c.args[0]), deref(ex, c.args[1])
    if a.text is None or b.text is None:
        raise Unsupported("starts_with on symbolic text")
    return Bool(a.text.startswith(b.text))


@summary("<str as Index>::index")
def _str_index(ex, c):
    s_, idx = deref(ex, c.args[0]), c.args[1]
    if s_.text is None or not isinstance(idx, Adt):
        raise Unsupported("str indexing on symbolic text")
    vals = [z3.simplify(f.t) for f in idx.fields]
    if not all(z3.is_bv_value(v) for v in vals):
        raise Unsupported("str indexing with a symbolic range")
    vals = [v.as_long() for v in vals]
    kind = base_type_name(idx.ty)
    raw = s_.text.encode()
    a, b = {"RangeFrom": (vals[0], len(raw)), "RangeTo": (0, vals[0]), "Range": (vals[0], vals[-1])}.get(kind, (None, None))
    if a is None:
        raise Unsupported(f"str index by {kind}")
    if a > b or b > len(raw):
        raise Panic("byte index out of range of str")
    return Str(text=raw[a:b].decode())


@summary("RangeInclusive::new", "std::ops::RangeInclusive::new", "core::ops::RangeInclusive::new")
def _ri_new(ex, c):
    return Adt("RangeInclusive", None, [c.args[0], c.args[1], Bool(False)])


@summary("<RangeInclusive as Iterator>::next")
def _ri_next(ex, c):
    r = c.args[0]
    base = r
    while isinstance(ex.load(base), Ref):
        base = ex.load(base)
    rng = ex.load(base)
    start, end = rng.fields[0], rng.fields[1]
    exhausted = rng.fields[2] if len(rng.fields) > 2 else Bool(False)
    if ex.branch(exhausted.t):
        return NONE()
    lt = z3.ULT(start.t, end.t) if not start.signed else (start.t < end.t)
    if ex.branch(lt):
        ex.store(base, Adt("RangeInclusive", None, [BV(start.t + 1, start.signed), end, Bool(False)]))
        return some(start)
    if ex.branch(start.t == end.t):
        ex.store(base, Adt("RangeInclusive", None, [start, end, Bool(True)]))
        return some(start)
    return NONE()


@summary("core::str::split")
def _str_split(ex, c):
    s_, pat = deref(ex, c.args[0]), c.args[1]
    pv = z3.simplify(pat.t) if isinstance(pat, BV) else None
    if pv is None or not z3.is_bv_value(pv):
        raise Unsupported("str::split with a non-char pattern")
    ch = chr(pv.as_long())
    if s_.text is not None:
        return Opaque("Iter", items=[Str(text=x) for x in s_.text.split(ch)])
    if s_.ip is not None and ch == "/":
        return Opaque("Iter", items=[Str(ip=s_.ip)] + ([Str(text=str(s_.plen))] if s_.plen is not None else []))
    raise Unsupported("str::split on symbolic text")


@summary("<* as Iterator>::filter_map")
def _it_filter_map(ex, c):
    it, f = c.args
    if not (isinstance(it, Opaque) and it.kind == "Iter"):
        raise Unsupported("filter_map over a non-list iterator")
    out = []
    for x in it.items:
        r = ex.call_callable(f, [x])
        if r.variant == "Some":
            out.append(r.fields[0])
    return Opaque("Iter", items=out)


@summary("Result::unwrap_or")
def _res_unwrap_or(ex, c):
    r, d = c.args
    return r.fields[0] if r.variant == "Ok" else d


@summary("Result::unwrap_or_default")
def _res_unwrap_or_default(ex, c):
    r = c.args[0]
    if r.variant == "Ok":
        return r.fields[0]
    raise Unsupported("Result::unwrap_or_default on Err")


@summary("core::num::div_ceil")
def _div_ceil(ex, c):
    a, b = c.args
    if ex.branch(b.t == 0):
        raise Panic("attempt to divide by zero")
    q = z3.UDiv(a.t, b.t)
    return BV(z3.If(z3.URem(a.t, b.t) == 0, q, q + 1), a.signed)


@summary("core::num::min", "core::cmp::Ord::min", "<u16 as Ord>::min", "<u32 as Ord>::min", "<u64 as Ord>::min", "<usize as Ord>::min", "<u8 as Ord>::min")
def _int_min(ex, c):
    a, b = c.args
    if not (isinstance(a, BV) and isinstance(b, BV)):
        return _min(ex, c)
    return BV(z3.If(z3.ULE(a.t, b.t), a.t, b.t), a.signed)


@summary("Vec::resize_with")
def _vec_resize_with(ex, c):
    r, n, f = c.args
    base = r
    while isinstance(ex.load(base), Ref):
        base = ex.load(base)
    seq = ex.load(base)
    nv = z3.simplify(n.t)
    if not z3.is_bv_value(nv):
        raise Unsupported("resize_with to a symbolic length")
    nv = nv.as_long()
    items = list(seq.items)[:nv]
    while len(items) < nv:
        items.append(ex.call_callable(f, []))
    ex.store(base, Seq(items))
    return UNIT


@summary("core::slice::split_at")
def _slice_split_at(ex, c):
    seq = deref(ex, c.args[0])
    n = z3.simplify(c.args[1].t)
    if not z3.is_bv_value(n):
        raise Unsupported("split_at a symbolic position")
    n = n.as_long()
    if n > len(seq.items):
        raise Panic("mid > len in split_at")
    return Tup([Ref(Cell(Seq(list(seq.items[:n]), "slice"))), Ref(Cell(Seq(list(seq.items[n:]), "slice")))])


@summary("std::mem::size_of", "core::mem::size_of")
def _size_of(ex, c):
    ty = (c.generics[0] if c.generics else "").strip()
    if ty in INT_TYPES:
        return bv_const(INT_TYPES[ty][0] // 8, "usize")
    m = re.match(r"^\[(\w+); (\d+)\]$", ty)
    if m and m.group(1) in INT_TYPES:
        return bv_const(INT_TYPES[m.group(1)][0] // 8 * int(m.group(2)), "usize")
    raise Unsupported(f"size_of::<{ty}>")


@summary("<[u8] as TryInto>::try_into", "<* as TryInto>::try_into")
def _slice_try_into(ex, c):
    v = deref(ex, c.args[0])
    ty = c.dest_ty or ""
    m = re.search(r"\[(\w+); (\d+)\]", ty) or (re.search(r"\[(\w+); (\d+)\]", c.generics[0]) if c.generics else None)
    if not isinstance(v, Seq) or not m:
        raise Unsupported(f"try_into of {v!r} into {ty}")
    if len(v.items) != int(m.group(2)):
        return err(Opaque("TryFromSliceError"))
    return ok(Seq(list(v.items), "array"))


@summary("Ipv4Addr::new", "std::net::Ipv4Addr::new")
def _ip4_new(ex, c):
    t = c.args[0].t
    for x in c.args[1:]:
        t = z3.Concat(t, x.t)
    return Adt("Ipv4Addr", None, [BV(t)])


@summary("<F as FnMut>::call_mut", "<F as FnOnce>::call_once", "<F as Fn>::call", "<* as FnMut>::call_mut", "<* as FnOnce>::call_once", "<* as Fn>::call")
def _fn_call(ex, c):
    f, args = c.args[0], c.args[1]
    f = deref1(ex, f) if isinstance(f, Ref) else f
    while isinstance(f, Ref):
        f = ex.load(f)
    items = args.items if isinstance(args, Tup) else [args]
    return ex.call_callable(f, list(items))


@summary("core::slice::contains")
def _slice_contains(ex, c):
    seq = deref(ex, c.args[0])
    x = deref(ex, c.args[1])
    if not isinstance(seq, Seq) or not isinstance(x, BV):
        raise Unsupported("slice::contains on non-integer elements")
    return Bool(z3.Or([it.t == x.t for it in seq.items]) if seq.items else z3.BoolVal(False))


@summary("Duration::from_millis", "std::time::Duration::from_millis", "core::time::Duration::from_millis")
def _dur_from_millis(ex, c):
    ms = c.args[0].t
    return duration(z3.UDiv(ms, z3.BitVecVal(1000, 64)), z3.Extract(31, 0, z3.URem(ms, z3.BitVecVal(1000, 64)) * 1000000))


@summary("HashSet::is_empty")
def _hs_is_empty(ex, c):
    hs = deref(ex, c.args[0])
    if isinstance(hs, KSet):
        return Bool(len(hs.keys) == 0)
    if getattr(hs, "lazy", None) is not None or getattr(hs, "diff", None) is not None or getattr(hs, "pred", None) is not None:
        raise Unsupported("is_empty of a non-explicit set")
    return Bool(len(hs.items) == 0)


@summary("HashMap::is_empty")
def _hm_is_empty(ex, c):
    m = deref(ex, c.args[0])
    if isinstance(m, KMap):
        return Bool(len(m.d) == 0)
    raise Unsupported("is_empty of a non-concrete-key map")


@summary("HashMap::len")
def _hm_len(ex, c):
    m = deref(ex, c.args[0])
    if isinstance(m, KMap):
        return bv_const(len(m.d), "usize")
    raise Unsupported("len of a non-concrete-key map")


@summary("core::slice::starts_with")
def _slice_starts_with(ex, c):
    a, b = deref(ex, c.args[0]), deref(ex, c.args[1])
    if not (isinstance(a, Seq) and isinstance(b, Seq)):
        raise Unsupported("starts_with on non-sequences")
    if len(b.items) > len(a.items):
        return Bool(False)
    if not b.items:
        return Bool(True)
    return Bool(z3.And([x.t == y.t for x, y in zip(a.items, b.items)]))


@summary("core::slice::ends_with")
def _slice_ends_with(ex, c):
    a, b = deref(ex, c.args[0]), deref(ex, c.args[1])
    if not (isinstance(a, Seq) and isinstance(b, Seq)):
        raise Unsupported("ends_with on non-sequences")
    if len(b.items) > len(a.items):
        return Bool(False)
    if not b.items:
        return Bool(True)
    return Bool(z3.And([x.t == y.t for x, y in zip(a.items[len(a.items) - len(b.items):], b.items)]))


# ------------------------------------------------------------------ more integer methods (so that a changed arithmetic idiom is still decided)
def _shift_amount(a, n):
    w = a.width
    nn = z3.ZeroExt(w - n.width, n.t) if w > n.width else z3.Extract(w - 1, 0, n.t)
    return nn & z3.BitVecVal(w - 1, w)        # wrapping_sh*: the amount is taken modulo the bit width


@summary("core::num::wrapping_shl")
def _wshl(ex, c):
    a, n = c.args
    return BV(a.t << _shift_amount(a, n), a.signed)


@summary("core::num::wrapping_shr")
def _wshr(ex, c):
    a, n = c.args
    amt = _shift_amount(a, n)
    return BV(a.t >> amt if a.signed else z3.LShR(a.t, amt), a.signed)


@summary("core::num::wrapping_mul")
def _wmul(ex, c):
    return BV(c.args[0].t * c.args[1].t, c.args[0].signed)


@summary("core::num::abs_diff")
def _abs_diff(ex, c):
    a, b = c.args
    lt = (a.t < b.t) if a.signed else z3.ULT(a.t, b.t)
    return BV(z3.If(lt, b.t - a.t, a.t - b.t), False)


@summary("core::num::checked_div")
def _cdiv(ex, c):
    a, b = c.args
    if a.signed:
        raise Unsupported("signed checked_div")
    if ex.branch(b.t == 0):
        return NONE()
    return some(BV(z3.UDiv(a.t, b.t), False))


@summary("core::num::checked_rem")
def _crem(ex, c):
    a, b = c.args
    if a.signed:
        raise Unsupported("signed checked_rem")
    if ex.branch(b.t == 0):
        return NONE()
    return some(BV(z3.URem(a.t, b.t), False))


@summary("core::num::max", "core::cmp::Ord::max", "<u8 as Ord>::max", "<u16 as Ord>::max", "<u32 as Ord>::max", "<u64 as Ord>::max", "<usize as Ord>::max")
def _int_max(ex, c):
    a, b = c.args
    if not (isinstance(a, BV) and isinstance(b, BV)):
        return S["std::cmp::max"](ex, c)
    ge = (a.t >= b.t) if a.signed else z3.UGE(a.t, b.t)
    return BV(z3.If(ge, a.t, b.t), a.signed)


@summary("core::num::is_power_of_two")
def _is_pow2(ex, c):
    a = c.args[0]
    return Bool(z3.And(a.t != 0, (a.t & (a.t - 1)) == 0))


@summary("Vec::dedup_by")
def _vec_dedup_by(ex, c):
    r, f = c.args
    base = r
    while isinstance(ex.load(base), Ref):
        base = ex.load(base)
    seq = ex.load(base)
    kept = []
    for x in seq.items:
        if kept:
            cx, ck = Cell(x), Cell(kept[-1])
            same = ex.call_callable(f, [Ref(cx, mut=True), Ref(ck, mut=True)])
            if ex.branch(same.t):
                kept[-1] = ck.v
                continue
            x = cx.v
            kept[-1] = ck.v
        kept.append(x)
    ex.store(base, Seq(kept))
    return UNIT


@summary("Vec::dedup")
def _vec_dedup(ex, c):
    raise Unsupported("Vec::dedup (element equality) is not summarised")
