"""C17: router advertisements carry exactly the configured values in RFC format.

RaAdvService::build_announcement_pure and icmppkt::serialise_router_advertisement are executed from MIR on interface
configurations of CONCRETE SHAPE (which options, how many prefixes / servers / domains, concrete domain and URL text)
with SYMBOLIC VALUES (lifetimes over 0..2^64-1 s, flags, prefix bits and lengths, addresses, MTU, link-layer address).
The octets produced are decoded here by a decoder written from RFC 4861 4.2/4.6, RFC 8106 5, RFC 8781 4 and RFC 8910 2.3
(erbium's own parser is not used) and compared with the configuration."""
import z3

from .interp import Exec
from .props_cache import build, field
from .props_pool import check
from .summaries import S, some, NONE, deref, duration
from .values import BV, Bool, Adt, Seq, Str, Cell, Ref, Opaque, Unsupported

RS = dict(S)


def rsummary(*names):
    def deco(f):
        for n in names:
            RS[n] = f
        return f
    return deco


def ip6(t):
    return Adt("Ipv6Addr", None, [BV(t)])


def ip6_term(a):
    """128-bit term of an Ipv6Addr value however it was built (our BV128, an octet array, 16 octets or 8 segments)"""
    fs = a.fields
    if len(fs) == 1 and isinstance(fs[0], BV) and fs[0].width == 128:
        return fs[0].t
    if len(fs) == 1 and isinstance(fs[0], Seq):
        fs = fs[0].items
    if len(fs) in (16, 8) and all(isinstance(x, BV) for x in fs):
        t = fs[0].t
        for x in fs[1:]:
            t = z3.Concat(t, x.t)
        if t.size() == 128:
            return t
    raise Unsupported(f"Ipv6Addr representation {a!r} {fs!r}")


@rsummary("Ipv6Addr::new", "std::net::Ipv6Addr::new")
def _ip6_new(ex, c):
    t = c.args[0].t
    for x in c.args[1:]:
        t = z3.Concat(t, x.t)
    return ip6(t)


@rsummary("Ipv6Addr::octets", "std::net::Ipv6Addr::octets")
def _ip6_octets(ex, c):
    a = deref(ex, c.args[0])
    t = ip6_term(a)
    return Seq([BV(z3.Extract(127 - 8 * i, 120 - 8 * i, t)) for i in range(16)], "array")


@rsummary("<u128 as From>::from", "<Ipv6Addr as Into>::into")
def _u128_from(ex, c):
    a = c.args[0]
    if isinstance(a, Adt) and a.ty == "Ipv6Addr":
        return BV(ip6_term(a))
    if isinstance(a, BV):
        return BV(z3.ZeroExt(128 - a.width, a.t)) if a.width < 128 else a
    raise Unsupported(f"u128::from({a!r})")


@rsummary("<Ipv6Addr as From>::from", "<u128 as Into>::into")
def _ip6_from(ex, c):
    a = c.args[0]
    if isinstance(a, BV) and a.width == 128:
        return ip6(a.t)
    if isinstance(a, Seq) and len(a.items) == 16:
        t = a.items[0].t
        for b in a.items[1:]:
            t = z3.Concat(t, b.t)
        return ip6(t)
    raise Unsupported(f"Ipv6Addr::from({a!r})")


@rsummary("std::net::Ipv6Addr::UNSPECIFIED", "Ipv6Addr::UNSPECIFIED", "core::net::Ipv6Addr::UNSPECIFIED")
def _ip6_unspec(ex, c):
    return ip6(z3.BitVecVal(0, 128))


@rsummary("<Ipv6Addr as PartialEq>::eq")
def _ip6_eq(ex, c):
    a, b = deref(ex, c.args[0]), deref(ex, c.args[1])
    return Bool(ip6_term(a) == ip6_term(b))


@rsummary("<Ipv6Addr as PartialEq>::ne")
def _ip6_ne(ex, c):
    a, b = deref(ex, c.args[0]), deref(ex, c.args[1])
    return Bool(ip6_term(a) != ip6_term(b))


@rsummary("str::as_bytes", "core::str::as_bytes", "String::as_bytes", "String::into_bytes")
def _as_bytes(ex, c):
    s_ = deref(ex, c.args[0])
    if s_.text is None:
        raise Unsupported("bytes of symbolic text")
    return Seq([BV(z3.BitVecVal(b, 8)) for b in s_.text.encode()])


@rsummary("str::len", "core::str::len", "String::len")
def _str_len(ex, c):
    s_ = deref(ex, c.args[0])
    if s_.text is None:
        raise Unsupported("length of symbolic text")
    return BV(z3.BitVecVal(len(s_.text.encode()), 64))


def _lazy_try_from(target):
    """T::try_from(x) whose only consumer is `.unwrap_or(d)`: kept as one symbolic value instead of forking into Ok / Err paths
    (the encoder clamps ~10 fields per advertisement; forking on each would square the path count for nothing)"""
    from .values import INT_TYPES
    tw, _ = INT_TYPES[target]

    def f(ex, c):
        v = c.args[0]
        if not isinstance(v, BV) or v.signed:
            raise Unsupported(f"{target}::try_from({v!r})")
        if v.width <= tw:
            return Adt("Result", "Ok", [BV(z3.ZeroExt(tw - v.width, v.t) if v.width < tw else v.t)])
        return Opaque("LazyTryFrom", fits=z3.ULE(v.t, z3.BitVecVal((1 << tw) - 1, v.width)), val=z3.Extract(tw - 1, 0, v.t))
    return f


RS["<u16 as TryFrom>::try_from"] = _lazy_try_from("u16")
RS["<u32 as TryFrom>::try_from"] = _lazy_try_from("u32")
_std_unwrap_or = S["Result::unwrap_or"]


@rsummary("Result::unwrap_or")
def _lazy_unwrap_or(ex, c):
    r, d = c.args
    if isinstance(r, Opaque) and r.kind == "LazyTryFrom":
        return BV(z3.If(r.fits, r.val, d.t))
    return _std_unwrap_or(ex, c)


def find1(prog, name, nargs, hint):
    fs = [f for f in prog.find(name, nargs) if "{closure" not in f.name and "isomer_erbium_verif" not in f.name and (hint in f.name or hint in f.ret)]
    if len(fs) != 1:
        raise Unsupported(f"{name}/{nargs} ({hint}) not found uniquely ({[f.name for f in fs]})")
    return fs[0]


def build_d(structs, sname, **vals):
    cands = [f for f in structs.get(sname, []) if set(f) == set(vals)]
    if len(cands) != 1:
        raise Unsupported(f"struct {sname} with fields {sorted(vals)} not found uniquely in the source ({structs.get(sname)})")
    return Adt(sname, None, [vals[f] for f in cands[0]], list(cands[0]))


def cv(kind, v=None):
    return Adt("ConfigValue", kind, [v] if kind == "Value" else [])


class Shape:
    """which parts of the interface configuration exist (concrete); their values are symbolic"""

    def __init__(self, name, ll=False, mtu=False, prefixes=0, rdnss=None, dnssl=None, dnssl_top=None, rdnss_top=None, pref64=None, portal=None, portal_top=None,
                 lifetime="value", dns_lifetimes="value"):
        self.name = name
        self.ll, self.mtu, self.prefixes = ll, mtu, prefixes
        self.rdnss = rdnss            # None = not specified, "null", or number of servers (the first one written as $self6 when >= 2)
        self.dnssl = dnssl            # None / "null" / list of domain strings
        self.dnssl_top, self.rdnss_top = dnssl_top, rdnss_top
        self.pref64 = pref64          # None or a legal prefix length
        self.portal, self.portal_top = portal, portal_top      # None / "null" / text
        self.lifetime = lifetime      # "value" / "null" / None
        self.dns_lifetimes = dns_lifetimes


def dur(name):
    return duration(z3.BitVec(name, 64))


def obligation(prog, enums, structs, sh):
    build_fn = find1(prog, "build_announcement_pure", 6, "radv")
    ser_fn = find1(prog, "serialise_router_advertisement", 1, "Vec<u8>")
    ex = Exec(prog, RS, enums, max_unroll=40, timeout_s=300)

    def run(e):
        v = {}
        v["hop"] = z3.BitVec("hop_limit", 8)
        v["managed"], v["other"] = z3.Bool("managed"), z3.Bool("other")
        v["lifetime"] = z3.BitVec("router_lifetime", 64)
        v["default_lifetime"] = z3.BitVec("default_lifetime", 64)
        v["reach"], v["retrans"] = z3.BitVec("reachable_s", 64), z3.BitVec("retrans_s", 64)
        v["ll"] = [z3.BitVec(f"ll{i}", 8) for i in range(6)]
        v["mtu"] = z3.BitVec("mtu", 32)
        v["self6"] = z3.BitVec("self6", 128)
        prefixes = []
        v["prefixes"] = []
        for i in range(sh.prefixes):
            p = dict(addr=z3.BitVec(f"p{i}_addr", 128), len=z3.BitVec(f"p{i}_len", 8), onlink=z3.Bool(f"p{i}_onlink"), auto=z3.Bool(f"p{i}_auto"),
                     valid=z3.BitVec(f"p{i}_valid", 64), preferred=z3.BitVec(f"p{i}_preferred", 64))
            e.assume(z3.ULE(p["len"], 128))            # what the loader accepts
            v["prefixes"].append(p)
            prefixes.append(build(structs, "Prefix", addr=ip6(p["addr"]), prefixlen=BV(p["len"]), onlink=Bool(p["onlink"]), autonomous=Bool(p["auto"]),
                                  valid=duration(p["valid"]), preferred=duration(p["preferred"])))
        v["rdnss_life"], v["dnssl_life"] = z3.BitVec("rdnss_lifetime", 64), z3.BitVec("dnssl_lifetime", 64)
        v["servers"] = []
        if isinstance(sh.rdnss, int):
            for i in range(sh.rdnss):
                t = z3.BitVec(f"server{i}", 128)
                if i == 0 and sh.rdnss >= 2:
                    t = z3.BitVecVal(0, 128)           # written as $self6
                else:
                    e.assume(t != 0)
                v["servers"].append(t)
            rdnss = cv("Value", Seq([ip6(t) for t in v["servers"]]))
        else:
            rdnss = cv("DontSet") if sh.rdnss == "null" else cv("NotSpecified")
        v["top_servers"] = []
        top_dns = []
        if sh.rdnss_top:
            for i, kind in enumerate(sh.rdnss_top):     # "v4" / "v6" / "self6"
                if kind == "v4":
                    top_dns.append(Adt("IpAddr", "V4", [Adt("Ipv4Addr", None, [BV(z3.BitVec(f"top_v4_{i}", 32))])]))
                else:
                    t = z3.BitVecVal(0, 128) if kind == "self6" else z3.BitVec(f"top_server{i}", 128)
                    if kind != "self6":
                        e.assume(t != 0)
                    v["top_servers"].append(t)
                    top_dns.append(Adt("IpAddr", "V6", [ip6(t)]))
        dnssl = cv("Value", Seq([Str(text=d) for d in sh.dnssl])) if isinstance(sh.dnssl, list) else (cv("DontSet") if sh.dnssl == "null" else cv("NotSpecified"))
        portal = cv("Value", Str(text=sh.portal)) if isinstance(sh.portal, str) and sh.portal != "null" else (cv("DontSet") if sh.portal == "null" else cv("NotSpecified"))
        v["pref64_prefix"], v["pref64_life"] = z3.BitVec("pref64_prefix", 128), z3.BitVec("pref64_lifetime", 64)
        pref64 = some(build(structs, "Pref64", lifetime=duration(v["pref64_life"]), prefix=ip6(v["pref64_prefix"]), prefixlen=BV(z3.BitVecVal(sh.pref64, 8)))) if sh.pref64 else NONE()
        lifetime = cv("Value", duration(v["lifetime"])) if sh.lifetime == "value" else (cv("DontSet") if sh.lifetime == "null" else cv("NotSpecified"))
        dl = (lambda t: cv("Value", duration(t))) if sh.dns_lifetimes == "value" else (lambda t: cv("NotSpecified"))
        intf = build_d(structs, "Interface", name=Str(text="eth0"), hoplimit=BV(v["hop"]), managed=Bool(v["managed"]), other=Bool(v["other"]),
                     max_rtr_adv_interval=cv("NotSpecified"), min_rtr_adv_interval=cv("NotSpecified"), lifetime=lifetime,
                     reachable=duration(v["reach"]), retrans=duration(v["retrans"]), mtu=cv("NotSpecified"), prefixes=Seq(prefixes),
                     rdnss_lifetime=dl(v["rdnss_life"]), rdnss=rdnss, dnssl_lifetime=dl(v["dnssl_life"]), dnssl=dnssl, captive_portal=portal, pref64=pref64)
        cnames = [f for f in structs["Config"] if "dns_servers" in f][0]
        cvals = {n: Opaque("unused") for n in cnames}
        cvals.update(dns_servers=Seq(top_dns), dns_search=Seq([Str(text=d) for d in (sh.dnssl_top or [])]),
                     captive_portal=some(Str(text=sh.portal_top)) if sh.portal_top else NONE())
        conf = Adt("Config", None, [cvals[n] for n in cnames], list(cnames))
        e.env["v"] = v
        adv = e.call_fn(build_fn, [Ref(Cell(conf)), Ref(Cell(intf)),
                                   some(Seq([BV(t) for t in v["ll"]], "array")) if sh.ll else NONE(),
                                   some(BV(v["mtu"])) if sh.mtu else NONE(), ip6(v["self6"]), duration(v["default_lifetime"])])
        return e.call_fn(ser_fn, [Ref(Cell(adv))])
    paths = ex.explore(run)
    failed, kinds = [], {}
    for outcome, val, pc, env in paths:
        v = env.get("v", {})
        claims = []
        if outcome == "panic":
            kinds["panic"] = kinds.get("panic", 0) + 1
            claims.append(("building and encoding a router advertisement for an accepted configuration never panics: " + str(val), z3.BoolVal(False)))
        else:
            out = val.items
            kinds[len(out)] = kinds.get(len(out), 0) + 1
            claims += decode_and_compare(out, sh, v)
        for name, f in claims:
            m = check(ex, pc, f, name)
            if m is not None:
                def ev(t):
                    r = m.eval(t, model_completion=True)
                    return bool(z3.is_true(r)) if z3.is_bool(t) else r.as_long()
                cex = dict(ra_shape=sh.name, outcome=outcome if outcome == "panic" else "%d octets" % len(val.items))
                for k, t in v.items():
                    if isinstance(t, list):
                        cex[k] = [({kk: ev(tt) for kk, tt in x.items()} if isinstance(x, dict) else ev(x)) for x in t]
                    else:
                        cex[k] = ev(t)
                if outcome != "panic":
                    cex["octets"] = "".join("%02x" % m.eval(b.t, model_completion=True).as_long() for b in val.items[:160])
                failed.append(dict(check="", description=name, location="radv/mod.rs build_announcement_pure + radv/icmppkt.rs serialise_router_advertisement", kind="violation", counterexample=cex))
    return failed, ex, len(paths), kinds


# ---------------------------------------------------------------------------------------------------------------- RFC decoder + expectations
def cat(bs):
    t = bs[0].t
    for b in bs[1:]:
        t = z3.Concat(t, b.t)
    return t


def conc(b):
    s = z3.simplify(b.t)
    return s.as_long() if z3.is_bv_value(s) else None


def clamp(secs, bits, scale=1):
    """value a field of `bits` bits must carry for a configured 64-bit number of seconds (times scale): exact if representable, else all ones"""
    mx = (1 << bits) - 1
    if scale == 1:
        return z3.If(z3.ULE(secs, mx), z3.Extract(bits - 1, 0, secs), z3.BitVecVal(mx, bits))
    # milliseconds: secs * 1000 on 128 bits
    wide = z3.ZeroExt(64, secs) * scale
    return z3.If(z3.ULE(wide, mx), z3.Extract(bits - 1, 0, wide), z3.BitVecVal(mx, bits))


def mask128(length):
    l128 = z3.ZeroExt(120, length)
    return z3.If(length == 0, z3.BitVecVal(0, 128), z3.BitVecVal((1 << 128) - 1, 128) << (128 - l128))


def encode_names(domains):
    raw = b""
    for d in domains:
        for lab in d.split("."):
            raw += bytes([len(lab)]) + lab.encode()
        raw += b"\0"
    return raw


def decode_and_compare(out, sh, v):
    claims = []
    n = len(out)
    frame = [z3.BoolVal(n >= 16 and n % 8 == 0)]
    if n < 16:
        return [("message is at least the 16-octet header and a multiple of 8 octets", z3.BoolVal(False))]
    claims.append(("RFC 4861 4.2 header: type 134, code 0, hop limit, M and O flags, reserved flag bits zero",
                   z3.And(out[0].t == 134, out[1].t == 0, out[4].t == v["hop"], (z3.Extract(7, 7, out[5].t) == 1) == v["managed"],
                          (z3.Extract(6, 6, out[5].t) == 1) == v["other"], z3.Extract(5, 0, out[5].t) == 0)))
    want_life = v["lifetime"] if sh.lifetime == "value" else v["default_lifetime"]
    claims.append(("Router Lifetime = the configured lifetime (default when not configured), clamped to 65535 s, never wrapped", cat(out[6:8]) == clamp(want_life, 16)))
    claims.append(("Reachable Time / Retrans Timer = configured seconds in ms, clamped to 2^32-1, never wrapped",
                   z3.And(cat(out[8:12]) == clamp(v["reach"], 32, 1000), cat(out[12:16]) == clamp(v["retrans"], 32, 1000))))
    # options
    opts = []
    off = 16
    while off < n:
        if off + 2 > n:
            frame.append(z3.BoolVal(False))
            break
        ty, ln = conc(out[off]), conc(out[off + 1])
        if ty is None or ln is None or ln == 0 or off + 8 * ln > n:
            frame.append(z3.BoolVal(False))
            break
        opts.append((ty, out[off:off + 8 * ln]))
        off += 8 * ln
    claims.append(("message length and every option length are multiples of 8 octets, no zero-length option, options tile the message exactly", z3.And(frame)))
    if not all(z3.is_true(z3.simplify(f)) for f in frame):
        return claims
    by = {}
    for ty, b in opts:
        by.setdefault(ty, []).append(b)
    expect = {}
    if sh.ll:
        expect[1] = 1
    if sh.mtu:
        expect[5] = 1
    if sh.prefixes:
        expect[3] = sh.prefixes
    servers = None
    if isinstance(sh.rdnss, int):
        servers = [(v["self6"] if (i == 0 and sh.rdnss >= 2) else t) for i, t in enumerate(v["servers"])]
    elif sh.rdnss is None:
        servers = []
        k = 0
        for kind in (sh.rdnss_top or []):
            if kind == "v4":
                continue
            servers.append(v["self6"] if kind == "self6" else v["top_servers"][k])
            k += 1
    if servers:
        expect[25] = 1
    domains = sh.dnssl if isinstance(sh.dnssl, list) else ((sh.dnssl_top or []) if sh.dnssl is None else None)
    if domains:
        expect[31] = 1
    if sh.pref64:
        expect[38] = 1
    url = sh.portal if isinstance(sh.portal, str) and sh.portal != "null" else (sh.portal_top if sh.portal is None else None)
    if url is not None:
        expect[37] = 1
    claims.append(("exactly the configured options are present (null suppresses an option, an empty list emits none, top-level settings are the defaults)",
                   z3.BoolVal({k: len(x) for k, x in by.items()} == expect)))
    if {k: len(x) for k, x in by.items()} != expect:
        return claims
    if sh.ll:
        b = by[1][0]
        claims.append(("source link-layer address option carries the interface's address (RFC 4861 4.6.1)", z3.And([z3.BoolVal(len(b) == 8)] + [b[2 + i].t == v["ll"][i] for i in range(6)])))
    if sh.mtu:
        b = by[5][0]
        claims.append(("MTU option: reserved zero, MTU as configured (RFC 4861 4.6.4)", z3.And(z3.BoolVal(len(b) == 8), cat(b[2:4]) == 0, cat(b[4:8]) == v["mtu"])))
    for i, p in enumerate(v.get("prefixes", [])):
        b = by[3][i]
        if len(b) != 32:
            claims.append(("prefix information option is 32 octets (RFC 4861 4.6.2)", z3.BoolVal(False)))
            continue
        claims.append((f"prefix information option {i}: length, L and A flags, reserved fields zero (RFC 4861 4.6.2)",
                       z3.And(b[2].t == p["len"], (z3.Extract(7, 7, b[3].t) == 1) == p["onlink"], (z3.Extract(6, 6, b[3].t) == 1) == p["auto"], z3.Extract(5, 0, b[3].t) == 0, cat(b[12:16]) == 0)))
        claims.append((f"prefix information option {i}: valid and preferred lifetimes as configured, clamped to 2^32-1, never wrapped",
                       z3.And(cat(b[4:8]) == clamp(p["valid"], 32), cat(b[8:12]) == clamp(p["preferred"], 32))))
        claims.append((f"prefix information option {i}: the prefix bits as configured and the bits beyond the prefix length zero", cat(b[16:32]) == (p["addr"] & mask128(p["len"]))))
    if servers:
        b = by[25][0]
        want_life = v["rdnss_life"] if sh.dns_lifetimes == "value" else z3.BitVecVal(1800, 64)
        ok_len = len(b) == 8 + 16 * len(servers)
        claims.append(("RDNSS option (RFC 8106 5.1): length 1 + 2 per server, reserved zero, lifetime clamped never wrapped, the servers in order with $self6 replaced by the interface address",
                       z3.And([z3.BoolVal(ok_len), cat(b[2:4]) == 0, cat(b[4:8]) == clamp(want_life, 32)] + ([cat(b[8 + 16 * k:24 + 16 * k]) == t for k, t in enumerate(servers)] if ok_len else []))))
    if domains:
        b = by[31][0]
        raw = encode_names(domains)
        want_life = v["dnssl_life"] if sh.dns_lifetimes == "value" else z3.BitVecVal(1800, 64)
        body = b[8:]
        ok_len = len(body) >= len(raw) and len(body) - len(raw) < 8
        claims.append(("DNSSL option (RFC 8106 5.2): reserved zero, lifetime clamped never wrapped, the search domains as RFC 1035 names in order, zero padding to a multiple of 8",
                       z3.And([z3.BoolVal(ok_len), cat(b[2:4]) == 0, cat(b[4:8]) == clamp(want_life, 32)] +
                              ([body[k].t == raw[k] for k in range(len(raw))] + [body[k].t == 0 for k in range(len(raw), len(body))] if ok_len else []))))
    if sh.pref64:
        b = by[38][0]
        plc = {96: 0, 64: 1, 56: 2, 48: 3, 40: 4, 32: 5}[sh.pref64]
        units = z3.LShR(v["pref64_life"], 3)
        scaled = z3.If(z3.ULE(units, 8191), z3.Extract(12, 0, units), z3.BitVecVal(8191, 13))
        m96 = z3.Extract(127, 32, v["pref64_prefix"] & z3.BitVecVal(((1 << 128) - 1) ^ ((1 << (128 - sh.pref64)) - 1), 128))
        claims.append(("PREF64 option (RFC 8781 4): length 2, scaled lifetime clamped to 8191 units, prefix length code, prefix bits beyond the length zero",
                       z3.And(z3.BoolVal(len(b) == 16), z3.Extract(15, 3, cat(b[2:4])) == scaled, z3.Extract(2, 0, cat(b[2:4])) == plc, cat(b[4:16]) == m96) if len(b) == 16 else z3.BoolVal(False)))
    if url is not None:
        b = by[37][0]
        raw = url.encode()
        body = b[2:]
        ok_len = len(body) >= len(raw) and len(body) - len(raw) < 8
        claims.append(("captive-portal option (RFC 8910 2.3): the URI octets in full, NUL padding to a multiple of 8",
                       z3.And([z3.BoolVal(ok_len)] + ([body[k].t == raw[k] for k in range(len(raw))] + [body[k].t == 0 for k in range(len(raw), len(body))] if ok_len else []))))
    return claims


def shapes(tier):
    out = [Shape("header_only", lifetime="value"),
           Shape("header_default_lifetime", lifetime=None),
           Shape("ll_mtu", ll=True, mtu=True),
           Shape("one_prefix", prefixes=1),
           Shape("two_prefixes", prefixes=2, ll=True),
           Shape("rdnss_interface_self6", rdnss=2),
           Shape("rdnss_top_level", rdnss_top=["v4", "self6", "v6"], dns_lifetimes=None),
           Shape("rdnss_none_when_only_v4", rdnss_top=["v4"]),
           Shape("dnssl_interface", dnssl=["example.com", "lan"]),
           Shape("dnssl_top_level", dnssl_top=["example.org"], dns_lifetimes=None),
           Shape("nulls_suppress", rdnss="null", dnssl="null", portal="null", rdnss_top=["v6"], dnssl_top=["example.org"], portal_top="http://portal.example/"),
           Shape("pref64_96", pref64=96), Shape("pref64_64", pref64=64), Shape("pref64_32", pref64=32),
           Shape("portal_len7", portal="http://"), Shape("portal_len14", portal="http://a.b/cd/"), Shape("portal_top_len22", portal_top="http://portal.example/"),
           Shape("everything", ll=True, mtu=True, prefixes=1, rdnss=1, dnssl=["a.example"], pref64=48, portal="https://x.example/api")]
    if tier == "thorough":
        out += [Shape("three_prefixes", prefixes=3), Shape("rdnss_three", rdnss=3), Shape("pref64_56", pref64=56), Shape("pref64_48", pref64=48), Shape("pref64_40", pref64=40),
                Shape("dnssl_three", dnssl=["a.b.c.d.example", "x", "corp.example.net"])] + [Shape("portal_len%d" % k, portal="h" * k) for k in (0, 1, 5, 6, 8, 13, 15, 16, 23)]
    return out
