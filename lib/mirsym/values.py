"""Value model of the MIR symbolic executor."""
import z3


class Panic(Exception):
    """The executed path reaches a panic (assert terminator, unwrap on None, explicit panic!)."""


class Unsupported(Exception):
    """A construct or callee outside the encoder's subset: the obligation is inconclusive."""


class PathEnd(Exception):
    pass


class BV:
    __slots__ = ("t", "signed")

    def __init__(self, t, signed=False):
        self.t = t
        self.signed = signed

    @property
    def width(self):
        return self.t.size()

    def __repr__(self):
        return f"BV{self.width}{'s' if self.signed else 'u'}({z3.simplify(self.t)})"


class Bool:
    __slots__ = ("t",)

    def __init__(self, t):
        self.t = t if not isinstance(t, bool) else z3.BoolVal(t)

    def __repr__(self):
        return f"Bool({z3.simplify(self.t)})"


class Unit:
    def __repr__(self):
        return "()"


UNIT = Unit()


class Tup:
    def __init__(self, items):
        self.items = list(items)

    def __repr__(self):
        return "(" + ", ".join(map(repr, self.items)) + ")"


class Adt:
    """struct or enum value; enum values always have a concrete variant (paths fork when one is created)."""

    def __init__(self, ty, variant=None, fields=None, names=None):
        self.ty = ty
        self.variant = variant
        self.fields = list(fields or [])
        self.names = names

    def __repr__(self):
        v = f"::{self.variant}" if self.variant else ""
        return f"{self.ty}{v}{self.fields!r}"


class Seq:
    """Vec / array / slice storage of concrete length."""

    def __init__(self, items, kind="vec"):
        self.items = list(items)
        self.kind = kind

    def __repr__(self):
        return f"Seq{self.items!r}"


class Str:
    """String / &str: concrete text or the canonical dotted-quad rendering of a 32-bit address term."""

    def __init__(self, text=None, ip=None, plen=None):
        self.text = text
        self.ip = ip
        self.plen = plen        # with ip: the text is "<dotted quad>/<plen>" (a prefix written in a configuration)

    def __repr__(self):
        return f"Str({self.text!r})" if self.ip is None else f"IpStr({z3.simplify(self.ip)})"


class Cell:
    __slots__ = ("v",)

    def __init__(self, v=None):
        self.v = v


class Ref:
    """pointer to a place: a cell plus a projection path (field indices)"""
    __slots__ = ("cell", "path", "mut")

    def __init__(self, cell, path=(), mut=False):
        self.cell = cell
        self.path = tuple(path)
        self.mut = mut

    def __repr__(self):
        return f"&{self.path}"


class Opaque:
    """external object known only through summaries"""

    def __init__(self, kind, **data):
        self.kind = kind
        self.__dict__.update(data)

    def __repr__(self):
        return f"<{self.kind}>"


class Closure:
    def __init__(self, span, captures):
        self.span = span
        self.captures = list(captures)

    def __repr__(self):
        return f"<closure@{self.span}>"


class FnItem:
    def __init__(self, path):
        self.path = path

    def __repr__(self):
        return f"<fn {self.path}>"


INT_TYPES = {
    "u8": (8, False), "u16": (16, False), "u32": (32, False), "u64": (64, False), "u128": (128, False), "usize": (64, False),
    "i8": (8, True), "i16": (16, True), "i32": (32, True), "i64": (64, True), "i128": (128, True), "isize": (64, True),
}


def bv_const(v, ty):
    w, s = INT_TYPES[ty]
    return BV(z3.BitVecVal(v, w), s)
