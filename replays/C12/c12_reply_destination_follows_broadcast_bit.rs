// Concrete counterexample produced by Kani for harness dhcp::isomer_erbium_verif::k::c12_reply_destination_follows_broadcast_bit (/verif/kani/dhcp_mod.rs).
// Replay: /verif/check C12 --replay /verif/replays/C12/c12_reply_destination_follows_broadcast_bit.rs
/// Check for `missing_definition`: "assertion"
#[test]
fn kani_concrete_playback_c12_reply_destination_follows_broadcast_bit_6692923434638571433() {
    let concrete_vals: Vec<Vec<u8>> = vec![
        // 0
        vec![0, 0],
        // 0
        vec![0, 0, 0, 0],
        // 0
        vec![0, 0],
        // 0
        vec![0, 0, 0, 0],
    ];
    kani::concrete_playback_run(concrete_vals, c12_reply_destination_follows_broadcast_bit);
}

/// Check for `unsupported_construct`: "call to foreign "C" function `syscall` is not currently supported by Kani. Please post your example at https://github.com/model-checking/kani/issues/2423"
#[test]
fn kani_concrete_playback_c12_reply_destination_follows_broadcast_bit_5750141819310123953() {
    let concrete_vals: Vec<Vec<u8>> = vec![
        // 65535
        vec![255, 255],
        // 4294967295
        vec![255, 255, 255, 255],
        // 65535
        vec![255, 255],
        // 4294967295
        vec![255, 255, 255, 255],
    ];
    kani::concrete_playback_run(concrete_vals, c12_reply_destination_follows_broadcast_bit);
}

