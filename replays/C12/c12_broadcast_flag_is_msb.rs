// Concrete counterexample produced by Kani for harness dhcp::dhcppkt::isomer_erbium_verif::k::c12_broadcast_flag_is_msb (/verif/kani/dhcp_dhcppkt.rs).
// Replay: /verif/check C12 --replay /verif/replays/C12/c12_broadcast_flag_is_msb.rs
/// Check for `assertion`: ""get_broadcast_flag <=> flags & 0x8000""
#[test]
fn kani_concrete_playback_c12_broadcast_flag_is_msb_18151831419561982825() {
    let concrete_vals: Vec<Vec<u8>> = vec![
        // 32768
        vec![0, 128],
    ];
    kani::concrete_playback_run(concrete_vals, c12_broadcast_flag_is_msb);
}

