// Concrete counterexample produced by Kani for harness config::isomer_erbium_verif::k::c08_prefix6_contains_v6 (/verif/kani/config.rs).
// Replay: /verif/check C08 --replay /verif/replays/C08/c08_prefix6_contains_v6.rs
#[test]
fn kani_concrete_playback_c08_prefix6_contains_v6_17774538409870205707() {
    let concrete_vals: Vec<Vec<u8>> = vec![
        // 340282366920938463463374607431768211455
        vec![255, 255, 255, 255, 255, 255, 255, 255, 255, 255, 255, 255, 255, 255, 255, 255],
        // 0
        vec![0],
        // 340282366920938463463374607431768211455
        vec![255, 255, 255, 255, 255, 255, 255, 255, 255, 255, 255, 255, 255, 255, 255, 255],
    ];
    kani::concrete_playback_run(concrete_vals, c08_prefix6_contains_v6);
}
