// Concrete counterexample produced by Kani for harness config::isomer_erbium_verif::k::c08_prefix4_contains_mapped_v6 (/verif/kani/config.rs).
// Replay: /verif/check C08 --replay /verif/replays/C08/c08_prefix4_contains_mapped_v6.rs
#[test]
fn kani_concrete_playback_c08_prefix4_contains_mapped_v6_12673814175531984697() {
    let concrete_vals: Vec<Vec<u8>> = vec![
        // 0
        vec![0, 0, 0, 0],
        // 32
        vec![32],
        // 281470681743360
        vec![0, 0, 0, 0, 255, 255, 0, 0, 0, 0, 0, 0, 0, 0, 0, 0],
    ];
    kani::concrete_playback_run(concrete_vals, c08_prefix4_contains_mapped_v6);
}
