// Concrete counterexample produced by Kani for harness config::isomer_erbium_verif::k::c08_prefix_enum_dispatch (/verif/kani/config.rs).
// Replay: /verif/check C08 --replay /verif/replays/C08/c08_prefix_enum_dispatch.rs
#[test]
fn kani_concrete_playback_c08_prefix_enum_dispatch_9604159448627639070() {
    let concrete_vals: Vec<Vec<u8>> = vec![
        // 1
        vec![1],
        // 1
        vec![1],
        // 0
        vec![0, 0, 0, 0, 0, 0, 0, 0, 0, 0, 0, 0, 0, 0, 0, 0],
        // 0
        vec![0, 0, 0, 0, 0, 0, 0, 0, 0, 0, 0, 0, 0, 0, 0, 0],
        // 0
        vec![0],
    ];
    kani::concrete_playback_run(concrete_vals, c08_prefix_enum_dispatch);
}
