// Concrete counterexample produced by Kani for harness config::isomer_erbium_verif::k::c08_prefix4_contains_v4 (/verif/kani/config.rs).
// Replay: /verif/check C08 --replay /verif/replays/C08/c08_prefix4_contains_v4.rs
#[test]
fn kani_concrete_playback_c08_prefix4_contains_v4_10218595466558571521() {
    let concrete_vals: Vec<Vec<u8>> = vec![
        // 4294967295
        vec![255, 255, 255, 255],
        // 0
        vec![0],
        // 4294967295
        vec![255, 255, 255, 255],
    ];
    kani::concrete_playback_run(concrete_vals, c08_prefix4_contains_v4);
}
