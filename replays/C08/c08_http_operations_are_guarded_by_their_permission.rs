// Concrete counterexample produced by Kani for harness http::isomer_erbium_verif::k::c08_http_operations_are_guarded_by_their_permission (/verif/kani/http.rs).
// Replay: /verif/check C08 --replay /verif/replays/C08/c08_http_operations_are_guarded_by_their_permission.rs
/// Check for `assertion`: ""lease listing only with the HttpLeases permission""
#[test]
fn kani_concrete_playback_c08_http_operations_are_guarded_by_their_permission_16542913742723934704() {
    let concrete_vals: Vec<Vec<u8>> = vec![
        // 2ul
        vec![2, 0, 0, 0, 0, 0, 0, 0],
        // 1
        vec![1],
        // 1
        vec![1],
    ];
    kani::concrete_playback_run(concrete_vals, c08_http_operations_are_guarded_by_their_permission);
}

