// Concrete counterexample produced by Kani for harness dns::outquery::isomer_erbium_verif::k::c07_tcp_waiter_registration_survives_id_collision (/verif/kani/dns_outquery.rs).
// Replay: /verif/check C07 --replay /verif/replays/C07/c07_tcp_waiter_registration_survives_id_collision.rs
/// Check for `assertion`: "assertion failed: self_.qid2reply.insert(msg.out_query.qid, msg.out_reply).is_none()"
#[test]
fn kani_concrete_playback_c07_tcp_waiter_registration_survives_id_collision_5182485829948988076() {
    let concrete_vals: Vec<Vec<u8>> = vec![
        // 1
        vec![1],
        // 32766
        vec![254, 127],
        // 32765
        vec![253, 127],
        // 65534
        vec![254, 255],
        // 32766
        vec![254, 127],
    ];
    kani::concrete_playback_run(concrete_vals, c07_tcp_waiter_registration_survives_id_collision);
}

