// Concrete counterexample produced by Kani for harness socket::isomer_erbium_verif::k::c07_reply_source_is_query_destination_v4 (/verif/kani/net_socket.rs).
// Replay: /verif/check C07 --replay /verif/replays/C07/c07_reply_source_is_query_destination_v4.rs
#[test]
fn kani_concrete_playback_c07_reply_source_is_query_destination_v4_6459343747440468847() {
    let concrete_vals: Vec<Vec<u8>> = vec![
        // 2147483648
        vec![0, 0, 0, 128],
    ];
    kani::concrete_playback_run(concrete_vals, c07_reply_source_is_query_destination_v4);
}
