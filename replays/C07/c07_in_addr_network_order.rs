// Concrete counterexample produced by Kani for harness socket::isomer_erbium_verif::k::c07_in_addr_network_order (/verif/kani/net_socket.rs).
// Replay: /verif/check C07 --replay /verif/replays/C07/c07_in_addr_network_order.rs
#[test]
fn kani_concrete_playback_c07_in_addr_network_order_6484032595447892796() {
    let concrete_vals: Vec<Vec<u8>> = vec![
        // 2139095039
        vec![255, 255, 127, 127],
    ];
    kani::concrete_playback_run(concrete_vals, c07_in_addr_network_order);
}
