// Concrete counterexample produced by Kani for harness dns::dnspkt::isomer_erbium_verif::k::c15_ends_with_is_case_insensitive_label_suffix (/verif/kani/dns_dnspkt.rs).
// Replay: /verif/check C15 --replay /verif/replays/C15/c15_ends_with_is_case_insensitive_label_suffix.rs
/// Check for `assertion`: ""ends_with == case-insensitive whole-label suffix""
#[test]
fn kani_concrete_playback_c15_ends_with_is_case_insensitive_label_suffix_6648265952385248078() {
    let concrete_vals: Vec<Vec<u8>> = vec![
        // 68
        vec![68],
        // 68
        vec![68],
        // 228
        vec![228],
        // 208
        vec![208],
        // 104
        vec![104],
        // 1
        vec![1],
        // 208
        vec![208],
        // 72
        vec![72],
    ];
    kani::concrete_playback_run(concrete_vals, c15_ends_with_is_case_insensitive_label_suffix);
}

