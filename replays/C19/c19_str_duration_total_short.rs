// Concrete counterexample produced by Kani for harness config::isomer_erbium_verif::k::c19_str_duration_total_short (/verif/kani/config.rs).
// Replay: /verif/check C19 --replay /verif/replays/C19/c19_str_duration_total_short.rs
/// Check for `assertion`: "called `Option::unwrap()` on a `None` value"
///
/// # Warning
///
/// Concrete playback tests combined with stubs or contracts is highly
/// experimental, and subject to change.
///
/// The original harness has stubs which are not applied to this test.
/// This may cause a mismatch of non-deterministic values if the stub
/// creates any non-deterministic value.
/// The execution path may also differ, which can be used to refine the stub
/// logic.
#[test]
fn kani_concrete_playback_c19_str_duration_total_short_8670470735646652797() {
    let concrete_vals: Vec<Vec<u8>> = vec![
        // 115
        vec![115],
    ];
    kani::concrete_playback_run(concrete_vals, c19_str_duration_total_short);
}

