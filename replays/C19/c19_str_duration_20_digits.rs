// Concrete counterexample produced by Kani for harness config::isomer_erbium_verif::k::c19_str_duration_20_digits (/verif/kani/config.rs).
// Replay: /verif/check C19 --replay /verif/replays/C19/c19_str_duration_20_digits.rs
/// Check for `assertion`: "attempt to multiply with overflow"
///
/// # Warning
///
/// Concrete playback tests combined with stubs or contracts is highly
/// experimental, and subject to change.
///
/// The original harness has stubs which are not applied to this test.
/// This may cause a mismatch of non-deterministic values if the stub
/// creates any non-deterministic value.
/// The execution path may also differ, which can be used to refine the stub
/// logic.
#[test]
fn kani_concrete_playback_c19_str_duration_20_digits_2810586809988379323() {
    let concrete_vals: Vec<Vec<u8>> = vec![
        // 5
        vec![5],
        // 6
        vec![6],
        // 3
        vec![3],
        // 9
        vec![9],
        // 8
        vec![8],
        // 6
        vec![6],
        // 9
        vec![9],
        // 8
        vec![8],
        // 9
        vec![9],
        // 6
        vec![6],
        // 8
        vec![8],
        // 8
        vec![8],
        // 9
        vec![9],
        // 9
        vec![9],
        // 5
        vec![5],
        // 8
        vec![8],
        // 9
        vec![9],
        // 9
        vec![9],
        // 9
        vec![9],
        // 9
        vec![9],
        // 109
        vec![109],
    ];
    kani::concrete_playback_run(concrete_vals, c19_str_duration_20_digits);
}

/// Check for `assertion`: "attempt to add with overflow"
///
/// # Warning
///
/// Concrete playback tests combined with stubs or contracts is highly
/// experimental, and subject to change.
///
/// The original harness has stubs which are not applied to this test.
/// This may cause a mismatch of non-deterministic values if the stub
/// creates any non-deterministic value.
/// The execution path may also differ, which can be used to refine the stub
/// logic.
#[test]
fn kani_concrete_playback_c19_str_duration_20_digits_6000034227861567154() {
    let concrete_vals: Vec<Vec<u8>> = vec![
        // 1
        vec![1],
        // 8
        vec![8],
        // 4
        vec![4],
        // 4
        vec![4],
        // 6
        vec![6],
        // 7
        vec![7],
        // 4
        vec![4],
        // 4
        vec![4],
        // 0
        vec![0],
        // 7
        vec![7],
        // 3
        vec![3],
        // 7
        vec![7],
        // 0
        vec![0],
        // 9
        vec![9],
        // 5
        vec![5],
        // 5
        vec![5],
        // 1
        vec![1],
        // 6
        vec![6],
        // 1
        vec![1],
        // 9
        vec![9],
        // 119
        vec![119],
    ];
    kani::concrete_playback_run(concrete_vals, c19_str_duration_20_digits);
}

/// Check for `assertion`: "attempt to multiply with overflow"
///
/// # Warning
///
/// Concrete playback tests combined with stubs or contracts is highly
/// experimental, and subject to change.
///
/// The original harness has stubs which are not applied to this test.
/// This may cause a mismatch of non-deterministic values if the stub
/// creates any non-deterministic value.
/// The execution path may also differ, which can be used to refine the stub
/// logic.
#[test]
fn kani_concrete_playback_c19_str_duration_20_digits_2442130884614767660() {
    let concrete_vals: Vec<Vec<u8>> = vec![
        // 0
        vec![0],
        // 7
        vec![7],
        // 7
        vec![7],
        // 9
        vec![9],
        // 8
        vec![8],
        // 2
        vec![2],
        // 8
        vec![8],
        // 1
        vec![1],
        // 3
        vec![3],
        // 5
        vec![5],
        // 0
        vec![0],
        // 2
        vec![2],
        // 7
        vec![7],
        // 4
        vec![4],
        // 0
        vec![0],
        // 4
        vec![4],
        // 5
        vec![5],
        // 8
        vec![8],
        // 8
        vec![8],
        // 9
        vec![9],
        // 119
        vec![119],
    ];
    kani::concrete_playback_run(concrete_vals, c19_str_duration_20_digits);
}

/// Check for `assertion`: "attempt to multiply with overflow"
///
/// # Warning
///
/// Concrete playback tests combined with stubs or contracts is highly
/// experimental, and subject to change.
///
/// The original harness has stubs which are not applied to this test.
/// This may cause a mismatch of non-deterministic values if the stub
/// creates any non-deterministic value.
/// The execution path may also differ, which can be used to refine the stub
/// logic.
#[test]
fn kani_concrete_playback_c19_str_duration_20_digits_17048196464548705697() {
    let concrete_vals: Vec<Vec<u8>> = vec![
        // 0
        vec![0],
        // 1
        vec![1],
        // 1
        vec![1],
        // 5
        vec![5],
        // 2
        vec![2],
        // 9
        vec![9],
        // 2
        vec![2],
        // 1
        vec![1],
        // 5
        vec![5],
        // 0
        vec![0],
        // 4
        vec![4],
        // 6
        vec![6],
        // 0
        vec![0],
        // 6
        vec![6],
        // 8
        vec![8],
        // 4
        vec![4],
        // 6
        vec![6],
        // 9
        vec![9],
        // 5
        vec![5],
        // 9
        vec![9],
        // 119
        vec![119],
    ];
    kani::concrete_playback_run(concrete_vals, c19_str_duration_20_digits);
}

/// Check for `assertion`: "attempt to multiply with overflow"
///
/// # Warning
///
/// Concrete playback tests combined with stubs or contracts is highly
/// experimental, and subject to change.
///
/// The original harness has stubs which are not applied to this test.
/// This may cause a mismatch of non-deterministic values if the stub
/// creates any non-deterministic value.
/// The execution path may also differ, which can be used to refine the stub
/// logic.
#[test]
fn kani_concrete_playback_c19_str_duration_20_digits_12539928291237672369() {
    let concrete_vals: Vec<Vec<u8>> = vec![
        // 0
        vec![0],
        // 7
        vec![7],
        // 7
        vec![7],
        // 9
        vec![9],
        // 8
        vec![8],
        // 2
        vec![2],
        // 8
        vec![8],
        // 1
        vec![1],
        // 3
        vec![3],
        // 5
        vec![5],
        // 0
        vec![0],
        // 2
        vec![2],
        // 7
        vec![7],
        // 4
        vec![4],
        // 0
        vec![0],
        // 4
        vec![4],
        // 5
        vec![5],
        // 8
        vec![8],
        // 8
        vec![8],
        // 9
        vec![9],
        // 100
        vec![100],
    ];
    kani::concrete_playback_run(concrete_vals, c19_str_duration_20_digits);
}

/// Check for `assertion`: "attempt to multiply with overflow"
///
/// # Warning
///
/// Concrete playback tests combined with stubs or contracts is highly
/// experimental, and subject to change.
///
/// The original harness has stubs which are not applied to this test.
/// This may cause a mismatch of non-deterministic values if the stub
/// creates any non-deterministic value.
/// The execution path may also differ, which can be used to refine the stub
/// logic.
#[test]
fn kani_concrete_playback_c19_str_duration_20_digits_6211795477091188011() {
    let concrete_vals: Vec<Vec<u8>> = vec![
        // 1
        vec![1],
        // 0
        vec![0],
        // 3
        vec![3],
        // 0
        vec![0],
        // 7
        vec![7],
        // 9
        vec![9],
        // 2
        vec![2],
        // 1
        vec![1],
        // 5
        vec![5],
        // 1
        vec![1],
        // 0
        vec![0],
        // 7
        vec![7],
        // 2
        vec![2],
        // 8
        vec![8],
        // 8
        vec![8],
        // 0
        vec![0],
        // 6
        vec![6],
        // 7
        vec![7],
        // 9
        vec![9],
        // 3
        vec![3],
        // 104
        vec![104],
    ];
    kani::concrete_playback_run(concrete_vals, c19_str_duration_20_digits);
}

/// Check for `assertion`: "attempt to multiply with overflow"
///
/// # Warning
///
/// Concrete playback tests combined with stubs or contracts is highly
/// experimental, and subject to change.
///
/// The original harness has stubs which are not applied to this test.
/// This may cause a mismatch of non-deterministic values if the stub
/// creates any non-deterministic value.
/// The execution path may also differ, which can be used to refine the stub
/// logic.
#[test]
fn kani_concrete_playback_c19_str_duration_20_digits_663435933830414211() {
    let concrete_vals: Vec<Vec<u8>> = vec![
        // 1
        vec![1],
        // 3
        vec![3],
        // 0
        vec![0],
        // 7
        vec![7],
        // 7
        vec![7],
        // 0
        vec![0],
        // 5
        vec![5],
        // 3
        vec![3],
        // 4
        vec![4],
        // 3
        vec![3],
        // 5
        vec![5],
        // 8
        vec![8],
        // 5
        vec![5],
        // 4
        vec![4],
        // 2
        vec![2],
        // 0
        vec![0],
        // 6
        vec![6],
        // 7
        vec![7],
        // 9
        vec![9],
        // 5
        vec![5],
        // 109
        vec![109],
    ];
    kani::concrete_playback_run(concrete_vals, c19_str_duration_20_digits);
}

