// Concrete counterexample produced by Kani for harness config::isomer_erbium_verif::k::c19_str_duration_20_digits (/verif/kani/config.rs).
// Replay: /verif/check C19 --replay /verif/replays/C19/c19_str_duration_20_digits.rs
/// Check for `assertion`: "attempt to multiply with overflow"
///
/// # Warning
///
/// Concrete playback tests combined with stubs or contracts is highly
/// experimental, and subject to change.
///
/// The original harness has stubs which are not applied to this test.
/// This may cause a mismatch of non-deterministic values if the stub
/// creates any non-deterministic value.
/// The execution path may also differ, which can be used to refine the stub
/// logic.
#[test]
fn kani_concrete_playback_c19_str_duration_20_digits_16784808722055032552() {
    let concrete_vals: Vec<Vec<u8>> = vec![
        // 8
        vec![8],
        // 0
        vec![0],
        // 0
        vec![0],
        // 0
        vec![0],
        // 115
        vec![115],
    ];
    kani::concrete_playback_run(concrete_vals, c19_str_duration_20_digits);
}

/// Check for `assertion`: "attempt to add with overflow"
///
/// # Warning
///
/// Concrete playback tests combined with stubs or contracts is highly
/// experimental, and subject to change.
///
/// The original harness has stubs which are not applied to this test.
/// This may cause a mismatch of non-deterministic values if the stub
/// creates any non-deterministic value.
/// The execution path may also differ, which can be used to refine the stub
/// logic.
#[test]
fn kani_concrete_playback_c19_str_duration_20_digits_1362296009104668916() {
    let concrete_vals: Vec<Vec<u8>> = vec![
        // 1
        vec![1],
        // 6
        vec![6],
        // 0
        vec![0],
        // 3
        vec![3],
        // 119
        vec![119],
    ];
    kani::concrete_playback_run(concrete_vals, c19_str_duration_20_digits);
}

/// Check for `assertion`: "attempt to multiply with overflow"
///
/// # Warning
///
/// Concrete playback tests combined with stubs or contracts is highly
/// experimental, and subject to change.
///
/// The original harness has stubs which are not applied to this test.
/// This may cause a mismatch of non-deterministic values if the stub
/// creates any non-deterministic value.
/// The execution path may also differ, which can be used to refine the stub
/// logic.
#[test]
fn kani_concrete_playback_c19_str_duration_20_digits_18172415890989784288() {
    let concrete_vals: Vec<Vec<u8>> = vec![
        // 0
        vec![0],
        // 7
        vec![7],
        // 7
        vec![7],
        // 7
        vec![7],
        // 119
        vec![119],
    ];
    kani::concrete_playback_run(concrete_vals, c19_str_duration_20_digits);
}

/// Check for `assertion`: "attempt to multiply with overflow"
///
/// # Warning
///
/// Concrete playback tests combined with stubs or contracts is highly
/// experimental, and subject to change.
///
/// The original harness has stubs which are not applied to this test.
/// This may cause a mismatch of non-deterministic values if the stub
/// creates any non-deterministic value.
/// The execution path may also differ, which can be used to refine the stub
/// logic.
#[test]
fn kani_concrete_playback_c19_str_duration_20_digits_13742515842254601902() {
    let concrete_vals: Vec<Vec<u8>> = vec![
        // 0
        vec![0],
        // 2
        vec![2],
        // 2
        vec![2],
        // 2
        vec![2],
        // 100
        vec![100],
    ];
    kani::concrete_playback_run(concrete_vals, c19_str_duration_20_digits);
}

/// Check for `assertion`: "attempt to multiply with overflow"
///
/// # Warning
///
/// Concrete playback tests combined with stubs or contracts is highly
/// experimental, and subject to change.
///
/// The original harness has stubs which are not applied to this test.
/// This may cause a mismatch of non-deterministic values if the stub
/// creates any non-deterministic value.
/// The execution path may also differ, which can be used to refine the stub
/// logic.
#[test]
fn kani_concrete_playback_c19_str_duration_20_digits_3386377103401664169() {
    let concrete_vals: Vec<Vec<u8>> = vec![
        // 0
        vec![0],
        // 2
        vec![2],
        // 1
        vec![1],
        // 9
        vec![9],
        // 104
        vec![104],
    ];
    kani::concrete_playback_run(concrete_vals, c19_str_duration_20_digits);
}

/// Check for `assertion`: "attempt to multiply with overflow"
///
/// # Warning
///
/// Concrete playback tests combined with stubs or contracts is highly
/// experimental, and subject to change.
///
/// The original harness has stubs which are not applied to this test.
/// This may cause a mismatch of non-deterministic values if the stub
/// creates any non-deterministic value.
/// The execution path may also differ, which can be used to refine the stub
/// logic.
#[test]
fn kani_concrete_playback_c19_str_duration_20_digits_2458603142006166464() {
    let concrete_vals: Vec<Vec<u8>> = vec![
        // 0
        vec![0],
        // 0
        vec![0],
        // 0
        vec![0],
        // 5
        vec![5],
        // 109
        vec![109],
    ];
    kani::concrete_playback_run(concrete_vals, c19_str_duration_20_digits);
}

