// Concrete counterexample produced by Kani for harness config::isomer_erbium_verif::k::c19_str_duration_unit_scaling (/verif/kani/config.rs).
// Replay: /verif/check C19 --replay /verif/replays/C19/c19_str_duration_unit_scaling.rs
/// Check for `assertion`: "attempt to multiply with overflow"
///
/// # Warning
///
/// Concrete playback tests combined with stubs or contracts is highly
/// experimental, and subject to change.
///
/// The original harness has stubs which are not applied to this test.
/// This may cause a mismatch of non-deterministic values if the stub
/// creates any non-deterministic value.
/// The execution path may also differ, which can be used to refine the stub
/// logic.
#[test]
fn kani_concrete_playback_c19_str_duration_unit_scaling_6502216104186306996() {
    let concrete_vals: Vec<Vec<u8>> = vec![
        // 6
        vec![6],
        // 5
        vec![5],
        // 5
        vec![5],
        // 0
        vec![0],
        // 3
        vec![3],
        // 4
        vec![4],
        // 9
        vec![9],
        // 9
        vec![9],
        // 9
        vec![9],
        // 9
        vec![9],
        // 9
        vec![9],
        // 9
        vec![9],
        // 9
        vec![9],
        // 9
        vec![9],
        // 9
        vec![9],
        // 119
        vec![119],
    ];
    kani::concrete_playback_run(concrete_vals, c19_str_duration_unit_scaling);
}

/// Check for `assertion`: "attempt to multiply with overflow"
///
/// # Warning
///
/// Concrete playback tests combined with stubs or contracts is highly
/// experimental, and subject to change.
///
/// The original harness has stubs which are not applied to this test.
/// This may cause a mismatch of non-deterministic values if the stub
/// creates any non-deterministic value.
/// The execution path may also differ, which can be used to refine the stub
/// logic.
#[test]
fn kani_concrete_playback_c19_str_duration_unit_scaling_10726139511266900237() {
    let concrete_vals: Vec<Vec<u8>> = vec![
        // 7
        vec![7],
        // 3
        vec![3],
        // 4
        vec![4],
        // 0
        vec![0],
        // 0
        vec![0],
        // 0
        vec![0],
        // 6
        vec![6],
        // 9
        vec![9],
        // 6
        vec![6],
        // 4
        vec![4],
        // 4
        vec![4],
        // 4
        vec![4],
        // 9
        vec![9],
        // 2
        vec![2],
        // 9
        vec![9],
        // 100
        vec![100],
    ];
    kani::concrete_playback_run(concrete_vals, c19_str_duration_unit_scaling);
}

