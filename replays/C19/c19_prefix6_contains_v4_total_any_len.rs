// Concrete counterexample produced by Kani for harness config::isomer_erbium_verif::k::c19_prefix6_contains_v4_total_any_len (/verif/kani/config.rs).
// Replay: /verif/check C19 --replay /verif/replays/C19/c19_prefix6_contains_v4_total_any_len.rs
/// Check for `assertion`: "assertion failed: prefixlen <= 32"
#[test]
fn kani_concrete_playback_c19_prefix6_contains_v4_total_any_len_4017366861944814348() {
    let concrete_vals: Vec<Vec<u8>> = vec![
        // 281470681743360
        vec![0, 0, 0, 0, 255, 255, 0, 0, 0, 0, 0, 0, 0, 0, 0, 0],
        // 192
        vec![192],
        // 0
        vec![0, 0, 0, 0],
    ];
    kani::concrete_playback_run(concrete_vals, c19_prefix6_contains_v4_total_any_len);
}

