// Concrete counterexample produced by Kani for harness config::isomer_erbium_verif::k::c19_str_duration_sum_of_terms (/verif/kani/config.rs).
// Replay: /verif/check C19 --replay /verif/replays/C19/c19_str_duration_sum_of_terms.rs
/// Check for `assertion`: "This is a placeholder message; Kani doesn't support message formatted at runtime"
///
/// # Warning
///
/// Concrete playback tests combined with stubs or contracts is highly
/// experimental, and subject to change.
///
/// The original harness has stubs which are not applied to this test.
/// This may cause a mismatch of non-deterministic values if the stub
/// creates any non-deterministic value.
/// The execution path may also differ, which can be used to refine the stub
/// logic.
#[test]
fn kani_concrete_playback_c19_str_duration_sum_of_terms_1164713904449950960() {
    let concrete_vals: Vec<Vec<u8>> = vec![
        // 4
        vec![4],
        // 7
        vec![7],
    ];
    kani::concrete_playback_run(concrete_vals, c19_str_duration_sum_of_terms);
}

