// Concrete counterexample produced by Kani for harness radv::config::isomer_erbium_verif::k::c19_radv_parse_prefix_empty_mapping (/verif/kani/radv_config.rs).
// Replay: /verif/check C19 --replay /verif/replays/C19/c19_radv_parse_prefix_empty_mapping.rs
/// Check for `assertion`: "called `Option::unwrap()` on a `None` value"
///
/// # Warning
///
/// Concrete playback tests combined with stubs or contracts is highly
/// experimental, and subject to change.
///
/// The original harness has stubs which are not applied to this test.
/// This may cause a mismatch of non-deterministic values if the stub
/// creates any non-deterministic value.
/// The execution path may also differ, which can be used to refine the stub
/// logic.
#[test]
fn kani_concrete_playback_c19_radv_parse_prefix_empty_mapping_4964093914905097443() {
    let concrete_vals: Vec<Vec<u8>> = vec![
    ];
    kani::concrete_playback_run(concrete_vals, c19_radv_parse_prefix_empty_mapping);
}

