// Concrete counterexample produced by Kani for harness lldp::lldppkt::isomer_erbium_verif::k::c05_lldp_mgmt_addr_lengths (/verif/kani/lldp_lldppkt.rs).
// Replay: /verif/check C05 --replay /verif/replays/C05/c05_lldp_mgmt_addr_lengths.rs
/// Check for `assertion`: "attempt to subtract with overflow"
///
/// # Warning
///
/// Concrete playback tests combined with stubs or contracts is highly
/// experimental, and subject to change.
///
/// The original harness has stubs which are not applied to this test.
/// This may cause a mismatch of non-deterministic values if the stub
/// creates any non-deterministic value.
/// The execution path may also differ, which can be used to refine the stub
/// logic.
#[test]
fn kani_concrete_playback_c05_lldp_mgmt_addr_lengths_10220237872203048085() {
    let concrete_vals: Vec<Vec<u8>> = vec![
        // 0
        vec![0],
        // 0
        vec![0],
        // 96
        vec![96],
        // 0
        vec![0],
    ];
    kani::concrete_playback_run(concrete_vals, c05_lldp_mgmt_addr_lengths);
}

