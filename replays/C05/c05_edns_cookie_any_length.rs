// Concrete counterexample produced by Kani for harness dns::dnspkt::isomer_erbium_verif::k::c05_edns_cookie_any_length (/verif/kani/dns_dnspkt.rs).
// Replay: /verif/check C05 --replay /verif/replays/C05/c05_edns_cookie_any_length.rs
/// Check for `assertion`: "This is a placeholder message; Kani doesn't support message formatted at runtime"
#[test]
fn kani_concrete_playback_c05_edns_cookie_any_length_13625814855208771863() {
    let concrete_vals: Vec<Vec<u8>> = vec![
        // 0
        vec![0],
    ];
    kani::concrete_playback_run(concrete_vals, c05_edns_cookie_any_length);
}

