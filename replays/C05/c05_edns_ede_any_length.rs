// Concrete counterexample produced by Kani for harness dns::dnspkt::isomer_erbium_verif::k::c05_edns_ede_any_length (/verif/kani/dns_dnspkt.rs).
// Replay: /verif/check C05 --replay /verif/replays/C05/c05_edns_ede_any_length.rs
/// Check for `assertion`: "index out of bounds: the length is less than or equal to the given index"
#[test]
fn kani_concrete_playback_c05_edns_ede_any_length_15723021205951164636() {
    let concrete_vals: Vec<Vec<u8>> = vec![
        // 0
        vec![0],
    ];
    kani::concrete_playback_run(concrete_vals, c05_edns_ede_any_length);
}

