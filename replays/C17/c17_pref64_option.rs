// Concrete counterexample produced by Kani for harness radv::isomer_erbium_verif::k::c17_pref64_option (/verif/kani/radv_mod.rs).
// Replay: /verif/check C17 --replay /verif/replays/C17/c17_pref64_option.rs
/// Check for `assertion`: ""Scaled Lifetime * 8 s == configured lifetime (to the 8 s granularity)""
///
/// # Warning
///
/// Concrete playback tests combined with stubs or contracts is highly
/// experimental, and subject to change.
///
/// The original harness has stubs which are not applied to this test.
/// This may cause a mismatch of non-deterministic values if the stub
/// creates any non-deterministic value.
/// The execution path may also differ, which can be used to refine the stub
/// logic.
#[test]
fn kani_concrete_playback_c17_pref64_option_10959862169620387717() {
    let concrete_vals: Vec<Vec<u8>> = vec![
        // 161
        vec![161],
        // 340282366920938463444927863362353627135
        vec![255, 255, 255, 255, 0, 0, 0, 0, 255, 255, 255, 255, 255, 255, 255, 255],
        // 592ul
        vec![80, 2, 0, 0, 0, 0, 0, 0],
    ];
    kani::concrete_playback_run(concrete_vals, c17_pref64_option);
}

/// Check for `assertion`: ""PREF64 lifetime above 65528 s is clamped to 8191 units, never silently wrapped""
///
/// # Warning
///
/// Concrete playback tests combined with stubs or contracts is highly
/// experimental, and subject to change.
///
/// The original harness has stubs which are not applied to this test.
/// This may cause a mismatch of non-deterministic values if the stub
/// creates any non-deterministic value.
/// The execution path may also differ, which can be used to refine the stub
/// logic.
#[test]
fn kani_concrete_playback_c17_pref64_option_15425007032985227253() {
    let concrete_vals: Vec<Vec<u8>> = vec![
        // 161
        vec![161],
        // 340282366920938463444927863362353627135
        vec![255, 255, 255, 255, 0, 0, 0, 0, 255, 255, 255, 255, 255, 255, 255, 255],
        // 98288ul
        vec![240, 127, 1, 0, 0, 0, 0, 0],
    ];
    kani::concrete_playback_run(concrete_vals, c17_pref64_option);
}

