// Concrete counterexample produced by Kani for harness radv::isomer_erbium_verif::k::c17_header_reachable_retrans (/verif/kani/radv_mod.rs).
// Replay: /verif/check C17 --replay /verif/replays/C17/c17_header_reachable_retrans.rs
/// Check for `assertion`: ""Reachable Time above 2^32-1 ms is clamped, never silently wrapped""
///
/// # Warning
///
/// Concrete playback tests combined with stubs or contracts is highly
/// experimental, and subject to change.
///
/// The original harness has stubs which are not applied to this test.
/// This may cause a mismatch of non-deterministic values if the stub
/// creates any non-deterministic value.
/// The execution path may also differ, which can be used to refine the stub
/// logic.
#[test]
fn kani_concrete_playback_c17_header_reachable_retrans_13054850936444895073() {
    let concrete_vals: Vec<Vec<u8>> = vec![
        // 9223372036854775808ul
        vec![0, 0, 0, 0, 0, 0, 0, 128],
        // 9223372036854775808ul
        vec![0, 0, 0, 0, 0, 0, 0, 128],
    ];
    kani::concrete_playback_run(concrete_vals, c17_header_reachable_retrans);
}

/// Check for `assertion`: ""Retrans Timer above 2^32-1 ms is clamped, never silently wrapped""
///
/// # Warning
///
/// Concrete playback tests combined with stubs or contracts is highly
/// experimental, and subject to change.
///
/// The original harness has stubs which are not applied to this test.
/// This may cause a mismatch of non-deterministic values if the stub
/// creates any non-deterministic value.
/// The execution path may also differ, which can be used to refine the stub
/// logic.
#[test]
fn kani_concrete_playback_c17_header_reachable_retrans_14176700065333724675() {
    let concrete_vals: Vec<Vec<u8>> = vec![
        // 9223372036854779408ul
        vec![16, 14, 0, 0, 0, 0, 0, 128],
        // 9223372036854775808ul
        vec![0, 0, 0, 0, 0, 0, 0, 128],
    ];
    kani::concrete_playback_run(concrete_vals, c17_header_reachable_retrans);
}

