// Concrete counterexample produced by Kani for harness radv::isomer_erbium_verif::k::c17_header_flags_hoplimit_router_lifetime (/verif/kani/radv_mod.rs).
// Replay: /verif/check C17 --replay /verif/replays/C17/c17_header_flags_hoplimit_router_lifetime.rs
/// Check for `assertion`: ""Router Lifetime above 65535 s is clamped, never silently wrapped""
///
/// # Warning
///
/// Concrete playback tests combined with stubs or contracts is highly
/// experimental, and subject to change.
///
/// The original harness has stubs which are not applied to this test.
/// This may cause a mismatch of non-deterministic values if the stub
/// creates any non-deterministic value.
/// The execution path may also differ, which can be used to refine the stub
/// logic.
#[test]
fn kani_concrete_playback_c17_header_flags_hoplimit_router_lifetime_12218663962724454886() {
    let concrete_vals: Vec<Vec<u8>> = vec![
        // 255
        vec![255],
        // 1
        vec![1],
        // 1
        vec![1],
        // 18446744073709518847ul
        vec![255, 127, 255, 255, 255, 255, 255, 255],
        // 8191ul
        vec![255, 31, 0, 0, 0, 0, 0, 0],
        // 185
        vec![185],
    ];
    kani::concrete_playback_run(concrete_vals, c17_header_flags_hoplimit_router_lifetime);
}

