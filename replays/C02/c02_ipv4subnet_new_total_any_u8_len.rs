// Concrete counterexample produced by Kani for harness isomer_erbium_verif::k::c02_ipv4subnet_new_total_any_u8_len (/verif/kani/net_lib.rs).
// Replay: /verif/check C02 --replay /verif/replays/C02/c02_ipv4subnet_new_total_any_u8_len.rs
/// Check for `assertion`: ""an accepted Ipv4Subnet has a prefix length of at most 32""
#[test]
fn kani_concrete_playback_c02_ipv4subnet_new_total_any_u8_len_17768693146280487650() {
    let concrete_vals: Vec<Vec<u8>> = vec![
        // 0
        vec![0, 0, 0, 0],
        // 33
        vec![33],
    ];
    kani::concrete_playback_run(concrete_vals, c02_ipv4subnet_new_total_any_u8_len);
}

/// Check for `assertion`: "attempt to shift right with overflow"
#[test]
fn kani_concrete_playback_c02_ipv4subnet_new_total_any_u8_len_1789922964914569821() {
    let concrete_vals: Vec<Vec<u8>> = vec![
        // 0
        vec![0, 0, 0, 0],
        // 128
        vec![128],
    ];
    kani::concrete_playback_run(concrete_vals, c02_ipv4subnet_new_total_any_u8_len);
}

