// Concrete counterexample produced by Kani for harness isomer_erbium_verif::k::c02_ipv4subnet_new_rejects_len_33_to_63 (/verif/kani/net_lib.rs).
// Replay: /verif/check C02 --replay /verif/replays/C02/c02_ipv4subnet_new_rejects_len_33_to_63.rs
/// Check for `assertion`: ""prefix lengths 33..=63 are refused""
#[test]
fn kani_concrete_playback_c02_ipv4subnet_new_rejects_len_33_to_63_12008018242837843230() {
    let concrete_vals: Vec<Vec<u8>> = vec![
        // 0
        vec![0, 0, 0, 0],
        // 33
        vec![33],
    ];
    kani::concrete_playback_run(concrete_vals, c02_ipv4subnet_new_rejects_len_33_to_63);
}

