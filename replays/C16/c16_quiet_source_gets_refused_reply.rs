// Concrete counterexample produced by Kani for harness dns::bucket::isomer_erbium_verif::k::c16_quiet_source_gets_refused_reply (/verif/kani/dns_bucket.rs).
// Replay: /verif/check C16 --replay /verif/replays/C16/c16_quiet_source_gets_refused_reply.rs
#[test]
fn kani_concrete_playback_c16_quiet_source_gets_refused_reply_9144662212127459428() {
    let concrete_vals: Vec<Vec<u8>> = vec![
        // 2147483648
        vec![0, 0, 0, 128],
        // 1073741824
        vec![0, 0, 0, 64],
    ];
    kani::concrete_playback_run(concrete_vals, c16_quiet_source_gets_refused_reply);
}
