// Concrete counterexample produced by Kani for harness dns::isomer_erbium_verif::k::c16_cost_positive_and_covers_bytes (/verif/kani/dns_mod.rs).
// Replay: /verif/check C16 --replay /verif/replays/C16/c16_cost_positive_and_covers_bytes.rs
/// Check for `assertion`: ""the charge covers at least half the bytes sent""
#[test]
fn kani_concrete_playback_c16_cost_positive_and_covers_bytes_12458150695301581555() {
    let concrete_vals: Vec<Vec<u8>> = vec![
        // 401ul
        vec![145, 1, 0, 0, 0, 0, 0, 0],
        // 32769ul
        vec![1, 128, 0, 0, 0, 0, 0, 0],
        // 5
        vec![5, 0],
        // 1
        vec![1],
        // 0
        vec![0],
    ];
    kani::concrete_playback_run(concrete_vals, c16_cost_positive_and_covers_bytes);
}

