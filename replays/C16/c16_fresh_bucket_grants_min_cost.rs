// Concrete counterexample produced by Kani for harness dns::bucket::isomer_erbium_verif::k::c16_fresh_bucket_grants_min_cost (/verif/kani/dns_bucket.rs).
// Replay: /verif/check C16 --replay /verif/replays/C16/c16_fresh_bucket_grants_min_cost.rs
#[test]
fn kani_concrete_playback_c16_fresh_bucket_grants_min_cost_1426035198858556023() {
    let concrete_vals: Vec<Vec<u8>> = vec![
        // 2147483648
        vec![0, 0, 0, 128],
    ];
    kani::concrete_playback_run(concrete_vals, c16_fresh_bucket_grants_min_cost);
}
